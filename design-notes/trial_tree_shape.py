import re, sys, itertools, subprocess, functools, random
exec(open('rgram.py').read().split("L=int(sys.argv[1])")[0])   # reuse grammar loading, TEXT, rules
sys.setrecursionlimit(10000)
def parse_tree(seq):
    n=len(seq)
    @functools.lru_cache(None)
    def c(sym,i,j):
        if sym in TEXT: return 1 if j==i+1 and seq[i]==sym else 0
        return sum(calt(tuple(alt),i,j) for alt in rules[sym])
    @functools.lru_cache(None)
    def calt(alt,i,j):
        if not alt: return 1 if i==j else 0
        if len(alt)==1: return c(alt[0],i,j)
        tot=0
        for k in range(i,j+1):
            a=c(alt[0],i,k)
            if a: tot+=a*calt(alt[1:],k,j)
        return tot
    def t(sym,i,j):
        if sym in TEXT: return (sym,)
        for alt in rules[sym]:
            if calt(tuple(alt),i,j):
                return (sym,)+tuple(talt(tuple(alt),i,j))
        raise Exception('no parse')
    def talt(alt,i,j):
        if not alt: return []
        if len(alt)==1: return [t(alt[0],i,j)]
        for k in range(i,j+1):
            if c(alt[0],i,k) and calt(alt[1:],k,j):
                return [t(alt[0],i,k)]+talt(alt[1:],k,j)
    k=c('term',0,n)
    return k, (t('term',0,n) if k==1 else None)
UNIT={'term','atom','small_term','medium_term','large_term','huge_term','giant_term','jumbo_term'}
BIN={'sum':'+','difference':'-','product':'*','quotient':'/','less_than':'<','less_than_or_equal_to':'<=','equal_to':'==','greater_than':'>','greater_than_or_equal_to':'>='}
# AST nodes: ('k', children..., grouped flag)
def ast(t):
    s=t[0]
    if s in UNIT: return ast(t[1])
    if s=='group':
        a=ast(t[2]); return a[:-1]+(True,)
    if s in ('type','integer','boolean','true','false'): return ({'type':'type','integer':'int','boolean':'bool','true':'true','false':'false'}[s],False)
    if s=='integer_literal': return ('1',False)
    if s=='variable': return ('?',False)
    if s=='lambda': return ('lam','',('?',False),ast(t[3]),False)
    if s=='lambda_implicit': return ('lam','!',('?',False),ast(t[5]),False)
    if s=='annotated_lambda': return ('lam','',ast(t[4]),ast(t[7]),False)
    if s=='annotated_lambda_implicit': return ('lam','!',ast(t[4]),ast(t[7]),False)
    if s=='pi': return ('pi','',ast(t[4]),ast(t[7]),False)
    if s=='pi_implicit': return ('pi','!',ast(t[4]),ast(t[7]),False)
    if s=='non_dependent_pi': return ('pi','',ast(t[1]),ast(t[3]),False)
    if s=='application': return ('app',ast(t[1]),ast(t[2]),False)
    if s=='negation': return ('neg',ast(t[2]),False)
    if s in BIN: return ('bin',BIN[s],ast(t[1]),ast(t[3]),False)
    if s=='if': return ('if',ast(t[2]),ast(t[4]),ast(t[6]),False)
    if s=='let':
        ann=t[2]
        a=('?',False) if len(ann)==1 else ast(ann[2])
        return ('let',a,ast(t[4]),ast(t[6]),False)
    raise Exception(s)
CH={'app':{'app'}, '*':{'*','/'},'/':{'*','/'},'+':{'+','-'},'-':{'+','-'}}
def cls(a):
    if a[0]=='app': return 'app'
    if a[0]=='bin' and a[1] in '*/': return 'mul'
    if a[0]=='bin' and a[1] in '+-': return 'add'
    return None
def assoc(a):
    k=a[0]
    c=cls(a)
    if c:
        # collect chain along right spine while right child same class and not grouped
        operands=[]; ops=[]
        cur=a
        while True:
            if cur[0]=='app': l,r,op=cur[1],cur[2],'app'
            else: op,l,r=cur[1],cur[2],cur[3]
            operands.append(l); ops.append(op)
            if cls(r)==c and not r[-1]: cur=r
            else: operands.append(r); break
        acc=assoc(operands[0])
        for op,x in zip(ops,operands[1:]):
            x=assoc(x)
            acc=('app',acc,x,False) if op=='app' else ('bin',op,acc,x,False)
        return acc[:-1]+(a[-1],)
    if k=='lam' or k=='pi': return (k,a[1],assoc(a[2]),assoc(a[3]),a[-1])
    if k=='neg': return ('neg',assoc(a[1]),a[-1])
    if k=='bin': return ('bin',a[1],assoc(a[2]),assoc(a[3]),a[-1])
    if k=='if': return ('if',assoc(a[1]),assoc(a[2]),assoc(a[3]),a[-1])
    if k=='let': return ('let',assoc(a[1]),assoc(a[2]),assoc(a[3]),a[-1])
    return a
def fp(a):
    k=a[0]
    if k in ('type','int','bool','true','false','1','?'): return k
    if k=='lam' or k=='pi': return f"({k}{a[1]} {fp(a[2])} {fp(a[3])})"
    if k=='app': return f"(app {fp(a[1])} {fp(a[2])})"
    if k=='neg': return f"(neg {fp(a[1])})"
    if k=='bin': return f"({a[1]} {fp(a[2])} {fp(a[3])})"
    if k=='if': return f"(if {fp(a[1])} {fp(a[2])} {fp(a[3])})"
    if k=='let':
        defs=[]; cur=a
        while cur[0]=='let':
            defs.append(f"{fp(cur[1])}={fp(cur[2])}"); cur=cur[3]
        return f"(let [{';'.join(defs)}] {fp(cur)})"
def gen(sym,d):
    if sym in TEXT: return [sym]
    alts=rules[sym]
    if d<=0:
        # prefer shortest: pick alternatives leading to atoms
        pref={'term':['jumbo_term'],'jumbo_term':['giant_term'],'giant_term':['huge_term'],'huge_term':['large_term'],'large_term':['medium_term'],'medium_term':['small_term'],'small_term':['atom'],'atom':['type','variable','integer','integer_literal','boolean','true','false'],'let_annotation':[]}
        if sym in pref:
            if not pref[sym]: return []
            return gen(random.choice(pref[sym]),d)
    alt=random.choice(alts)
    out=[]
    for x in alt: out+=gen(x,d-1)
    return out
mode=sys.argv[1]; exe=sys.argv[2]
seqs=[]
if mode=='exh':
    L=int(sys.argv[3]); toks=sorted(TEXT)
    for l in range(1,L+1):
        for s in itertools.product(toks,repeat=l):
            seqs.append(s)
elif mode=='chains':
    import itertools as it
    for cls_ops in (['app'],['ASTERISK','SLASH'],['PLUS','MINUS']):
        def operand_forms(op0):
            a=['INTEGER_LITERAL'] if cls_ops!=['app'] else ['IDENTIFIER']
            inner = a+([op0] if op0!='app' else [])+a
            return [a, ['LEFT_PAREN']+a+['RIGHT_PAREN'], ['LEFT_PAREN']+inner+['RIGHT_PAREN'], ['LEFT_PAREN','LEFT_PAREN']+inner+['RIGHT_PAREN','RIGHT_PAREN']]
        for nops in (2,3,4):
            for ops in it.product(cls_ops,repeat=nops-1):
                for forms in it.product(range(4),repeat=nops):
                    seq=[]
                    for k in range(nops):
                        seq+=operand_forms(ops[0] if ops else 'app')[forms[k]]
                        if k<nops-1 and ops[k]!='app': seq.append(ops[k])
                    seqs.append(tuple(seq))
else:
    random.seed(int(sys.argv[3])); N=int(sys.argv[4])
    while len(seqs)<N:
        s=tuple(gen('term',random.randint(3,14)))
        if len(s)<=60: seqs.append(s)
inp='\n'.join(' '.join(TEXT[t] for t in s) for s in seqs)+'\n'
p=subprocess.run([exe,'ptok'],input=inp,capture_output=True,text=True)
lines=p.stdout.splitlines()
assert len(lines)==len(seqs),(len(lines),len(seqs),p.stderr[-300:])
n=0;bad=0;amb=0;accm=0
for s,line in zip(seqs,lines):
    ok=line.startswith('OK')
    if mode=='exh' and not ok: continue
    k,t=parse_tree(s)
    if k>1: amb+=1; continue
    if (k==1)!=ok:
        accm+=1
        if accm<=10: print('ACCEPT-MISMATCH',ok,k,' '.join(TEXT[x] for x in s))
        continue
    if k==0: continue
    n+=1
    exp=fp(assoc(ast(t)))
    got=line.split('\t')[1]
    if exp!=got:
        bad+=1
        if bad<=15: print('TREE-MISMATCH',' '.join(TEXT[x] for x in s),'\n   gram:',got,'\n   ref :',exp)
print('sentences compared',n,'tree mismatches',bad,'accept mismatches',accm,'ambiguous',amb,'maxlen',max(len(s) for s in seqs))
