import re, sys, itertools, subprocess, functools
g=open('/repo/grammar.y').read()
g=re.sub(r'/\*.*?\*/','',g,flags=re.S)
body=g.split('%%')[1]
tokens=re.findall(r'%token\s+(\w+)',g)
# rule starts: identifier followed by ':'
parts=re.split(r'(?m)(\b[a-z_]+)\s*:',body)
rules={}
for k in range(1,len(parts),2):
    name=parts[k]; rhs=parts[k+1].strip().rstrip(';').strip()
    alts=[]
    for alt in rhs.split('|'):
        syms=[x for x in alt.replace(';',' ').split() if x!='%empty']
        alts.append(syms)
    rules[name]=alts
TEXT={'ASTERISK':'*','BOOLEAN':'bool','COLON':':','DOUBLE_EQUALS':'==','ELSE':'else','EQUALS':'=','FALSE':'false','GREATER_THAN':'>','GREATER_THAN_OR_EQUAL':'>=','IDENTIFIER':'_','IF':'if','INTEGER':'int','INTEGER_LITERAL':'1','LEFT_CURLY':'{','LEFT_PAREN':'(','LESS_THAN':'<','LESS_THAN_OR_EQUAL':'<=','MINUS':'-','PLUS':'+','RIGHT_CURLY':'}','RIGHT_PAREN':')','SLASH':'/','TERMINATOR':';','THEN':'then','THICK_ARROW':'=>','THIN_ARROW':'->','TRUE':'true','TYPE':'type'}
assert set(TEXT)==set(tokens),(set(tokens)^set(TEXT))
def count(seq):
    n=len(seq)
    @functools.lru_cache(None)
    def c(sym,i,j):
        if sym in TEXT: return 1 if j==i+1 and seq[i]==sym else 0
        tot=0
        for alt in rules[sym]:
            tot+=calt(tuple(alt),i,j)
        return tot
    @functools.lru_cache(None)
    def calt(alt,i,j):
        if not alt: return 1 if i==j else 0
        if len(alt)==1: return c(alt[0],i,j)
        tot=0
        first=alt[0]
        # min lengths: terminals 1, nonterminals >=0 (let_annotation may be empty)
        for k in range(i,j+1):
            a=c(first,i,k)
            if a: tot+=a*calt(alt[1:],k,j)
        return tot
    return c('term',0,n)
L=int(sys.argv[1]); exe=sys.argv[2]
toks=sorted(TEXT)
seqs=[]
for l in range(0,L+1):
    seqs+=list(itertools.product(toks,repeat=l))
inp='\n'.join(' '.join(TEXT[t] for t in s) for s in seqs)+'\n'
p=subprocess.run([exe,'ptok'],input=inp,capture_output=True,text=True)
lines=p.stdout.splitlines()
assert len(lines)==len(seqs),(len(lines),len(seqs),p.stderr[-300:])
acc_g=acc_r=0; bad=0; amb=0
for s,line in zip(seqs,lines):
    k=count(s)
    ok=line.startswith('OK')
    acc_g+=ok; acc_r+=(k>0)
    if k>1:
        amb+=1
        if amb<=5: print('AMBIGUOUS',k,' '.join(TEXT[t] for t in s))
    if ok!=(k>0):
        bad+=1
        if bad<=25: print('MISMATCH gram=%s ref=%d :'%(ok,k),' '.join(TEXT[t] for t in s), '|', line[:80])
print('seqs',len(seqs),'gram_accepts',acc_g,'ref_accepts',acc_r,'mismatch',bad,'ambiguous',amb)
