import random, sys
seed=int(sys.argv[1]); N=int(sys.argv[2]); random.seed(seed)
cnt=[0]
def fresh():
    cnt[0]+=1; return f"v{cnt[0]}"
def gen(d, vars_):
    r=random.random()
    if d<=0 or r<0.25:
        c=random.choice(['lit','lit','var','var','true','ty'])
        if c=='lit': return str(random.choice([0,1,2,3,7]))
        if c=='var' and vars_: return random.choice(vars_)
        if c=='true': return random.choice(['true','false'])
        if c=='ty': return random.choice(['int','bool','type']) if random.random()<0.3 else '2'
        return '1'
    k=random.choice(['bin','bin','cmp','if','lam','lamu','app','app','let','let','let2','neg','paren','arrow','pi'])
    if k=='bin': return f"({gen(d-1,vars_)}) {random.choice('+-*/')} ({gen(d-1,vars_)})"
    if k=='cmp': return f"({gen(d-1,vars_)}) {random.choice(['<','<=','==','>','>='])} ({gen(d-1,vars_)})"
    if k=='if': return f"if {gen(d-1,vars_)} then {gen(d-1,vars_)} else {gen(d-1,vars_)}"
    if k=='neg': return f"-({gen(d-1,vars_)})"
    if k=='paren': return f"({gen(d-1,vars_)})"
    if k=='arrow': return f"({gen(d-1,vars_)}) -> {gen(d-1,vars_)}"
    nm=fresh()
    if k=='pi': return f"({nm} : {gen(d-1,vars_)}) -> {gen(d-1,vars_+[nm])}"
    if k=='lam': return f"(({nm} : {gen(d-1,vars_)}) => {gen(d-1,vars_+[nm])})"
    if k=='lamu': return f"({nm} => {gen(d-1,vars_+[nm])})"
    if k=='app': return f"({gen(d-1,vars_)}) ({gen(d-1,vars_)})"
    if k=='let':
        ann = f" : ({gen(d-2,vars_+[nm])})" if random.random()<0.4 else ""
        return f"({nm}{ann} = {gen(d-1,vars_+[nm])}; {gen(d-1,vars_+[nm])})"
    if k=='let2':
        nm2=fresh(); v2=vars_+[nm,nm2]
        a1 = f" : ({gen(d-2,v2)})" if random.random()<0.4 else ""
        a2 = f" : ({gen(d-2,v2)})" if random.random()<0.4 else ""
        return f"({nm}{a1} = {gen(d-1,v2)}; {nm2}{a2} = {gen(d-1,v2)}; {gen(d-1,v2)})"
for i in range(N):
    cnt[0]=0
    print(gen(random.randint(1,5),[]))
