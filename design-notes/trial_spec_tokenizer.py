import sys, itertools, subprocess, unicodedata
KW={'bool','else','false','if','int','then','true','type'}
SYM2=['->','<=','==','=>','>=']
SYM1='*:{(+})/;-<=>'
def is_ws(c): return c!='\n' and (c.isspace() or c in '\x85\xa0                　')
def is_alpha(c): return c.isalpha()  # approximation of Rust is_alphabetic for the alphabet used
def is_alnum(c): return c.isalpha() or unicodedata.category(c) in ('Nd','Nl','No')
CAN_END={'type','id','int','lit','bool','true','false',')','}',';'}   # '}' as gram does
CAN_START={'type','id','int','lit','bool','true','false','(','{','if',';'}
def rtok(s):
    b=lambda i: len(s[:i].encode())
    toks=[]; errs=0; i=0; n=len(s); pending_lb=False
    raw=[]  # (kind,text,start,end) plus 'NL' markers
    while i<n:
        c=s[i]
        if c=='\n': raw.append(('NL','\n',b(i),b(i)+1)); i+=1; continue
        if is_ws(c): i+=1; continue
        if c=='#':
            while i<n and s[i]!='\n': i+=1
            continue
        two=s[i:i+2]
        if two in SYM2: raw.append((two,two,b(i),b(i+2))); i+=2; continue
        if c in SYM1: raw.append((c,c,b(i),b(i+1))); i+=1; continue
        if is_alpha(c) or c=='_':
            j=i+1
            while j<n and (is_alnum(s[j]) or s[j]=='_'): j+=1
            w=s[i:j]; raw.append((w if w in KW else 'id',w,b(i),b(j))); i=j; continue
        if c in '0123456789':
            j=i+1
            while j<n and s[j] in '0123456789': j+=1
            raw.append(('lit',s[i:j],b(i),b(j))); i=j; continue
        errs+=1; i+=1
    if errs: return ('ERR',errs)
    out=[]; prev=None; nl=None
    for t in raw:
        if t[0]=='NL':
            if nl is None: nl=t
            continue
        if prev is not None and nl is not None and prev[0] in CAN_END and t[0] in CAN_START:
            out.append(('LB','\n',nl[2],nl[3]))
        out.append(t); prev=t; nl=None
    return ('OK',out)
def fmt(t):
    k,tx,a,e=t
    if k=='id': k='id:'+tx
    elif k=='lit': k='lit:'+str(int(tx))
    elif k==';': k='SC'
    return f"{k}@{a}-{e}"
alphabet=['a','i','f','é','\U0001d465','0','9','_','*',':','(',')','{','}','+','/',';','-','<','=','>','#','\n',' ','\t','\r','\xa0','　','$','€','́','٣']
L=int(sys.argv[1]); exe=sys.argv[2]
strings=[]
for l in range(0,L+1):
    for tup in itertools.product(alphabet,repeat=l): strings.append(''.join(tup))
inp='\n'.join(x.encode().hex() for x in strings)+'\n'
p=subprocess.run([exe,'tok'],input=inp,capture_output=True,text=True)
bad=0; n=0; cats={}
for x,line in zip(strings,p.stdout.splitlines()):
    hx,st,rest=(line.split('\t')+[''])[:3]
    n+=1
    r=rtok(x)
    if r[0]=='ERR':
        ok = (st=='ERR')   # count not compared (cluster continuation may add reports)
        got=line
        exp='ERR'
    else:
        exp=' '.join(fmt(t) for t in r[1]); ok=(st=='OK' and rest==exp)
    if not ok:
        bad+=1
        key=('comment' if '#' in x else 'other')
        cats[key]=cats.get(key,0)+1
        if cats[key]<=8: print(repr(x),'| gram:',st,rest,'| ref:',exp)
print('strings',n,'mismatches',bad,cats)
