#!/bin/sh
# Offline build of the harness and of the gram binary (both from /repo's working tree).
set -eu
cd "$(dirname "$0")"
export GRAM_REPO=${GRAM_REPO:-/repo}
export CARGO_NET_OFFLINE=true
CACHE=${GV_CACHE:-$(pwd)/.cache}
mkdir -p "$CACHE" evidence replays
( cd harness && CARGO_TARGET_DIR="$CACHE/harness-target" cargo build --release --offline )
( cd "$GRAM_REPO" && CARGO_TARGET_DIR="$CACHE/gram-target" cargo build --release --offline )
echo "setup ok"
