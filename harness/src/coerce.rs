// G-coerce: programs that pass a value from one type to a *near-miss* of that type.
//
//   [families]; v : TA = VAL; r : TB = v; <use of r>         (or through `co : TA -> TB`, or under
//   a parameter n: `co : (n : int) -> TA -> TB = (n : int) => (x : TA) => x; co LIT VAL`)
//
// TA is a type expression with type-level computation in it (conditionals on closed or stuck
// comparisons and arithmetic, boundary-equal operands favoured; redexes; groups of aliases; calls of
// type families defined in the program, constant ones included) built so that it denotes the
// ground type of VAL; TB is TA after one or two scope-aware edits (another operator of the same
// class, a neighbouring literal, swapped branches, mirrored comparison, a definition added to or
// put around a group, an applied binder ...). Whether TB is still convertible with TA is for the
// reference checker to say (it judges the whole program): if so gram must accept the program, if
// not gram must reject it - and a checker that lets it through hands the evaluator a value that
// does not inhabit the reported type. Nothing here decides a verdict.
use crate::eterm::Op;
use crate::hast::{H, hb};
use crate::util::Rng;

pub struct Coercion {
    pub h: H,
    pub shape: &'static str,
}

struct G<'a> {
    r: &'a mut Rng,
    n: Option<(String, i64)>,    // an integer parameter in scope and the value it will be instantiated with
    fams: Vec<(String, u8, i64)>, // int-indexed families in scope: name, comparison code, constant
    consts: Vec<(String, bool)>, // constant families (ignore their argument): name, is_int
    fresh: usize,
}

const CMP: [Op; 5] = [Op::Lt, Op::Le, Op::Eq, Op::Gt, Op::Ge];

fn holds(op: Op, a: i64, b: i64) -> bool {
    match op {
        Op::Lt => a < b,
        Op::Le => a <= b,
        Op::Eq => a == b,
        Op::Gt => a > b,
        _ => a >= b,
    }
}

fn lit(v: i64) -> H {
    if v < 0 { H::Paren(hb(H::Neg(hb(H::lit(-v))))) } else { H::lit(v) }
}

impl G<'_> {
    fn name(&mut self, hint: &str) -> String {
        self.fresh += 1;
        format!("{hint}{}", self.fresh)
    }

    // an integer expression with the given value (under n := its instantiation)
    fn int(&mut self, v: i64, depth: usize) -> H {
        if let Some((n, nv)) = self.n.clone() {
            if self.r.chance(1, 3) {
                // n + (v - nv), n - (nv - v), or n itself
                let d = v - nv;
                return if d == 0 && self.r.chance(1, 2) {
                    H::Var(n)
                } else if d >= 0 {
                    H::Bin(Op::Add, hb(H::Var(n)), hb(lit(d)))
                } else {
                    H::Bin(Op::Sub, hb(H::Var(n)), hb(lit(-d)))
                };
            }
        }
        if depth == 0 || self.r.chance(1, 2) {
            return lit(v);
        }
        match self.r.below(5) {
            0 => {
                let a = self.r.range(-3, 6);
                let (x, y) = (self.int(a, depth - 1), self.int(v - a, depth - 1));
                H::Bin(Op::Add, hb(x), hb(H::Paren(hb(y))))
            }
            1 => {
                let a = self.r.range(-3, 6);
                let (x, y) = (self.int(v + a, depth - 1), self.int(a, depth - 1));
                H::Bin(Op::Sub, hb(x), hb(H::Paren(hb(y))))
            }
            2 => {
                let (x, y) = (self.int(v, depth - 1), self.int(1, depth - 1));
                H::Bin(Op::Mul, hb(H::Paren(hb(x))), hb(H::Paren(hb(y))))
            }
            3 => {
                // (v * k + rem) / k with 0 <= rem < k, for v >= 0 (truncation toward zero)
                let k = 1 + self.r.below(4) as i64;
                let rem = if v >= 0 { self.r.below(k as u64) as i64 } else { -(self.r.below(k as u64) as i64) };
                let x = self.int(v * k + rem, depth - 1);
                H::Bin(Op::Div, hb(H::Paren(hb(x))), hb(lit(k)))
            }
            _ => H::If(hb(self.cond(true, depth - 1)), hb(lit(v)), hb(lit(v + 1))),
        }
    }

    fn closed_int(&mut self, v: i64, depth: usize) -> H {
        let saved = self.n.take();
        let h = self.int(v, depth);
        self.n = saved;
        h
    }

    // a boolean expression with the given truth value; boundary-equal operands favoured
    fn cond(&mut self, truth: bool, depth: usize) -> H {
        if self.r.chance(1, 6) {
            return if truth { H::True } else { H::False };
        }
        if let Some((n, nv)) = self.n.clone() {
            // the parameter itself against a constant at or next to the value it will take (the
            // comparison is stuck where the two types meet and decided once n is instantiated)
            if self.r.chance(1, 2) {
                for _ in 0..40 {
                    let op = CMP[self.r.usize(5)];
                    let k = nv + [0, 0, 0, -1, 1][self.r.usize(5)];
                    let flip = self.r.chance(1, 3);
                    let (a, b) = if flip { (k, nv) } else { (nv, k) };
                    if holds(op, a, b) == truth {
                        let kk = if depth > 0 && self.r.chance(1, 3) { self.closed_int(k, 1) } else { lit(k) };
                        return if flip { H::Bin(op, hb(kk), hb(H::Var(n))) } else { H::Bin(op, hb(H::Var(n)), hb(kk)) };
                    }
                }
            }
        }
        for _ in 0..40 {
            let op = CMP[self.r.usize(5)];
            let a = self.r.range(-2, 5);
            let b = if self.r.chance(1, 2) { a } else { a + self.r.range(-1, 1) };
            if holds(op, a, b) == truth {
                let (x, y) = (self.int(a, depth), self.int(b, depth));
                return H::Bin(op, hb(x), hb(y));
            }
        }
        if truth { H::True } else { H::False }
    }

    fn ground(is_int: bool) -> H {
        if is_int { H::Int } else { H::Bool }
    }

    // a type expression denoting int (is_int) or bool
    fn ty(&mut self, is_int: bool, depth: usize) -> H {
        if depth == 0 {
            return Self::ground(is_int);
        }
        let d = depth - 1;
        match self.r.below(9) {
            0 => Self::ground(is_int),
            1 | 2 => {
                // conditional: the chosen branch denotes the target, the other one usually not
                let truth = self.r.chance(1, 2);
                let c = self.cond(truth, d.min(1));
                let other_is_int = if self.r.chance(3, 4) { !is_int } else { is_int };
                let (chosen, other) = (self.ty(is_int, d), self.ty(other_is_int, d.min(1)));
                if truth { H::If(hb(c), hb(chosen), hb(other)) } else { H::If(hb(c), hb(other), hb(chosen)) }
            }
            3 => {
                // type-level redex
                let t = self.name("t");
                let x = self.ty(is_int, d);
                H::App(hb(H::Paren(hb(H::Lam(t.clone(), false, Some(hb(H::Type)), hb(H::Var(t)))))), hb(H::Paren(hb(x))))
            }
            4 => {
                // a function of an integer deciding the type, applied
                let m = self.name("m");
                let op = CMP[self.r.usize(5)];
                let k = self.r.range(-1, 4);
                let arg = if self.r.chance(1, 2) { k } else { k + self.r.range(-1, 1) };
                let truth = holds(op, arg, k);
                let (x, y) = (Self::ground(is_int == truth), Self::ground(is_int != truth));
                let f = H::Lam(m.clone(), false, Some(hb(H::Int)), hb(H::If(hb(H::Bin(op, hb(H::Var(m)), hb(lit(k)))), hb(x), hb(y))));
                let a = self.int(arg, d.min(1));
                H::App(hb(H::Paren(hb(f))), hb(H::Paren(hb(a))))
            }
            5 | 6 => {
                // a group of aliases: 1-3 definitions, the body is one of them; the others denote
                // the same or the other ground type
                let n = 1 + self.r.usize(3);
                let names: Vec<String> = (0..n).map(|_| self.name("a")).collect();
                let target = self.r.usize(n);
                let mut defs = vec![];
                for i in 0..n {
                    let def = if i == target {
                        self.ty(is_int, d)
                    } else if i < target && self.r.chance(1, 3) {
                        // an alias of a later alias (a value definition may be mentioned early)
                        H::Var(names[target].clone())
                    } else {
                        let other = if self.r.chance(2, 3) { !is_int } else { is_int };
                        self.ty(other, d.min(1))
                    };
                    defs.push((names[i].clone(), def));
                }
                // the body: the target itself or an earlier alias of it
                let body_name = defs.iter().position(|(_, dd)| matches!(dd, H::Var(x) if *x == names[target])).filter(|_| self.r.chance(1, 2)).map_or(names[target].clone(), |i| names[i].clone());
                let mut h = H::Var(body_name);
                for (nm, def) in defs.into_iter().rev() {
                    h = H::Let(nm, Some(hb(H::Type)), hb(def), hb(h));
                }
                H::Paren(hb(h))
            }
            7 if !self.fams.is_empty() => {
                let (f, op, k) = self.fams[self.r.usize(self.fams.len())].clone();
                let op = CMP[op as usize % 5];
                // an argument on the right side of the boundary, close to it
                for _ in 0..30 {
                    let a = k + self.r.range(-1, 1);
                    if holds(op, a, k) == is_int {
                        let e = self.int(a, d.min(2));
                        return H::App(hb(H::Var(f)), hb(H::Paren(hb(e))));
                    }
                }
                Self::ground(is_int)
            }
            8 if self.consts.iter().any(|c| c.1 == is_int) => {
                let c: Vec<String> = self.consts.iter().filter(|c| c.1 == is_int).map(|c| c.0.clone()).collect();
                let f = c[self.r.usize(c.len())].clone();
                let a = self.r.range(-2, 5);
                let e = self.int(a, d.min(2));
                H::App(hb(H::Var(f)), hb(H::Paren(hb(e))))
            }
            _ => Self::ground(is_int),
        }
    }
}

// `wrap_other`: use the result where the *other* ground type is required (so that a wrongly
// accepted coercion gets stuck at run time instead of ending as a value)
pub fn gen_coercion(r: &mut Rng, wrap_other: bool) -> Coercion {
    let is_int = r.chance(1, 2);
    let open = r.chance(1, 2);
    let nval = r.range(-1, 4);
    let mut g = G { r, n: None, fams: vec![], consts: vec![], fresh: 0 };
    // families defined in front of everything else
    let mut defs: Vec<(String, H, H)> = vec![];
    for _ in 0..g.r.usize(3) {
        let f = g.name("fam");
        let m = g.name("i");
        if g.r.chance(1, 3) {
            let c_int = g.r.chance(1, 2);
            defs.push((f.clone(), H::Pi("_".into(), false, hb(H::Int), hb(H::Type)), H::Lam(m, false, Some(hb(H::Int)), hb(G::ground(c_int)))));
            g.consts.push((f, c_int));
        } else {
            let (op, k) = (g.r.below(5) as u8, g.r.range(-1, 3));
            let body = H::If(hb(H::Bin(CMP[op as usize], hb(H::Var(m.clone())), hb(lit(k)))), hb(H::Int), hb(H::Bool));
            defs.push((f.clone(), H::Pi("_".into(), false, hb(H::Int), hb(H::Type)), H::Lam(m, false, Some(hb(H::Int)), hb(body))));
            g.fams.push((f, op, k));
        }
    }
    if open {
        g.n = Some(("n".into(), nval));
    }
    let depth = 1 + g.r.usize(3);
    let ta = g.ty(is_int, depth);
    // TB: TA after one or two edits (sometimes none: the identity coercion through a copy)
    let mut tb = ta.clone();
    let edits = [1, 1, 1, 2, 2, 0][g.r.usize(6)];
    const TYPE_EDITS: [&str; 20] = [
        "operator-swap", "operator-swap", "operator-swap", "operator-swap", "literal-nudge", "literal-nudge", "literal-nudge", "comparison-mirrored", "comparison-mirrored", "branch-swap", "branch-swap",
        "variable-for-variable", "variable-for-variable", "ground-type-swap", "group-insert-definition", "group-append-and-retarget", "group-append-and-retarget", "interpose-definition", "interpose-binder", "variable-for-atom",
    ];
    for _ in 0..edits {
        for _ in 0..4 {
            let kind = TYPE_EDITS[g.r.usize(TYPE_EDITS.len())];
            if let Some(x) = crate::edit::edit_with_kind(&tb, g.r, kind) {
                tb = x;
                break;
            }
        }
    }
    let val = if is_int { lit(g.r.range(-3, 40)) } else if g.r.chance(1, 2) { H::True } else { H::False };
    let r_ = g.r;
    let (shape, core): (&'static str, Vec<(String, H, H)>) = match (open, r_.below(2)) {
        (false, 0) => ("closed:definition-to-definition", vec![("v".into(), ta, val), ("r".into(), tb, H::var("v"))]),
        (false, _) => {
            let f = H::Lam("x".into(), false, Some(hb(ta.clone())), hb(H::var("x")));
            ("closed:through-a-function", vec![("co".into(), H::Pi("_".into(), false, hb(ta), hb(tb.clone())), f), ("r".into(), tb, H::App(hb(H::var("co")), hb(val)))])
        }
        (true, _) => {
            let f = H::Lam("n".into(), false, Some(hb(H::Int)), hb(H::Lam("x".into(), false, Some(hb(ta.clone())), hb(H::var("x")))));
            let fty = H::Pi("n".into(), false, hb(H::Int), hb(H::Pi("_".into(), false, hb(ta), hb(tb.clone()))));
            // the result is annotated with the codomain instantiated by a type-level redex
            let rty = H::App(hb(H::Paren(hb(H::Lam("n".into(), false, Some(hb(H::Int)), hb(tb))))), hb(lit(nval)));
            ("open:under-an-integer-parameter", vec![("co".into(), fty, f), ("r".into(), rty, H::App(hb(H::App(hb(H::var("co")), hb(lit(nval)))), hb(val)))])
        }
    };
    defs.extend(core);
    let use_r = match (wrap_other, is_int) {
        (false, _) => H::var("r"),
        (true, true) => H::If(hb(H::var("r")), hb(H::lit(1)), hb(H::lit(2))),
        (true, false) => H::Bin(Op::Add, hb(H::var("r")), hb(H::lit(1))),
    };
    let mut h = use_r;
    for (nm, ann, def) in defs.into_iter().rev() {
        h = H::Let(nm, Some(hb(ann)), hb(def), hb(h));
    }
    Coercion { h, shape }
}

// Polymorphic coercions: a function over 2-3 type parameters with groups of aliases between and
// below its binders,
//
//   co : ((w : type) -> (v : type) -> D1 -> D2 -> C)
//      = (w : type) => (a1 : type = w; (v : type) => (a2 : type = v; a3 : type = a1; (z1 : a3) => (z2 : a2) => z1))
//   r : <C instantiated> = co int bool 3 true; <r used at its annotated type>
//
// The function's parameters are typed through the aliases (chains, decoys, aliases of ground
// types), so the type the checker rebuilds for each group mentions the group's members and the
// enclosing binders at several distances. The annotation is written with the type parameters
// directly; in about half of the cases one occurrence names another parameter (a near miss that
// only a confusion between the enclosing variables can accept). The verdict is the reference's.
pub fn gen_poly_coercion(r: &mut Rng) -> Coercion {
    #[derive(Clone, PartialEq)]
    enum D {
        P(usize), // type parameter
        G(bool),  // ground: int / bool
    }
    let k = 2 + r.usize(2);
    let pnames = ["w", "v", "u"];
    // instantiations: the first two differ
    let first_int = r.chance(1, 2);
    let inst: Vec<bool> = (0..k).map(|i| if i == 0 { first_int } else if i == 1 { !first_int } else { r.chance(1, 2) }).collect();
    // frames: type parameters with alias groups after some of them
    let mut aliases: Vec<(String, D)> = vec![]; // every alias so far and what it denotes
    let mut frames: Vec<(usize, Vec<(String, H)>)> = vec![]; // (parameter index, group after it)
    let mut fresh = 0;
    for p in 0..k {
        let mut group = vec![];
        if p + 1 == k || r.chance(1, 2) {
            for _ in 0..1 + r.usize(3) {
                fresh += 1;
                let name = format!("a{fresh}");
                let (def, den) = match r.below(5) {
                    0 | 1 => {
                        let q = r.usize(p + 1);
                        (H::var(pnames[q]), D::P(q))
                    }
                    2 if !aliases.is_empty() => {
                        let (n, d) = aliases[r.usize(aliases.len())].clone();
                        (H::Var(n), d)
                    }
                    3 => {
                        let b = r.chance(1, 2);
                        (G::ground(b), D::G(b))
                    }
                    _ => (H::var(pnames[p]), D::P(p)),
                };
                group.push((name.clone(), def));
                aliases.push((name, den));
            }
        }
        frames.push((p, group));
    }
    // value parameters typed by aliases (or by a type parameter directly)
    let m = 1 + r.usize(2);
    let mut zs: Vec<(String, H, D)> = vec![];
    for i in 0..m {
        let (th, den) = if !aliases.is_empty() && r.chance(4, 5) {
            let (n, d) = aliases[r.usize(aliases.len())].clone();
            (H::Var(n), d)
        } else {
            let q = r.usize(k);
            (H::var(pnames[q]), D::P(q))
        };
        zs.push((format!("z{}", i + 1), th, den));
    }
    let ret = r.usize(m);
    // the function, inside out
    let mut body = H::var(&zs[ret].0);
    for (zn, th, _) in zs.iter().rev() {
        body = H::Lam(zn.clone(), false, Some(hb(th.clone())), hb(body));
    }
    // sometimes the function is itself a member of the innermost group
    let fn_as_member = r.chance(1, 3) && !frames[k - 1].1.is_empty();
    let den_h = |d: &D| match d {
        D::P(q) => H::var(pnames[*q]),
        D::G(b) => G::ground(*b),
    };
    for (fi, (p, group)) in frames.iter().enumerate().rev() {
        let mut inner = body;
        if fi + 1 == k && fn_as_member {
            let mut fty = H::Var(match &zs[ret].1 {
                H::Var(n) => n.clone(),
                _ => "w".into(),
            });
            for (_, th, _) in zs.iter().rev() {
                fty = H::Pi("_".into(), false, hb(th.clone()), hb(fty));
            }
            inner = H::Let("fn".into(), Some(hb(fty)), hb(inner), hb(H::var("fn")));
        }
        for (an, def) in group.iter().rev() {
            inner = H::Let(an.clone(), Some(hb(H::Type)), hb(def.clone()), hb(inner));
        }
        if !group.is_empty() {
            inner = H::Paren(hb(inner));
        }
        body = H::Lam(pnames[*p].to_owned(), false, Some(hb(H::Type)), hb(inner));
    }
    // the annotation, with the parameters written directly; a near miss in half of the cases
    let mut dens: Vec<D> = zs.iter().map(|z| z.2.clone()).collect();
    dens.push(zs[ret].2.clone());
    if r.chance(1, 2) {
        let at = r.usize(dens.len());
        dens[at] = match &dens[at] {
            D::P(q) => D::P((q + 1 + r.usize(k - 1)) % k),
            D::G(b) => {
                if r.chance(1, 2) {
                    D::G(!b)
                } else {
                    D::P(r.usize(k))
                }
            }
        };
    }
    let mut ann = den_h(&dens[m]);
    for d in dens[..m].iter().rev() {
        ann = H::Pi("_".into(), false, hb(den_h(d)), hb(ann));
    }
    for p in (0..k).rev() {
        ann = H::Pi(pnames[p].to_owned(), false, hb(H::Type), hb(ann));
    }
    // the call: values of the types the *annotation* promises
    let ground_of = |d: &D| match d {
        D::P(q) => inst[*q],
        D::G(b) => *b,
    };
    let mut call = H::var("co");
    for p in 0..k {
        call = H::App(hb(call), hb(G::ground(inst[p])));
    }
    for d in &dens[..m] {
        let v = if ground_of(d) { lit(r.range(0, 40)) } else if r.chance(1, 2) { H::True } else { H::False };
        call = H::App(hb(call), hb(v));
    }
    let res_int = ground_of(&dens[m]);
    let use_r = match r.below(3) {
        0 => H::var("r"),
        _ if res_int => H::Bin(Op::Add, hb(H::var("r")), hb(H::lit(1))),
        _ => H::If(hb(H::var("r")), hb(H::lit(1)), hb(H::lit(2))),
    };
    let h = H::Let("co".into(), Some(hb(ann)), hb(body), hb(H::Let("r".into(), Some(hb(G::ground(res_int))), hb(call), hb(use_r))));
    Coercion { h, shape: "polymorphic:aliases-between-binders" }
}

// Sort confusion: a context of 3-7 frames - type parameters, parameters of abstract, aliased or
// ground type, aliases of the universe (`k : type = type`), aliases of types typed by `type` or by
// such a kind alias, values typed through aliases - and then a function type, a function or a
// definition whose domain / codomain / annotation is a *variable* of that context. Whether the
// variable stands for a type depends on the type of its type, two steps away in the context, and
// on which neighbouring entry is a definition; the reference says which programs are well sorted.
pub fn gen_sort_confusion(r: &mut Rng) -> Coercion {
    #[derive(Clone, Copy, PartialEq)]
    enum S {
        Kind,  // denotes the universe
        Type,  // denotes a type
        Value, // denotes a value
    }
    let nframes = 3 + r.usize(5);
    let mut scope: Vec<(String, S)> = vec![];
    let mut frames: Vec<(String, bool, H, Option<H>)> = vec![]; // name, is_param, type, definition
    let pick = |r: &mut Rng, scope: &Vec<(String, S)>, s: S| -> Option<H> {
        let c: Vec<&(String, S)> = scope.iter().filter(|x| x.1 == s).collect();
        if c.is_empty() { None } else { Some(H::Var(c[r.usize(c.len())].0.clone())) }
    };
    for i in 0..nframes {
        let name = format!("{}{}", ["a", "b", "c", "k", "j", "n", "y"][r.usize(7)], i);
        let kind_h = if r.chance(1, 3) { pick(r, &scope, S::Kind).unwrap_or(H::Type) } else { H::Type };
        let type_h = |r: &mut Rng, scope: &Vec<(String, S)>| -> H {
            if r.chance(2, 3) {
                if let Some(t) = pick(r, scope, S::Type) {
                    return t;
                }
            }
            if r.chance(1, 2) { H::Int } else { H::Bool }
        };
        let (is_param, ty, def, sort) = match r.below(8) {
            0 | 1 => (true, kind_h, None, S::Type),
            2 => {
                let t = type_h(r, &scope);
                (true, t, None, S::Value)
            }
            3 => (false, kind_h, Some(H::Type), S::Kind),
            4 | 5 => {
                let t = type_h(r, &scope);
                (false, kind_h, Some(t), S::Type)
            }
            _ => {
                // a value typed by a ground type or through an alias of one
                let b = r.chance(1, 2);
                let v = if b { H::lit(r.below(9) as i64) } else { H::True };
                // annotated with the ground type itself or with some alias (which may denote
                // another type: then the program is ill typed and must be rejected)
                let t = if r.chance(1, 2) { G::ground(b) } else { type_h(r, &scope) };
                (false, t, Some(v), S::Value)
            }
        };
        frames.push((name.clone(), is_param, ty, def));
        scope.push((name, sort));
    }
    // the final expression: variables of the context in type positions
    let any = |r: &mut Rng, scope: &Vec<(String, S)>| -> H {
        match r.below(6) {
            0 => H::Int,
            1 => H::Type,
            _ => H::Var(scope[r.usize(scope.len())].0.clone()),
        }
    };
    let (v1, v2) = (any(r, &scope), any(r, &scope));
    let last = match r.below(4) {
        0 | 1 => H::Pi(if r.chance(1, 2) { "x".into() } else { "_".into() }, false, hb(v1), hb(v2)),
        2 => H::Lam("x".into(), false, Some(hb(v1)), hb(if r.chance(1, 2) { H::var("x") } else { v2 })),
        _ => H::Paren(hb(H::Let("d".into(), Some(hb(v1)), hb(v2), hb(H::var("d"))))),
    };
    let mut h = last;
    for (name, is_param, ty, def) in frames.into_iter().rev() {
        h = if is_param { H::Lam(name, false, Some(hb(ty)), hb(h)) } else { H::Let(name, Some(hb(ty)), hb(def.unwrap()), hb(h)) };
    }
    Coercion { h, shape: "sort-confusion:variables-in-type-positions" }
}

// The mix used by the sections of C01, C03, C04, C05.
pub fn gen_any(r: &mut Rng, wrap_other: bool) -> Coercion {
    match r.below(8) {
        0 | 1 => gen_poly_coercion(r),
        2 => gen_sort_confusion(r),
        _ => gen_coercion(r, wrap_other),
    }
}
