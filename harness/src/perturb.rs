// G-perturb: single-point perturbations of a source program, aimed at the side conditions of
// the typing rules. The verdict on the perturbed program always comes from R-core, never from
// the perturbation kind.
use crate::eterm::Op;
use crate::hast::{H, hb};
use crate::props::c08::map_h;
use crate::util::Rng;

pub const KINDS: [&str; 20] = [
    "decoy-trap",
    "swap-operands-of-operator",
    "change-type-argument",
    "reference-group-definition",
    "literal-kind",
    "drop-argument",
    "duplicate-argument",
    "replace-branch",
    "replace-condition",
    "replace-operand",
    "apply-non-function",
    "change-domain",
    "change-annotation",
    "non-type-domain",
    "flip-implicit",
    "swap-operands-of-application",
    "wrap-in-negation",
    "replace-definition",
    "comparison-for-arithmetic",
    "replace-body",
];

// A value of the wrong ground type whose annotation goes through aliases of its own group, with
// unused aliases of the expected type placed among them: rejected by a checker that keeps the
// members of a group apart.
fn decoy_trap(expected_int: bool, r: &mut Rng) -> H {
    let (wrong_value, other, expected) = if expected_int { (if r.chance(1, 2) { H::True } else { H::False }, H::Bool, H::Int) } else { (H::lit(r.below(9) as i64), H::Int, H::Bool) };
    // fully annotated: a perturbed explicit program stays explicit
    let ty = |_: &mut Rng| Some(hb(H::Type));
    let mut defs: Vec<(String, Option<Box<H>>, H)> = vec![("trapv".into(), Some(hb(H::var("trapt0"))), wrong_value)];
    if r.chance(1, 2) {
        defs.push(("trapt0".into(), ty(r), H::var("trapt1")));
        defs.push(("trapt1".into(), ty(r), other));
    } else {
        defs.push(("trapt1".into(), ty(r), other));
        defs.push(("trapt0".into(), ty(r), H::var("trapt1")));
    }
    for i in 0..1 + r.usize(2) {
        let at = r.usize(defs.len() + 1);
        defs.insert(at, (format!("trapd{i}"), ty(r), expected.clone()));
    }
    let mut h = H::var("trapv");
    for (n, a, d) in defs.into_iter().rev() {
        h = H::Let(n, a, hb(d), hb(h));
    }
    H::Paren(hb(h))
}

fn count_nodes(h: &H) -> usize {
    let mut n = 0;
    crate::props::c08::walk(h, &mut |_| n += 1);
    n
}

fn wrong(r: &mut Rng) -> H {
    match r.below(6) {
        0 => H::True,
        1 => H::lit(7),
        2 => H::Type,
        3 => H::Int,
        4 => H::Lam("w".into(), false, Some(hb(H::Int)), hb(H::var("w"))),
        _ => H::Bool,
    }
}

// Apply one perturbation at a random node where it is applicable. Returns the kind used.
// Replace an integer literal inside a definition of a group by a variable naming a definition of
// the same (flattened) group: aimed at the definition-order check (self and forward references,
// directly or through a function of the group).
fn reference_group_definition(h: &H, r: &mut Rng) -> Option<H> {
    // collect groups: (names of the flattened group)
    let mut groups: Vec<Vec<String>> = vec![];
    crate::props::c08::walk(h, &mut |x| {
        if let H::Let(..) = x {
            let mut names = vec![];
            let mut cur = x;
            while let H::Let(n, _, _, b) = cur.strip() {
                names.push(n.clone());
                cur = b;
            }
            groups.push(names);
        }
    });
    if groups.is_empty() {
        return None;
    }
    let names = groups[r.usize(groups.len())].clone();
    let target_def = names[r.usize(names.len())].clone();
    let replacement = names[r.usize(names.len())].clone();
    // rewrite the first literal found inside the definition of `target_def`
    let mut done = false;
    fn go(h: &H, target_def: &str, replacement: &str, inside: bool, done: &mut bool) -> H {
        if *done {
            return h.clone();
        }
        match h {
            H::Lit(_) if inside => {
                *done = true;
                H::var(replacement)
            }
            H::Let(n, a, d, b) => {
                let d2 = go(d, target_def, replacement, inside || n == target_def, done);
                let b2 = go(b, target_def, replacement, inside, done);
                H::Let(n.clone(), a.clone(), hb(d2), hb(b2))
            }
            H::Lam(n, i, d, b) => H::Lam(n.clone(), *i, d.clone(), hb(go(b, target_def, replacement, inside, done))),
            H::App(a, b) => {
                let a2 = go(a, target_def, replacement, inside, done);
                let b2 = go(b, target_def, replacement, inside, done);
                H::App(hb(a2), hb(b2))
            }
            H::Bin(op, a, b) => {
                let a2 = go(a, target_def, replacement, inside, done);
                let b2 = go(b, target_def, replacement, inside, done);
                H::Bin(*op, hb(a2), hb(b2))
            }
            H::Neg(a) => H::Neg(hb(go(a, target_def, replacement, inside, done))),
            H::Paren(a) => H::Paren(hb(go(a, target_def, replacement, inside, done))),
            H::If(a, b, c) => {
                let a2 = go(a, target_def, replacement, inside, done);
                let b2 = go(b, target_def, replacement, inside, done);
                let c2 = go(c, target_def, replacement, inside, done);
                H::If(hb(a2), hb(b2), hb(c2))
            }
            other => other.clone(),
        }
    }
    let out = go(h, &target_def, &replacement, false, &mut done);
    if done { Some(out) } else { None }
}

// The clamped recursive functions the generator plants inside types (`trec…`): a perturbation
// inside one of them makes the *checker* diverge, which tells nothing and costs a watchdog period.
pub fn type_level_recursions(h: &H) -> Vec<H> {
    let mut v = vec![];
    crate::props::c08::walk(h, &mut |x| {
        if let H::Let(n, _, d, _) = x {
            if n.starts_with("trec") {
                v.push((**d).clone());
            }
        }
    });
    v
}

// A perturbation or (two times in five) a scope-aware edit, see edit.rs.
pub fn perturb_or_edit(h: &H, r: &mut Rng) -> Option<(H, &'static str)> {
    if r.chance(2, 5) {
        if let Some(x) = crate::edit::edits(h, r) {
            return Some(x);
        }
    }
    perturb(h, r)
}

pub fn perturb(h: &H, r: &mut Rng) -> Option<(H, &'static str)> {
    perturb_at(h, r).map(|(m, k, _)| (m, k))
}

// As `perturb`, also returning the pre-order index (Paren nodes counted) of the node that was
// replaced; usize::MAX for the kind that rewrites a literal found by its own search.
pub fn perturb_at(h: &H, r: &mut Rng) -> Option<(H, &'static str, usize)> {
    let protected = type_level_recursions(h);
    if r.chance(1, 8) {
        if let Some(x) = reference_group_definition(h, r) {
            return Some((x, "reference-group-definition", usize::MAX));
        }
    }
    let n = count_nodes(h);
    for _ in 0..40 {
        let target = r.usize(n);
        let kind = KINDS[r.usize(KINDS.len())];
        let mut k = 0usize;
        let mut done = false;
        let w = wrong(r);
        let coin = r.chance(1, 2);
        let (trap_int, trap_bool) = if kind == "decoy-trap" { (decoy_trap(true, r), decoy_trap(false, r)) } else { (H::Int, H::Int) };
        // names bound as type parameters anywhere in the program
        let mut tparams: Vec<String> = vec![];
        crate::props::c08::walk(h, &mut |x| {
            if let H::Lam(n, _, Some(d), _) | H::Pi(n, _, d, _) = x {
                if matches!(d.strip(), H::Type) && n != "_" && !tparams.contains(n) {
                    tparams.push(n.clone());
                }
            }
        });
        let other_tparam = |me: &str, pick: usize| -> Option<String> {
            let others: Vec<&String> = tparams.iter().filter(|t| t.as_str() != me).collect();
            if others.is_empty() { None } else { Some(others[pick % others.len()].clone()) }
        };
        let pick = r.usize(64);
        let out = map_h(h, &mut |x| {
            let here = k == target;
            k += 1;
            if !here || done {
                return None;
            }
            let res = match (kind, x) {
                ("change-type-argument", H::App(f, a)) => match a.strip() {
                    H::Int => Some(H::App(f.clone(), hb(H::Bool))),
                    H::Bool => Some(H::App(f.clone(), hb(H::Int))),
                    H::Var(v) if tparams.contains(v) => match other_tparam(v, pick) {
                        Some(o) => Some(H::App(f.clone(), hb(H::Var(o)))),
                        None => Some(H::App(f.clone(), hb(H::Int))),
                    },
                    _ => None,
                },
                ("change-type-argument", H::Lam(nm, im, Some(d), b)) => match d.strip() {
                    H::Var(v) if tparams.contains(v) => other_tparam(v, pick).map(|o| H::Lam(nm.clone(), *im, Some(hb(H::Var(o))), b.clone())),
                    _ => None,
                },
                ("swap-operands-of-operator", H::Bin(op, a, b)) if !matches!(op, Op::Add | Op::Mul | Op::Eq) && a != b => Some(H::Bin(*op, b.clone(), a.clone())),
                ("decoy-trap", H::Lit(_)) => Some(trap_int.clone()),
                ("decoy-trap", H::True | H::False) => Some(trap_bool.clone()),
                ("literal-kind", H::Lit(_)) => Some(if coin { H::True } else { H::Type }),
                ("literal-kind", H::True | H::False) => Some(H::lit(3)),
                ("drop-argument", H::App(f, _)) => Some((**f).clone()),
                ("duplicate-argument", H::App(f, a)) => Some(H::App(hb(H::App(f.clone(), a.clone())), a.clone())),
                ("replace-branch", H::If(c, t, e)) => Some(if coin { H::If(c.clone(), hb(w.clone()), e.clone()) } else { H::If(c.clone(), t.clone(), hb(w.clone())) }),
                ("replace-condition", H::If(_, t, e)) => Some(H::If(hb(w.clone()), t.clone(), e.clone())),
                ("replace-operand", H::Bin(op, a, b)) => Some(if coin { H::Bin(*op, hb(w.clone()), b.clone()) } else { H::Bin(*op, a.clone(), hb(w.clone())) }),
                ("replace-operand", H::Neg(_)) => Some(H::Neg(hb(w.clone()))),
                ("apply-non-function", H::App(_, a)) => Some(H::App(hb(H::lit(3)), a.clone())),
                ("apply-non-function", H::Lit(v)) => Some(H::App(hb(H::Lit(v.clone())), hb(H::lit(1)))),
                ("change-domain", H::Lam(nm, im, Some(d), b)) => Some(H::Lam(nm.clone(), *im, Some(hb(if matches!(d.strip(), H::Int) { H::Bool } else { H::Int })), b.clone())),
                ("change-annotation", H::Let(nm, Some(a), d, b)) => Some(H::Let(nm.clone(), Some(hb(if matches!(a.strip(), H::Int) { H::Bool } else { H::Int })), d.clone(), b.clone())),
                ("non-type-domain", H::Lam(nm, im, Some(_), b)) => Some(H::Lam(nm.clone(), *im, Some(hb(if coin { H::lit(3) } else { H::True })), b.clone())),
                ("non-type-domain", H::Pi(nm, im, _, b)) => Some(H::Pi(nm.clone(), *im, hb(H::lit(5)), b.clone())),
                ("non-type-domain", H::Let(nm, Some(_), d, b)) => Some(H::Let(nm.clone(), Some(hb(H::lit(4))), d.clone(), b.clone())),
                ("flip-implicit", H::Lam(nm, im, Some(d), b)) => Some(H::Lam(nm.clone(), !*im, Some(d.clone()), b.clone())),
                ("flip-implicit", H::Pi(nm, im, d, b)) if nm != "_" => Some(H::Pi(nm.clone(), !*im, d.clone(), b.clone())),
                ("swap-operands-of-application", H::App(f, a)) => Some(H::App(a.clone(), f.clone())),
                ("wrap-in-negation", H::True | H::False | H::Lam(..)) => Some(H::Neg(hb(x.clone()))),
                ("replace-definition", H::Let(nm, a, _, b)) => Some(H::Let(nm.clone(), a.clone(), hb(w.clone()), b.clone())),
                ("comparison-for-arithmetic", H::Bin(op, a, b)) if op.is_arith() => Some(H::Bin(Op::Lt, a.clone(), b.clone())),
                ("comparison-for-arithmetic", H::Bin(op, a, b)) if !op.is_arith() => Some(H::Bin(Op::Add, a.clone(), b.clone())),
                ("replace-body", H::Lam(nm, im, d, _)) => Some(H::Lam(nm.clone(), *im, d.clone(), hb(w.clone()))),
                _ => None,
            };
            if res.is_some() {
                done = true;
            }
            res
        });
        if done {
            if !protected.is_empty() && type_level_recursions(&out) != protected {
                continue;
            }
            return Some((out, kind, target));
        }
    }
    None
}
