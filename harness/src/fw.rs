// Framework: plans, worker loop (isolated process, big stack, watchdog), driver (shards, restart
// after worker death, aggregation, known findings, evidence, replay files, verdict lines).
use crate::util::{Json, clip, hash_str};
use std::{
    any::Any,
    cell::RefCell,
    collections::{BTreeMap, HashSet},
    fs,
    io::{BufRead, BufReader, Read, Write},
    os::unix::fs::FileExt,
    panic::{self, AssertUnwindSafe},
    path::{Path, PathBuf},
    process::{Command, Stdio},
    sync::{
        Arc, Mutex,
        atomic::{AtomicU64, Ordering},
    },
    thread,
    time::{Duration, Instant},
};

pub const VERIF_DIR: &str = "/verif";

#[derive(Clone, Copy, Debug, PartialEq, Eq)]
pub enum Tier {
    Quick,
    Thorough,
}

impl Tier {
    pub fn name(self) -> &'static str {
        match self {
            Tier::Quick => "quick",
            Tier::Thorough => "thorough",
        }
    }
    pub fn parse(s: &str) -> Option<Tier> {
        match s {
            "quick" => Some(Tier::Quick),
            "thorough" => Some(Tier::Thorough),
            _ => None,
        }
    }
    pub fn pick<T>(self, q: T, t: T) -> T {
        match self {
            Tier::Quick => q,
            Tier::Thorough => t,
        }
    }
}

pub struct Section {
    pub name: &'static str,
    pub count: u64,
    pub exhaustive: bool,
}

pub fn sec(name: &'static str, count: u64) -> Section {
    Section { name, count, exhaustive: false }
}

pub fn sec_ex(name: &'static str, count: u64) -> Section {
    Section { name, count, exhaustive: true }
}

pub struct Plan {
    pub sections: Vec<Section>,
    pub rule: String,
    pub assumptions: Vec<String>,
    // Floors below which a run is INCONCLUSIVE (a run that observed nothing is not a pass).
    pub floor_evaluations: u64,
    pub floor_nontrivial: u64,
    // Per-case wall-clock watchdog (seconds); firing is inconclusive, never a violation.
    pub case_timeout_s: u64,
    pub max_workers: usize,
    // What a worker death (abort/stack overflow/OOM) at a case means for this property.
    pub death_is_violation: bool,
    // if non-empty, only deaths in these sections are violations
    pub death_sections: Vec<&'static str>,
    // a death while the case had set flag 1 ("the reference accepts this input within its fuel") is a violation
    pub flagged_death_is_violation: bool,
    pub explanation: String,
}

impl Plan {
    pub fn new(sections: Vec<Section>, rule: &str) -> Plan {
        Plan {
            sections,
            rule: rule.to_owned(),
            assumptions: vec![],
            floor_evaluations: 1,
            floor_nontrivial: 2,
            case_timeout_s: 20,
            max_workers: 16,
            death_is_violation: false,
            death_sections: vec![],
            flagged_death_is_violation: false,
            explanation: String::new(),
        }
    }
    pub fn total(&self) -> u64 {
        self.sections.iter().map(|s| s.count).sum()
    }
    pub fn locate(&self, mut g: u64) -> (usize, u64) {
        for (i, s) in self.sections.iter().enumerate() {
            if g < s.count {
                return (i, g);
            }
            g -= s.count;
        }
        (self.sections.len(), g)
    }
}

pub trait Prop: Sync {
    fn id(&self) -> &'static str;
    fn plan(&self, tier: Tier, seed: u64) -> Plan;
    // Run one case. `section` indexes plan.sections; `idx` is the index within the section.
    fn run_case(&self, ctx: &mut Ctx, section: &str, idx: u64);
    // Human-readable description of a case's input without executing gram (for death reports).
    fn describe(&self, _tier: Tier, _seed: u64, _section: &str, _idx: u64) -> String {
        String::new()
    }
}

// ---------------------------------------------------------------------------------------------
// Worker-side context

pub struct Ctx {
    pub tier: Tier,
    pub seed: u64,
    pub prop: &'static str,
    pub section: String,
    pub idx: u64,
    pub known: Vec<Json>, // known-finding entries for this property (open and fixed)
    counts: BTreeMap<String, u64>,
    maxes: BTreeMap<String, u64>,
    samples: Vec<Json>,
    samples_per_section: BTreeMap<String, u32>,
    hashes: Vec<u64>,
    local_seen: HashSet<u64>,
    evals: u64,
    pub violations: u64,
    pub violation_keys: Vec<String>,
    out: Option<Arc<Mutex<std::io::Stdout>>>,
    pub replay_mode: bool,
    pub gram_bin: String,
    pub tmp_dir: String,
    // second word of the progress file: a flag the case sets before a risky call, read by the
    // driver if the worker dies (1 = the reference says the input cannot make gram diverge)
    pub flag_file: Option<fs::File>,
}

impl Ctx {
    pub fn new(prop: &'static str, tier: Tier, seed: u64) -> Ctx {
        Ctx {
            tier,
            seed,
            prop,
            section: String::new(),
            idx: 0,
            known: load_known(prop),
            counts: BTreeMap::new(),
            maxes: BTreeMap::new(),
            samples: vec![],
            samples_per_section: BTreeMap::new(),
            hashes: vec![],
            local_seen: HashSet::new(),
            evals: 0,
            violations: 0,
            violation_keys: vec![],
            out: None,
            replay_mode: false,
            gram_bin: std::env::var("GV_GRAM_BIN").unwrap_or_default(),
            tmp_dir: format!("{VERIF_DIR}/.cache/run/replay.{}", std::process::id()),
            flag_file: None,
        }
    }
    pub fn set_flag(&mut self, v: u64) {
        if let Some(f) = &self.flag_file {
            let _ = f.write_at(&v.to_le_bytes(), 8);
        }
    }
    pub fn count(&mut self, k: &str) {
        *self.counts.entry(k.to_owned()).or_insert(0) += 1;
    }
    pub fn add(&mut self, k: &str, n: u64) {
        *self.counts.entry(k.to_owned()).or_insert(0) += n;
    }
    pub fn max(&mut self, k: &str, v: u64) {
        let e = self.maxes.entry(k.to_owned()).or_insert(0);
        if v > *e {
            *e = v;
        }
    }
    // One evaluation = one input/program/pair pushed through the oracle.
    pub fn eval(&mut self) {
        self.evals += 1;
    }
    pub fn evals_n(&mut self, n: u64) {
        self.evals += n;
    }
    // Record a distinct non-trivial case by content hash.
    pub fn nontrivial(&mut self, h: u64) {
        if self.local_seen.insert(h) {
            self.hashes.push(h);
        }
    }
    pub fn nontrivial_str(&mut self, s: &str) {
        self.nontrivial(hash_str(s));
    }
    pub fn sample(&mut self, j: Json) {
        let n = self.samples_per_section.entry(self.section.clone()).or_insert(0);
        if *n < 2 {
            *n += 1;
            self.samples.push(Json::obj().set("section", Json::s(&self.section)).set("index", Json::Int(self.idx as i64)).set("case", j));
        }
    }
    pub fn inconclusive(&mut self, reason: &str) {
        self.count(&format!("inconclusive:{reason}"));
    }
    pub fn violation(&mut self, key: &str, what: &str, detail: Json) {
        self.violations += 1;
        self.violation_keys.push(key.to_owned());
        let j = Json::obj()
            .set("t", Json::s("V"))
            .set("key", Json::s(key))
            .set("what", Json::s(&clip(what, 600)))
            .set("sec", Json::s(&self.section))
            .set("idx", Json::Int(self.idx as i64))
            .set("detail", detail);
        self.emit(&j);
    }
    fn emit(&self, j: &Json) {
        let line = j.dump();
        if let Some(o) = &self.out {
            let mut g = o.lock().unwrap();
            let _ = writeln!(g, "{line}");
            let _ = g.flush();
        } else {
            println!("{line}");
        }
    }
    fn flush(&mut self, hash_file: Option<&mut fs::File>) {
        let mut c = Json::obj();
        for (k, v) in &self.counts {
            c.put(k, Json::Int(*v as i64));
        }
        let mut m = Json::obj();
        for (k, v) in &self.maxes {
            m.put(k, Json::Int(*v as i64));
        }
        let j = Json::obj()
            .set("t", Json::s("S"))
            .set("c", c)
            .set("m", m)
            .set("ev", Json::Int(self.evals as i64))
            .set("samples", Json::Arr(std::mem::take(&mut self.samples)));
        self.counts.clear();
        self.evals = 0;
        if let Some(f) = hash_file {
            let mut buf = Vec::with_capacity(self.hashes.len() * 8);
            for h in &self.hashes {
                buf.extend_from_slice(&h.to_le_bytes());
            }
            let _ = f.write_all(&buf);
            let _ = f.flush();
            self.hashes.clear();
        }
        self.emit(&j);
    }
    // Known findings for this property.
    pub fn known_witnesses(&self) -> Vec<Json> {
        self.known.clone()
    }
}

pub fn load_known(prop: &str) -> Vec<Json> {
    if std::env::var("GV_NO_KNOWN").is_ok() {
        return vec![];
    }
    let p = format!("{VERIF_DIR}/known_findings.json");
    let Ok(s) = fs::read_to_string(&p) else { return vec![] };
    let Ok(j) = Json::parse(&s) else { return vec![] };
    let mut v = vec![];
    if let Some(a) = j.get("findings").and_then(Json::as_arr) {
        for e in a {
            let applies = e.get("applies_to").and_then(Json::as_arr).is_some_and(|a| a.iter().any(|x| x.as_str() == Some(prop)));
            if e.str_of("property") == prop || applies {
                v.push(e.clone());
            }
        }
    }
    v
}

// ---------------------------------------------------------------------------------------------
// Panic capture

thread_local! {
    static LAST_PANIC: RefCell<Option<String>> = const { RefCell::new(None) };
}

pub fn install_panic_hook() {
    panic::set_hook(Box::new(|info| {
        let loc = info.location().map(|l| format!("{}:{}", l.file(), l.line())).unwrap_or_default();
        let msg = if let Some(s) = info.payload().downcast_ref::<&str>() {
            (*s).to_owned()
        } else if let Some(s) = info.payload().downcast_ref::<String>() {
            s.clone()
        } else {
            "<non-string panic>".to_owned()
        };
        LAST_PANIC.with(|p| *p.borrow_mut() = Some(format!("{msg} @ {loc}")));
    }));
}

// Run gram code, turning a panic into Err(message @ file:line).
pub fn guard<T>(f: impl FnOnce() -> T) -> Result<T, String> {
    match panic::catch_unwind(AssertUnwindSafe(f)) {
        Ok(v) => Ok(v),
        Err(e) => Err(panic_text(&e)),
    }
}

fn panic_text(_e: &Box<dyn Any + Send>) -> String {
    LAST_PANIC.with(|p| p.borrow_mut().take()).unwrap_or_else(|| "<panic>".to_owned())
}

// Strip the path prefix so that keys are stable across GRAM_REPO locations.
pub fn panic_site(msg: &str) -> String {
    let loc = msg.rsplit(" @ ").next().unwrap_or("");
    let file = loc.rsplit('/').next().unwrap_or(loc);
    file.to_owned()
}

// ---------------------------------------------------------------------------------------------
// Worker

const STACK: usize = 2 << 30;

// utime + stime of this process in milliseconds (from /proc/self/stat, 100 Hz ticks).
pub fn process_cpu_ms() -> u64 {
    if let Ok(s) = fs::read_to_string("/proc/self/stat") {
        if let Some(p) = s.rfind(')') {
            let f: Vec<&str> = s[p + 2..].split(' ').collect();
            if f.len() > 13 {
                let u: u64 = f[11].parse().unwrap_or(0);
                let k: u64 = f[12].parse().unwrap_or(0);
                return (u + k) * 10;
            }
        }
    }
    0
}

pub fn worker_main(prop: &'static dyn Prop, tier: Tier, seed: u64, shard: u64, nshards: u64, start: u64, run_dir: &str) -> i32 {
    install_panic_hook();
    colored::control::set_override(false);
    let plan = prop.plan(tier, seed);
    let total = plan.total();
    let progress = fs::OpenOptions::new().create(true).write(true).truncate(false).open(format!("{run_dir}/progress.{shard}")).expect("progress file");
    let mut hash_file = fs::OpenOptions::new().create(true).append(true).open(format!("{run_dir}/hashes.{shard}")).expect("hash file");
    let out = Arc::new(Mutex::new(std::io::stdout()));
    // Watchdog state: (case serial, start millis). The limit is on the CPU time this process has
    // used since the case began (what the machine is doing besides does not count), with a
    // wall-clock backstop of eight times the limit for cases that wait on child processes.
    let case_serial = Arc::new(AtomicU64::new(0));
    let case_started = Arc::new(AtomicU64::new(0));
    let t0 = Instant::now();
    {
        let case_serial = case_serial.clone();
        let case_started = case_started.clone();
        let out = out.clone();
        let limit_ms = plan.case_timeout_s * 1000;
        thread::spawn(move || {
            // CPU time at the first tick that saw the current case (the worker loop itself never
            // pays for reading /proc)
            let (mut seen_serial, mut seen_cpu) = (0u64, 0u64);
            loop {
                thread::sleep(Duration::from_millis(200));
                let s = case_serial.load(Ordering::SeqCst);
                if s == 0 || s == u64::MAX {
                    continue;
                }
                if s != seen_serial {
                    seen_serial = s;
                    seen_cpu = process_cpu_ms();
                    continue;
                }
                let st = case_started.load(Ordering::SeqCst);
                let st_cpu = seen_cpu;
                let now = t0.elapsed().as_millis() as u64;
                let cpu_over = process_cpu_ms().saturating_sub(st_cpu) > limit_ms;
                let wall_over = now.saturating_sub(st) > limit_ms * 8;
                if (cpu_over || wall_over) && case_serial.load(Ordering::SeqCst) == s {
                    let mut g = out.lock().unwrap();
                    let _ = writeln!(g, "{}", Json::obj().set("t", Json::s("T")).dump());
                    let _ = g.flush();
                    std::process::exit(97);
                }
            }
        });
    }
    let out2 = out.clone();
    let tmp_dir = format!("{run_dir}/w{shard}");
    let handle = thread::Builder::new()
        .stack_size(STACK)
        .spawn(move || {
            let mut ctx = Ctx::new(prop.id(), tier, seed);
            ctx.out = Some(out2);
            ctx.tmp_dir = tmp_dir;
            ctx.flag_file = progress.try_clone().ok();
            let mut g = start;
            // Align to this shard.
            while g % nshards != shard {
                g += 1;
            }
            let mut last_flush = Instant::now();
            let mut since = 0u32;
            let mut serial = 1u64;
            while g < total {
                let (si, idx) = plan.locate(g);
                let sname = plan.sections[si].name;
                let mut buf = [0u8; 8];
                buf.copy_from_slice(&g.to_le_bytes());
                let _ = progress.write_at(&buf, 0);
                let _ = progress.write_at(&0u64.to_le_bytes(), 8);
                case_started.store(t0.elapsed().as_millis() as u64, Ordering::SeqCst);
                case_serial.store(serial, Ordering::SeqCst);
                ctx.section.clear();
                ctx.section.push_str(sname);
                ctx.idx = idx;
                let r = panic::catch_unwind(AssertUnwindSafe(|| prop.run_case(&mut ctx, sname, idx)));
                if let Err(e) = r {
                    let msg = panic_text(&e);
                    ctx.count("escaped-panic");
                    ctx.sample(Json::obj().set("escaped_panic", Json::s(&msg)));
                    let j = Json::obj().set("t", Json::s("P")).set("sec", Json::s(sname)).set("idx", Json::Int(idx as i64)).set("msg", Json::s(&clip(&msg, 400)));
                    ctx.emit(&j);
                }
                case_serial.store(u64::MAX, Ordering::SeqCst);
                serial += 1;
                since += 1;
                if since >= 256 && last_flush.elapsed() > Duration::from_millis(700) {
                    ctx.flush(Some(&mut hash_file));
                    last_flush = Instant::now();
                    since = 0;
                }
                g += nshards;
            }
            let _ = progress.write_at(&u64::MAX.to_le_bytes(), 0);
            ctx.flush(Some(&mut hash_file));
            ctx.emit(&Json::obj().set("t", Json::s("D")));
        })
        .expect("spawn worker thread");
    match handle.join() {
        Ok(()) => 0,
        Err(_) => 98,
    }
}

// ---------------------------------------------------------------------------------------------
// Driver

#[derive(Default)]
struct Agg {
    counts: BTreeMap<String, u64>,
    maxes: BTreeMap<String, u64>,
    evals: u64,
    samples: Vec<Json>,
    violations: Vec<Json>,
    escaped: Vec<Json>,
    deaths: Vec<Json>,
    timeouts: Vec<Json>,
}

enum WorkerEnd {
    Done,
    Timeout(u64),
    Died(u64, String),
}

fn run_shard(exe: &Path, prop: &str, tier: Tier, seed: u64, shard: u64, nshards: u64, start: u64, run_dir: &str, agg: &Arc<Mutex<Agg>>) -> WorkerEnd {
    let _ = fs::write(format!("{run_dir}/progress.{shard}"), (u64::MAX - 1).to_le_bytes());
    let mut child = Command::new("sh")
        .arg("-c")
        .arg("ulimit -v 12000000 2>/dev/null; ulimit -c 0 2>/dev/null; exec \"$0\" \"$@\"")
        .arg(exe)
        .args(["worker", prop, tier.name(), &seed.to_string(), &shard.to_string(), &nshards.to_string(), &start.to_string(), run_dir])
        .stdout(Stdio::piped())
        .stderr(Stdio::piped())
        .spawn()
        .expect("spawn worker");
    let stdout = child.stdout.take().unwrap();
    let mut stderr = child.stderr.take().unwrap();
    let errt = thread::spawn(move || {
        let mut s = String::new();
        let _ = stderr.read_to_string(&mut s);
        s
    });
    let mut done = false;
    let mut timed_out = false;
    for line in BufReader::new(stdout).lines() {
        let Ok(line) = line else { break };
        let Ok(j) = Json::parse(&line) else { continue };
        let mut a = agg.lock().unwrap();
        match j.str_of("t").as_str() {
            "S" => {
                if let Some(Json::Obj(m)) = j.get("c") {
                    for (k, v) in m {
                        *a.counts.entry(k.clone()).or_insert(0) += v.as_i64().unwrap_or(0) as u64;
                    }
                }
                if let Some(Json::Obj(m)) = j.get("m") {
                    for (k, v) in m {
                        let e = a.maxes.entry(k.clone()).or_insert(0);
                        *e = (*e).max(v.as_i64().unwrap_or(0) as u64);
                    }
                }
                a.evals += j.i64_of("ev") as u64;
                if let Some(s) = j.get("samples").and_then(Json::as_arr) {
                    for x in s {
                        if a.samples.len() < 40 {
                            a.samples.push(x.clone());
                        }
                    }
                }
            }
            "V" => a.violations.push(j),
            "P" => a.escaped.push(j),
            "T" => timed_out = true,
            "D" => done = true,
            _ => {}
        }
    }
    let status = child.wait().ok();
    let err = errt.join().unwrap_or_default();
    if done {
        return WorkerEnd::Done;
    }
    let mut buf = [0u8; 8];
    let pf = fs::File::open(format!("{run_dir}/progress.{shard}")).ok();
    let g = pf.as_ref().and_then(|f| f.read_at(&mut buf, 0).ok()).map(|_| u64::from_le_bytes(buf)).unwrap_or(u64::MAX - 1);
    let mut fb = [0u8; 8];
    let flag = pf.as_ref().and_then(|f| f.read_at(&mut fb, 8).ok()).map(|n| if n == 8 { u64::from_le_bytes(fb) } else { 0 }).unwrap_or(0);
    if timed_out {
        return WorkerEnd::Timeout(g);
    }
    let desc = format!("flag={flag} status={status:?} stderr={}", clip(err.trim(), 300));
    WorkerEnd::Died(g, desc)
}

pub fn drive(prop: &'static dyn Prop, tier: Tier, seed: u64) -> i32 {
    let t0 = Instant::now();
    let id = prop.id();
    let plan = prop.plan(tier, seed);
    let total = plan.total();
    let exe = std::env::current_exe().expect("current_exe");
    let run_dir = format!("{VERIF_DIR}/.cache/run/{id}.{}.{}", tier.name(), std::process::id());
    let _ = fs::remove_dir_all(&run_dir);
    fs::create_dir_all(&run_dir).expect("run dir");
    let ncpu = thread::available_parallelism().map(|n| n.get()).unwrap_or(4);
    let nshards = (ncpu.min(plan.max_workers).min(total.max(1) as usize)).max(1) as u64;
    let agg = Arc::new(Mutex::new(Agg::default()));
    let mut handles = vec![];
    for shard in 0..nshards {
        let agg = agg.clone();
        let exe = exe.clone();
        let run_dir = run_dir.clone();
        handles.push(thread::spawn(move || {
            let mut start = 0u64;
            let mut restarts = 0;
            loop {
                match run_shard(&exe, id, tier, seed, shard, nshards, start, &run_dir, &agg) {
                    WorkerEnd::Done => break,
                    WorkerEnd::Timeout(g) => {
                        let mut a = agg.lock().unwrap();
                        a.timeouts.push(Json::obj().set("g", Json::Int(g as i64)));
                        if g >= u64::MAX - 1 {
                            break;
                        }
                        start = g + 1;
                    }
                    WorkerEnd::Died(g, desc) => {
                        let mut a = agg.lock().unwrap();
                        a.deaths.push(Json::obj().set("g", Json::Int(g as i64)).set("desc", Json::s(&desc)));
                        if g >= u64::MAX - 1 {
                            break;
                        }
                        start = g + 1;
                    }
                }
                restarts += 1;
                if restarts > 200 {
                    agg.lock().unwrap().deaths.push(Json::obj().set("g", Json::Int(-1)).set("desc", Json::s("too many restarts; shard abandoned")));
                    break;
                }
            }
        }));
    }
    for h in handles {
        let _ = h.join();
    }
    // Distinct non-trivial hashes across all workers.
    let mut distinct: HashSet<u64> = HashSet::new();
    for shard in 0..nshards {
        if let Ok(b) = fs::read(format!("{run_dir}/hashes.{shard}")) {
            for c in b.chunks_exact(8) {
                let mut x = [0u8; 8];
                x.copy_from_slice(c);
                distinct.insert(u64::from_le_bytes(x));
            }
        }
    }
    let _ = fs::remove_dir_all(&run_dir);
    let a = Arc::try_unwrap(agg).ok().expect("agg").into_inner().unwrap();
    finish(prop, tier, seed, &plan, a, distinct.len() as u64, t0)
}

fn finish(prop: &'static dyn Prop, tier: Tier, seed: u64, plan: &Plan, mut a: Agg, distinct: u64, t0: Instant) -> i32 {
    let id = prop.id();
    let known = load_known(id);
    let replay_dir = format!("{VERIF_DIR}/replays");
    let _ = fs::create_dir_all(&replay_dir);
    let mut out_lines: Vec<String> = vec![];
    let mut new_keys: BTreeMap<String, (u64, String)> = BTreeMap::new();
    let mut known_seen: BTreeMap<String, (u64, String)> = BTreeMap::new();
    let mut inconclusive_events = 0u64;

    // Deaths and timeouts.
    for d in &a.deaths {
        let g = d.i64_of("g");
        let (si, idx) = if g >= 0 { plan.locate(g as u64) } else { (plan.sections.len(), 0) };
        let sname = plan.sections.get(si).map(|s| s.name).unwrap_or("?");
        let desc = if g >= 0 { prop.describe(tier, seed, sname, idx) } else { String::new() };
        *a.counts.entry("worker-deaths".into()).or_insert(0) += 1;
        let flagged = d.str_of("desc").starts_with("flag=1 ");
        if g >= 0 && ((plan.death_is_violation && (plan.death_sections.is_empty() || plan.death_sections.contains(&sname))) || (plan.flagged_death_is_violation && flagged)) {
            let v = Json::obj()
                .set("t", Json::s("V"))
                .set("key", Json::s("worker-death"))
                .set("what", Json::s(&format!("worker process died while running this case: {}", d.str_of("desc"))))
                .set("sec", Json::s(sname))
                .set("idx", Json::Int(idx as i64))
                .set("detail", Json::obj().set("input", Json::s(&clip(&desc, 2000))));
            a.violations.push(v);
        } else {
            inconclusive_events += 1;
            if a.samples.len() < 60 {
                a.samples.push(Json::obj().set("worker_death", d.clone()).set("section", Json::s(sname)).set("index", Json::Int(idx as i64)).set("input", Json::s(&clip(&desc, 400))));
            }
        }
    }
    for d in &a.timeouts {
        let g = d.i64_of("g");
        let (si, idx) = plan.locate(g as u64);
        let sname = plan.sections.get(si).map(|s| s.name).unwrap_or("?");
        *a.counts.entry("inconclusive:watchdog-timeout".into()).or_insert(0) += 1;
        inconclusive_events += 1;
        if a.samples.len() < 60 {
            let desc = prop.describe(tier, seed, sname, idx);
            a.samples.push(Json::obj().set("watchdog_timeout", Json::Bool(true)).set("section", Json::s(sname)).set("index", Json::Int(idx as i64)).set("input", Json::s(&clip(&desc, 400))));
        }
    }
    let escaped = a.escaped.len() as u64;

    // Violations: classify against known findings by exact key.
    for v in &a.violations {
        let key = v.str_of("key");
        let is_known = known.iter().any(|k| k.str_of("status") == "open" && k.str_of("key") == key);
        let what = v.str_of("what");
        if is_known {
            let e = known_seen.entry(key.clone()).or_insert((0, what.clone()));
            e.0 += 1;
            if e.0 <= 3 && std::env::var("GV_SHOW_KNOWN").is_ok() {
                let path = format!("{replay_dir}/{id}-KNOWN-{}-{}.json", sanitize(&key), e.0);
                let rj = Json::obj().set("property", Json::s(id)).set("tier", Json::s(tier.name())).set("seed", Json::Int(seed as i64)).set("section", Json::s(&v.str_of("sec"))).set("index", Json::Int(v.i64_of("idx"))).set("key", Json::s(&key)).set("what", Json::s(&what)).set("detail", v.get("detail").cloned().unwrap_or(Json::Null));
                let _ = fs::write(&path, rj.pretty());
            }
        } else {
            let e = new_keys.entry(key.clone()).or_insert((0, String::new()));
            e.0 += 1;
            if e.0 <= 3 {
                let path = format!("{replay_dir}/{id}-{}-{}.json", sanitize(&key), e.0);
                let rj = Json::obj()
                    .set("property", Json::s(id))
                    .set("tier", Json::s(tier.name()))
                    .set("seed", Json::Int(seed as i64))
                    .set("section", Json::s(&v.str_of("sec")))
                    .set("index", Json::Int(v.i64_of("idx")))
                    .set("key", Json::s(&key))
                    .set("what", Json::s(&what))
                    .set("detail", v.get("detail").cloned().unwrap_or(Json::Null));
                let _ = fs::write(&path, rj.pretty());
                if e.0 == 1 {
                    e.1 = path;
                }
            }
        }
    }
    for (key, (n, what)) in &known_seen {
        out_lines.push(format!("KNOWN-FINDING: property={id} key={key} occurrences={n} {}", clip(&what.replace('\n', " "), 200)));
    }
    for (i, (key, (n, path))) in new_keys.iter().enumerate() {
        if i < 12 {
            out_lines.push(format!("VIOLATION property={id} replay={path} key={key} occurrences={n}"));
        }
    }
    if new_keys.len() > 12 {
        out_lines.push(format!("({} more violation keys; see the evidence file)", new_keys.len() - 12));
    }

    // Sanitizer shards (Miri), when the check script ran them: fold into evidence and verdict.
    let mut sanitizer = Json::Null;
    if let Ok(dir) = std::env::var("GV_SANITIZER_DIR") {
        let mut shards = 0i64;
        let mut clean = 0i64;
        let mut cases = 0i64;
        let mut inconclusive = 0i64;
        let mut reports: Vec<Json> = vec![];
        if let Ok(rd) = fs::read_dir(&dir) {
            for ent in rd.filter_map(|e| e.ok()) {
                let name = ent.file_name().to_string_lossy().into_owned();
                if !name.starts_with("shard.") {
                    continue;
                }
                shards += 1;
                let text = fs::read_to_string(ent.path()).unwrap_or_default();
                for l in text.lines() {
                    if let Some(rest) = l.strip_prefix("miri shard ") {
                        if let Some(n) = rest.split(": ").nth(1).and_then(|x| x.split(' ').next()).and_then(|x| x.parse::<i64>().ok()) {
                            cases += n;
                        }
                    }
                }
                let ub = text.contains("Undefined Behavior");
                let leak = text.contains("memory leaked");
                if ub || leak {
                    let kind = if ub { "undefined-behaviour" } else { "leak" };
                    reports.push(Json::obj().set("shard", Json::s(&name)).set("kind", Json::s(kind)).set("log", Json::s(&ent.path().to_string_lossy())));
                    let key = format!("miri:{kind}");
                    let e = new_keys.entry(key.clone()).or_insert((0, ent.path().to_string_lossy().into_owned()));
                    e.0 += 1;
                } else if text.contains("miri-exit=0") {
                    clean += 1;
                } else {
                    inconclusive += 1; // unsupported operation, timeout, build failure: never a violation
                }
            }
        }
        sanitizer = Json::obj()
            .set("tool", Json::s("miri (cargo +nightly miri run, -Zmiri-disable-isolation)"))
            .set("shards", Json::Int(shards))
            .set("shards_clean", Json::Int(clean))
            .set("shards_inconclusive", Json::Int(inconclusive))
            .set("cases_interpreted", Json::Int(cases))
            .set("reports", Json::Arr(reports));
        out_lines.retain(|l| !l.starts_with("VIOLATION property=") || !l.contains("key=miri:"));
        for (key, (n, path)) in new_keys.iter().filter(|(k, _)| k.starts_with("miri:")) {
            out_lines.push(format!("VIOLATION property={id} replay={path} key={key} occurrences={n}"));
        }
    }
    let evaluations = a.evals;
    let nviol: u64 = new_keys.values().map(|x| x.0).sum();
    let mut status = if nviol > 0 { 1 } else { 0 };
    let mut inconclusive_reason = String::new();
    if status == 0 {
        if evaluations < plan.floor_evaluations {
            inconclusive_reason = format!("observed only {evaluations} evaluations (floor {})", plan.floor_evaluations);
        } else if distinct < plan.floor_nontrivial {
            inconclusive_reason = format!("observed only {distinct} distinct non-trivial cases (floor {})", plan.floor_nontrivial);
        } else if escaped * 50 > evaluations.max(1) {
            inconclusive_reason = format!("{escaped} cases ended in an unattributed panic");
        } else if a.deaths.iter().any(|d| d.i64_of("g") < 0) {
            inconclusive_reason = "a shard was abandoned after repeated worker deaths".to_owned();
        }
        if !inconclusive_reason.is_empty() {
            status = 2;
        }
    }

    // Evidence.
    let mut cov = Json::obj()
        .set("evaluations", Json::Int(evaluations as i64))
        .set("distinct_nontrivial", Json::Int(distinct as i64))
        .set("rule", Json::s(&plan.rule));
    let mut samples = a.samples.clone();
    if samples.is_empty() {
        samples.push(Json::s("(no sample recorded)"));
    }
    cov.put("samples", Json::Arr(samples));
    let all_ex = !plan.sections.is_empty() && plan.sections.iter().all(|s| s.exhaustive);
    cov.put("exhaustive", Json::Bool(all_ex));
    cov.put(
        "sections",
        Json::Arr(plan.sections.iter().map(|s| Json::obj().set("name", Json::s(s.name)).set("cases", Json::Int(s.count as i64)).set("exhaustive", Json::Bool(s.exhaustive))).collect()),
    );
    let mut cj = Json::obj();
    for (k, v) in &a.counts {
        cj.put(k, Json::Int(*v as i64));
    }
    cov.put("observed", cj);
    let mut mj = Json::obj();
    for (k, v) in &a.maxes {
        mj.put(k, Json::Int(*v as i64));
    }
    cov.put("maxima", mj);
    cov.put("inconclusive_events", Json::Int(inconclusive_events as i64));
    cov.put("escaped_panics", Json::Int(escaped as i64));
    cov.put("worker_deaths", Json::Int(a.deaths.len() as i64));
    cov.put("watchdog_timeouts", Json::Int(a.timeouts.len() as i64));
    cov.put(
        "known_findings_observed",
        Json::Arr(known_seen.iter().map(|(k, (n, _))| Json::obj().set("key", Json::s(k)).set("occurrences", Json::Int(*n as i64))).collect()),
    );
    cov.put(
        "new_violation_keys",
        Json::Arr(new_keys.iter().map(|(k, (n, p))| Json::obj().set("key", Json::s(k)).set("occurrences", Json::Int(*n as i64)).set("replay", Json::s(p))).collect()),
    );
    if !plan.explanation.is_empty() {
        cov.put("explanation", Json::s(&plan.explanation));
    }
    cov.put("verdict", Json::s(match status { 0 => "held on everything observed", 1 => "violated", _ => "inconclusive" }));
    if !inconclusive_reason.is_empty() {
        cov.put("inconclusive_reason", Json::s(&inconclusive_reason));
    }
    cov.put("gram_repo", Json::s(crate::GRAM_REPO));
    if sanitizer != Json::Null {
        cov.put("sanitizer", sanitizer);
    }
    let ev = Json::obj()
        .set("property_id", Json::s(id))
        .set("tier", Json::s(tier.name()))
        .set("seed", Json::Int(seed as i64))
        .set("level", Json::s("exploration"))
        .set("coverage", cov)
        .set("assumptions", Json::Arr(plan.assumptions.iter().map(|s| Json::s(s)).collect()))
        .set("wall_s", Json::Num(t0.elapsed().as_secs_f64()))
        .set("violations", Json::Int(nviol as i64));
    let evdir = std::env::var("GV_EVIDENCE_DIR").unwrap_or_else(|_| format!("{VERIF_DIR}/evidence"));
    let _ = fs::create_dir_all(&evdir);
    let tmp = format!("{evdir}/{id}.json.tmp");
    let _ = fs::write(&tmp, ev.pretty());
    let _ = fs::rename(&tmp, format!("{evdir}/{id}.json"));

    println!(
        "{id} {}: evaluations={evaluations} distinct_nontrivial={distinct} violations={nviol} known={} inconclusive_events={inconclusive_events} deaths={} timeouts={} escaped_panics={escaped} wall={:.1}s",
        tier.name(),
        known_seen.values().map(|x| x.0).sum::<u64>(),
        a.deaths.len(),
        a.timeouts.len(),
        t0.elapsed().as_secs_f64()
    );
    for l in &out_lines {
        println!("{l}");
    }
    if status == 2 {
        println!("INCONCLUSIVE property={id} {inconclusive_reason}");
    }
    if status == 0 {
        println!("OK property={id}");
    }
    status
}

fn sanitize(s: &str) -> String {
    let t: String = s.chars().map(|c| if c.is_ascii_alphanumeric() { c } else { '_' }).take(60).collect();
    format!("{t}-{:08x}", hash_str(s) as u32)
}

// ---------------------------------------------------------------------------------------------
// Replay of one case in-process.

pub fn replay(prop: &'static dyn Prop, file: &str) -> i32 {
    install_panic_hook();
    colored::control::set_override(false);
    let Ok(s) = fs::read_to_string(file) else {
        eprintln!("cannot read {file}");
        return 2;
    };
    let Ok(j) = Json::parse(&s) else {
        eprintln!("cannot parse {file}");
        return 2;
    };
    let tier = Tier::parse(&j.str_of("tier")).unwrap_or(Tier::Quick);
    let seed = j.i64_of("seed") as u64;
    let section = j.str_of("section");
    let idx = j.i64_of("index") as u64;
    let h = thread::Builder::new()
        .stack_size(STACK)
        .spawn(move || {
            let mut ctx = Ctx::new(prop.id(), tier, seed);
            ctx.replay_mode = true;
            ctx.section = section.clone();
            ctx.idx = idx;
            let r = panic::catch_unwind(AssertUnwindSafe(|| prop.run_case(&mut ctx, &section, idx)));
            if let Err(e) = r {
                println!("escaped panic: {}", panic_text(&e));
            }
            let known: Vec<String> = ctx.known.iter().filter(|k| k.str_of("status") == "open").map(|k| k.str_of("key")).collect();
            let (mut new, mut old) = (0u64, 0u64);
            for k in &ctx.violation_keys {
                if known.contains(k) {
                    old += 1;
                } else {
                    new += 1;
                }
            }
            (new, old)
        })
        .unwrap();
    let (new, old) = h.join().unwrap_or((0, 0));
    if new > 0 {
        println!("VIOLATION property={} replay={file}", prop.id());
        1
    } else if old > 0 {
        println!("KNOWN-FINDING: property={} reproduced from {file} (recorded in known_findings.json)", prop.id());
        0
    } else {
        println!("no violation reproduced for {file}");
        0
    }
}

pub fn cache_dir() -> PathBuf {
    PathBuf::from(format!("{VERIF_DIR}/.cache"))
}
