// R-tok: specification tokenizer written from DESIGN.md A.1/A.2 (maximal munch over character
// classes; the layout rule as a predicate on neighbouring tokens). Shares no code with
// gram's tokenizer. Also: conversion of gram tokens into the harness's own token kinds.
use crate::token;
use num_bigint::BigUint;
use unicode_segmentation::UnicodeSegmentation;

#[derive(Clone, Copy, Debug, PartialEq, Eq, Hash, PartialOrd, Ord)]
pub enum TK {
    Asterisk,
    Boolean,
    Colon,
    DoubleEquals,
    Else,
    Equals,
    False,
    GreaterThan,
    GreaterThanOrEqualTo,
    Identifier,
    If,
    Integer,
    IntegerLiteral,
    LeftCurly,
    LeftParen,
    LessThan,
    LessThanOrEqualTo,
    Minus,
    Plus,
    RightCurly,
    RightParen,
    Slash,
    Semi,
    LineBreak,
    Then,
    ThickArrow,
    ThinArrow,
    True,
    Type,
}

pub const ALL_TK: [TK; 29] = [
    TK::Asterisk, TK::Boolean, TK::Colon, TK::DoubleEquals, TK::Else, TK::Equals, TK::False, TK::GreaterThan,
    TK::GreaterThanOrEqualTo, TK::Identifier, TK::If, TK::Integer, TK::IntegerLiteral, TK::LeftCurly, TK::LeftParen,
    TK::LessThan, TK::LessThanOrEqualTo, TK::Minus, TK::Plus, TK::RightCurly, TK::RightParen, TK::Slash, TK::Semi,
    TK::LineBreak, TK::Then, TK::ThickArrow, TK::ThinArrow, TK::True, TK::Type,
];

impl TK {
    // Name of the terminal in grammar.y.
    pub fn bison(self) -> &'static str {
        match self {
            TK::Asterisk => "ASTERISK",
            TK::Boolean => "BOOLEAN",
            TK::Colon => "COLON",
            TK::DoubleEquals => "DOUBLE_EQUALS",
            TK::Else => "ELSE",
            TK::Equals => "EQUALS",
            TK::False => "FALSE",
            TK::GreaterThan => "GREATER_THAN",
            TK::GreaterThanOrEqualTo => "GREATER_THAN_OR_EQUAL",
            TK::Identifier => "IDENTIFIER",
            TK::If => "IF",
            TK::Integer => "INTEGER",
            TK::IntegerLiteral => "INTEGER_LITERAL",
            TK::LeftCurly => "LEFT_CURLY",
            TK::LeftParen => "LEFT_PAREN",
            TK::LessThan => "LESS_THAN",
            TK::LessThanOrEqualTo => "LESS_THAN_OR_EQUAL",
            TK::Minus => "MINUS",
            TK::Plus => "PLUS",
            TK::RightCurly => "RIGHT_CURLY",
            TK::RightParen => "RIGHT_PAREN",
            TK::Slash => "SLASH",
            TK::Semi | TK::LineBreak => "TERMINATOR",
            TK::Then => "THEN",
            TK::ThickArrow => "THICK_ARROW",
            TK::ThinArrow => "THIN_ARROW",
            TK::True => "TRUE",
            TK::Type => "TYPE",
        }
    }
    // Canonical spelling (identifiers and literals need their own text).
    pub fn text(self) -> &'static str {
        match self {
            TK::Asterisk => "*",
            TK::Boolean => "bool",
            TK::Colon => ":",
            TK::DoubleEquals => "==",
            TK::Else => "else",
            TK::Equals => "=",
            TK::False => "false",
            TK::GreaterThan => ">",
            TK::GreaterThanOrEqualTo => ">=",
            TK::Identifier => "_",
            TK::If => "if",
            TK::Integer => "int",
            TK::IntegerLiteral => "1",
            TK::LeftCurly => "{",
            TK::LeftParen => "(",
            TK::LessThan => "<",
            TK::LessThanOrEqualTo => "<=",
            TK::Minus => "-",
            TK::Plus => "+",
            TK::RightCurly => "}",
            TK::RightParen => ")",
            TK::Slash => "/",
            TK::Semi => ";",
            TK::LineBreak => "\n",
            TK::Then => "then",
            TK::ThickArrow => "=>",
            TK::ThinArrow => "->",
            TK::True => "true",
            TK::Type => "type",
        }
    }
    pub fn is_terminator(self) -> bool {
        matches!(self, TK::Semi | TK::LineBreak)
    }
}

pub fn kind_of(v: &token::Variant) -> TK {
    use token::Variant as V;
    match v {
        V::Asterisk => TK::Asterisk,
        V::Boolean => TK::Boolean,
        V::Colon => TK::Colon,
        V::DoubleEquals => TK::DoubleEquals,
        V::Else => TK::Else,
        V::Equals => TK::Equals,
        V::False => TK::False,
        V::GreaterThan => TK::GreaterThan,
        V::GreaterThanOrEqualTo => TK::GreaterThanOrEqualTo,
        V::Identifier(_) => TK::Identifier,
        V::If => TK::If,
        V::Integer => TK::Integer,
        V::IntegerLiteral(_) => TK::IntegerLiteral,
        V::LeftCurly => TK::LeftCurly,
        V::LeftParen => TK::LeftParen,
        V::LessThan => TK::LessThan,
        V::LessThanOrEqualTo => TK::LessThanOrEqualTo,
        V::Minus => TK::Minus,
        V::Plus => TK::Plus,
        V::RightCurly => TK::RightCurly,
        V::RightParen => TK::RightParen,
        V::Slash => TK::Slash,
        V::Terminator(token::TerminatorType::LineBreak) => TK::LineBreak,
        V::Terminator(token::TerminatorType::Semicolon) => TK::Semi,
        V::Then => TK::Then,
        V::ThickArrow => TK::ThickArrow,
        V::ThinArrow => TK::ThinArrow,
        V::True => TK::True,
        V::Type => TK::Type,
    }
}

#[derive(Clone, Debug, PartialEq, Eq)]
pub struct RTok {
    pub kind: TK,
    pub start: usize,
    pub end: usize,
}

pub struct RTokOk {
    pub toks: Vec<RTok>,
}

pub struct RTokErr {
    // byte offsets of every unexpected scalar outside comments
    pub unexpected: Vec<usize>,
}

// The sets of DESIGN.md A.2 (today's grammar); C10 cross-checks them against FIRST/LAST computed
// from grammar.y by R-gram.
pub fn can_end(k: TK) -> bool {
    matches!(k, TK::Type | TK::Identifier | TK::Integer | TK::IntegerLiteral | TK::Boolean | TK::True | TK::False | TK::RightParen | TK::Semi)
}

pub fn can_start(k: TK) -> bool {
    matches!(
        k,
        TK::Type | TK::Identifier | TK::Integer | TK::IntegerLiteral | TK::Boolean | TK::True | TK::False | TK::LeftParen | TK::LeftCurly | TK::If | TK::Semi
    )
}

const KEYWORDS: [(&str, TK); 8] = [
    ("bool", TK::Boolean),
    ("else", TK::Else),
    ("false", TK::False),
    ("if", TK::If),
    ("int", TK::Integer),
    ("then", TK::Then),
    ("true", TK::True),
    ("type", TK::Type),
];

fn symbol_at(rest: &str) -> Option<(TK, usize)> {
    const TWO: [(&str, TK); 5] =
        [("->", TK::ThinArrow), ("<=", TK::LessThanOrEqualTo), ("==", TK::DoubleEquals), ("=>", TK::ThickArrow), (">=", TK::GreaterThanOrEqualTo)];
    const ONE: [(&str, TK); 13] = [
        ("*", TK::Asterisk),
        (":", TK::Colon),
        ("{", TK::LeftCurly),
        ("(", TK::LeftParen),
        ("+", TK::Plus),
        ("}", TK::RightCurly),
        (")", TK::RightParen),
        ("/", TK::Slash),
        (";", TK::Semi),
        ("-", TK::Minus),
        ("<", TK::LessThan),
        ("=", TK::Equals),
        (">", TK::GreaterThan),
    ];
    for (s, k) in TWO {
        if rest.starts_with(s) {
            return Some((k, 2));
        }
    }
    for (s, k) in ONE {
        if rest.starts_with(s) {
            return Some((k, 1));
        }
    }
    None
}

// Lexical pass without layout: tokens plus, for each token, whether a line break (outside
// comments) occurs in the gap before it, and the offset of the first such line break.
pub struct Lexed {
    pub toks: Vec<RTok>,
    pub lf_before: Vec<Option<usize>>, // first LF offset in the gap preceding token i
    pub unexpected: Vec<usize>,
}

pub fn lex(src: &str) -> Lexed {
    let mut toks = vec![];
    let mut lf_before = vec![];
    let mut unexpected = vec![];
    let mut pending_lf: Option<usize> = None;
    let mut i = 0usize;
    let n = src.len();
    while i < n {
        let rest = &src[i..];
        let c = rest.chars().next().unwrap();
        let w = c.len_utf8();
        if c == '\n' {
            if pending_lf.is_none() {
                pending_lf = Some(i);
            }
            i += w;
            continue;
        }
        if c == '#' {
            // comment: up to, not including, the next LF or the end of input
            match rest.find('\n') {
                Some(k) => i += k,
                None => i = n,
            }
            continue;
        }
        if let Some((k, len)) = symbol_at(rest) {
            toks.push(RTok { kind: k, start: i, end: i + len });
            lf_before.push(pending_lf.take());
            i += len;
            continue;
        }
        if c.is_alphabetic() || c == '_' {
            let mut j = i + w;
            for d in src[j..].chars() {
                if d.is_alphanumeric() || d == '_' {
                    j += d.len_utf8();
                } else {
                    break;
                }
            }
            let word = &src[i..j];
            let kind = KEYWORDS.iter().find(|(s, _)| *s == word).map_or(TK::Identifier, |(_, k)| *k);
            toks.push(RTok { kind, start: i, end: j });
            lf_before.push(pending_lf.take());
            i = j;
            continue;
        }
        if c.is_ascii_digit() {
            let mut j = i + 1;
            while j < n && src.as_bytes()[j].is_ascii_digit() {
                j += 1;
            }
            toks.push(RTok { kind: TK::IntegerLiteral, start: i, end: j });
            lf_before.push(pending_lf.take());
            i = j;
            continue;
        }
        if c.is_whitespace() {
            i += w;
            continue;
        }
        unexpected.push(i);
        i += w;
    }
    Lexed { toks, lf_before, unexpected }
}

// Full specification tokenizer: Ok(token stream with line-break terminators) or Err(unexpected).
pub fn rtok(src: &str) -> Result<Vec<RTok>, RTokErr> {
    let lx = lex(src);
    if !lx.unexpected.is_empty() {
        return Err(RTokErr { unexpected: lx.unexpected });
    }
    let mut out: Vec<RTok> = vec![];
    for (i, t) in lx.toks.iter().enumerate() {
        if i > 0 {
            if let Some(lf) = lx.lf_before[i] {
                let a = lx.toks[i - 1].kind;
                if can_end(a) && can_start(t.kind) {
                    out.push(RTok { kind: TK::LineBreak, start: lf, end: lf + 1 });
                }
            }
        }
        out.push(t.clone());
    }
    Ok(out)
}

// Decimal value of an ASCII digit string computed without BigInt::parse_bytes: base-10^9 chunks.
pub fn decimal_value(digits: &str) -> BigUint {
    let mut v = BigUint::from(0u32);
    let b = digits.as_bytes();
    let mut i = 0;
    while i < b.len() {
        let j = (i + 9).min(b.len());
        let mut chunk: u32 = 0;
        for &d in &b[i..j] {
            chunk = chunk * 10 + u32::from(d - b'0');
        }
        let mut scale: u32 = 1;
        for _ in i..j {
            scale *= 10;
        }
        v = v * scale + chunk;
        i = j;
    }
    v
}

// Grapheme cluster [start,end) containing byte offset `at`.
pub fn cluster_at(src: &str, at: usize) -> (usize, usize) {
    let mut last = (0usize, 0usize);
    for (s, g) in src.grapheme_indices(true) {
        let e = s + g.len();
        if at >= s && at < e {
            return (s, e);
        }
        last = (s, e);
    }
    last
}
