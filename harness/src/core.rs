// R-core: independent checker for explicitly typed terms and definitional equality by
// normalisation-by-evaluation over named closures (DESIGN.md A.5/A.6). No de Bruijn arithmetic:
// terms carry unique binder ids; the conversion from gram's/E's indices is a walk over a stack
// of binder ids.
use crate::eterm::{E, Op};
use num_bigint::BigInt;
use std::cell::{Cell, RefCell};
use std::collections::HashMap;
use std::rc::Rc;

pub type Id = u32;

#[derive(Debug)]
pub enum C {
    Type,
    Int,
    Bool,
    True,
    False,
    Lit(BigInt),
    Var(Id),
    Opaque(u64), // unresolved hole: opaque constant identified by (cell, truncated scope)
    Lam(Id, bool, Rc<C>, Rc<C>),
    Pi(Id, bool, Rc<C>, Rc<C>),
    App(Rc<C>, Rc<C>),
    Let(Vec<(Id, Rc<C>, Rc<C>)>, Rc<C>),
    Neg(Rc<C>),
    Bin(Op, Rc<C>, Rc<C>),
    If(Rc<C>, Rc<C>, Rc<C>),
}

#[derive(Clone, Debug, PartialEq, Eq)]
pub enum Fail {
    Fuel,
    IllScoped(String),
    IllTyped(String),
}

// ---------------------------------------------------------------------------------------------
// E -> C

pub struct Conv {
    next: Id,
    pub names: HashMap<Id, String>,
}

impl Conv {
    pub fn new() -> Conv {
        Conv { next: 0, names: HashMap::new() }
    }
    pub fn fresh(&mut self, name: &str) -> Id {
        self.next += 1;
        self.names.insert(self.next, name.to_owned());
        self.next
    }
    // `stack`: binder ids, outermost first.
    pub fn go(&mut self, e: &E, stack: &mut Vec<Id>) -> Result<Rc<C>, Fail> {
        Ok(Rc::new(match e {
            E::Type => C::Type,
            E::Int => C::Int,
            E::Bool => C::Bool,
            E::True => C::True,
            E::False => C::False,
            E::Lit(v) => C::Lit(v.clone()),
            E::Var(n, i) => {
                if *i >= stack.len() {
                    return Err(Fail::IllScoped(format!("variable {n} has index {i} in a scope of {} binders", stack.len())));
                }
                C::Var(stack[stack.len() - 1 - i])
            }
            E::Hole(id, shift, content) => {
                if *shift > stack.len() {
                    return Err(Fail::IllScoped(format!("hole ?{id} has shift {shift} in a scope of {} binders", stack.len())));
                }
                let keep = stack.len() - shift;
                match content {
                    Some(c) => {
                        let mut truncated: Vec<Id> = stack[..keep].to_vec();
                        return self.go(c, &mut truncated);
                    }
                    None => {
                        // identity of the opaque constant: the cell and the depth of its home
                        // scope (binder ids differ between separate conversions of related terms)
                        C::Opaque(crate::util::mix(0x9e37_79b9 ^ u64::from(*id), keep as u64))
                    }
                }
            }
            E::Lam(n, im, d, b) => {
                let d = self.go(d, stack)?;
                let id = self.fresh(n);
                stack.push(id);
                let b = self.go(b, stack);
                stack.pop();
                C::Lam(id, *im, d, b?)
            }
            E::Pi(n, im, d, b) => {
                let d = self.go(d, stack)?;
                let id = self.fresh(n);
                stack.push(id);
                let b = self.go(b, stack);
                stack.pop();
                C::Pi(id, *im, d, b?)
            }
            E::App(f, a) => C::App(self.go(f, stack)?, self.go(a, stack)?),
            E::Let(defs, body) => {
                let ids: Vec<Id> = defs.iter().map(|(n, _, _)| self.fresh(n)).collect();
                for id in &ids {
                    stack.push(*id);
                }
                let mut out = vec![];
                let mut err = None;
                for ((_, a, d), id) in defs.iter().zip(ids.iter()) {
                    match (self.go(a, stack), self.go(d, stack)) {
                        (Ok(a), Ok(d)) => out.push((*id, a, d)),
                        (Err(e), _) | (_, Err(e)) => {
                            err = Some(e);
                            break;
                        }
                    }
                }
                let body = if err.is_none() { self.go(body, stack) } else { Err(err.clone().unwrap()) };
                for _ in &ids {
                    stack.pop();
                }
                C::Let(out, body?)
            }
            E::Neg(a) => C::Neg(self.go(a, stack)?),
            E::Bin(op, a, b) => C::Bin(*op, self.go(a, stack)?, self.go(b, stack)?),
            E::If(c, t, f) => C::If(self.go(c, stack)?, self.go(t, stack)?, self.go(f, stack)?),
        }))
    }
}

// ---------------------------------------------------------------------------------------------
// Semantic domain

#[derive(Clone)]
pub enum V {
    Type,
    Int,
    Bool,
    True,
    False,
    Lit(BigInt),
    Lam(bool, Clo),
    Pi(bool, Val, Clo),
    Stuck(Rc<Stuck>),
}

pub enum Stuck {
    Var(Id),
    Opaque(u64),
    App(V, Val),
    Neg(V),
    Bin(Op, V, V),
    If(V, Val, Val),
}

// A closure: environment, bound variable, body.
#[derive(Clone)]
pub struct Clo {
    env: Env,
    var: Id,
    body: Rc<C>,
    // when present, instantiation calls this instead of evaluating `body` (codomain of an
    // inferred lambda type: the type of the lambda's body re-inferred with the argument bound)
    fun: Option<Rc<dyn Fn(&Nbe, Val) -> Result<V, Fail>>>,
}

// Lazy value with memo.
pub type Val = Rc<Thunk>;

pub struct Thunk {
    state: RefCell<TState>,
}

enum TState {
    Delayed(Env, Rc<C>),
    Rec(Rc<Group>, usize),
    Done(V),
    Busy,
}

pub struct Group {
    env: Env, // environment outside the group
    defs: Vec<(Id, Rc<C>, Rc<C>)>,
}

#[derive(Clone)]
pub struct Env(Option<Rc<EnvNode>>);

struct EnvNode {
    id: Id,
    val: Val,
    next: Env,
}

impl Env {
    pub fn empty() -> Env {
        Env(None)
    }
    pub fn with(&self, id: Id, val: Val) -> Env {
        Env(Some(Rc::new(EnvNode { id, val, next: self.clone() })))
    }
    fn get(&self, id: Id) -> Option<Val> {
        let mut cur = self;
        while let Some(n) = &cur.0 {
            if n.id == id {
                return Some(n.val.clone());
            }
            cur = &n.next;
        }
        None
    }
}

pub fn done(v: V) -> Val {
    Rc::new(Thunk { state: RefCell::new(TState::Done(v)) })
}

fn delayed(env: &Env, c: &Rc<C>) -> Val {
    Rc::new(Thunk { state: RefCell::new(TState::Delayed(env.clone(), c.clone())) })
}

pub fn var_val(id: Id) -> Val {
    done(V::Stuck(Rc::new(Stuck::Var(id))))
}


// Identifiers occurring free in a term (binders of the term itself excluded).
fn free_ids(c: &C, bound: &mut Vec<Id>, out: &mut Vec<Id>) {
    match c {
        C::Type | C::Int | C::Bool | C::True | C::False | C::Lit(_) | C::Opaque(_) => {}
        C::Var(x) => {
            if !bound.contains(x) && !out.contains(x) {
                out.push(*x);
            }
        }
        C::Lam(x, _, d, b) | C::Pi(x, _, d, b) => {
            free_ids(d, bound, out);
            bound.push(*x);
            free_ids(b, bound, out);
            bound.pop();
        }
        C::App(f, a) => {
            free_ids(f, bound, out);
            free_ids(a, bound, out);
        }
        C::Let(defs, body) => {
            for (x, _, _) in defs {
                bound.push(*x);
            }
            for (_, a, d) in defs {
                free_ids(a, bound, out);
                free_ids(d, bound, out);
            }
            free_ids(body, bound, out);
            for _ in defs {
                bound.pop();
            }
        }
        C::Neg(a) => free_ids(a, bound, out),
        C::Bin(_, a, b) => {
            free_ids(a, bound, out);
            free_ids(b, bound, out);
        }
        C::If(a, b, c) => {
            free_ids(a, bound, out);
            free_ids(b, bound, out);
            free_ids(c, bound, out);
        }
    }
}

pub struct Nbe {
    pub fuel: Cell<u64>,
    pub fresh: Cell<Id>,
}

type R<T> = Result<T, Fail>;

impl Nbe {
    pub fn new(fuel: u64) -> Nbe {
        Nbe { fuel: Cell::new(fuel), fresh: Cell::new(1 << 30) }
    }
    fn tick(&self) -> R<()> {
        let f = self.fuel.get();
        if f == 0 {
            return Err(Fail::Fuel);
        }
        self.fuel.set(f - 1);
        Ok(())
    }
    pub fn fresh_id(&self) -> Id {
        let f = self.fresh.get();
        self.fresh.set(f + 1);
        f
    }

    // Two suspended computations are certainly equal when they are the same thunk, or the same
    // piece of syntax under environments that agree (up to conversion) on its free variables.
    // Without this, comparing two occurrences of a recursively defined type family at a neutral
    // index (`pad n` with `pad n`) would unfold the family for ever.
    fn same_unforced(&self, a: &Val, b: &Val) -> R<bool> {
        if Rc::ptr_eq(a, b) {
            return Ok(true);
        }
        let pair = match (&*a.state.borrow(), &*b.state.borrow()) {
            (TState::Delayed(e1, c1), TState::Delayed(e2, c2)) if Rc::ptr_eq(c1, c2) => Some((e1.clone(), e2.clone(), c1.clone())),
            _ => None,
        };
        let Some((e1, e2, c)) = pair else { return Ok(false) };
        let mut ids = vec![];
        free_ids(&c, &mut vec![], &mut ids);
        for id in ids {
            match (e1.get(id), e2.get(id)) {
                (Some(x), Some(y)) => {
                    if Rc::ptr_eq(&x, &y) {
                        continue;
                    }
                    self.tick()?;
                    let (vx, vy) = (self.force(&x)?, self.force(&y)?);
                    // only cheap, first-order agreement is looked for here
                    if matches!(vx, V::Lam(..) | V::Pi(..)) || !self.conv(&vx, &vy)? {
                        return Ok(false);
                    }
                }
                (None, None) => {}
                _ => return Ok(false),
            }
        }
        Ok(true)
    }

    pub fn force(&self, t: &Val) -> R<V> {
        let st = std::mem::replace(&mut *t.state.borrow_mut(), TState::Busy);
        let v = match st {
            TState::Done(v) => v,
            TState::Busy => {
                // a value that needs itself: divergence written in the program
                *t.state.borrow_mut() = TState::Busy;
                return Err(Fail::Fuel);
            }
            TState::Delayed(env, c) => match self.eval(&c, &env) {
                Ok(v) => v,
                Err(e) => {
                    *t.state.borrow_mut() = TState::Delayed(env, c);
                    return Err(e);
                }
            },
            TState::Rec(g, i) => {
                let env = self.group_env(&g);
                match self.eval(&g.defs[i].2, &env) {
                    Ok(v) => v,
                    Err(e) => {
                        *t.state.borrow_mut() = TState::Rec(g, i);
                        return Err(e);
                    }
                }
            }
        };
        *t.state.borrow_mut() = TState::Done(v.clone());
        Ok(v)
    }

    fn group_env(&self, g: &Rc<Group>) -> Env {
        let mut env = g.env.clone();
        for (i, (id, _, _)) in g.defs.iter().enumerate() {
            env = env.with(*id, Rc::new(Thunk { state: RefCell::new(TState::Rec(g.clone(), i)) }));
        }
        env
    }

    pub fn let_env(&self, env: &Env, defs: &[(Id, Rc<C>, Rc<C>)]) -> Env {
        let g = Rc::new(Group { env: env.clone(), defs: defs.to_vec() });
        self.group_env(&g)
    }

    pub fn eval(&self, c: &Rc<C>, env: &Env) -> R<V> {
        self.tick()?;
        Ok(match &**c {
            C::Type => V::Type,
            C::Int => V::Int,
            C::Bool => V::Bool,
            C::True => V::True,
            C::False => V::False,
            C::Lit(v) => V::Lit(v.clone()),
            C::Opaque(h) => V::Stuck(Rc::new(Stuck::Opaque(*h))),
            C::Var(id) => match env.get(*id) {
                Some(t) => self.force(&t)?,
                None => V::Stuck(Rc::new(Stuck::Var(*id))),
            },
            C::Lam(id, im, _, b) => V::Lam(*im, Clo { env: env.clone(), var: *id, body: b.clone(), fun: None }),
            C::Pi(id, im, d, b) => V::Pi(*im, delayed(env, d), Clo { env: env.clone(), var: *id, body: b.clone(), fun: None }),
            C::App(f, a) => {
                let fv = self.eval(f, env)?;
                self.apply(fv, delayed(env, a))?
            }
            C::Let(defs, body) => {
                let env2 = self.let_env(env, defs);
                self.eval(body, &env2)?
            }
            C::Neg(a) => match self.eval(a, env)? {
                V::Lit(v) => V::Lit(-v),
                other => V::Stuck(Rc::new(Stuck::Neg(other))),
            },
            C::Bin(op, a, b) => {
                let x = self.eval(a, env)?;
                let y = self.eval(b, env)?;
                arith(*op, x, y)
            }
            C::If(c, t, f) => match self.eval(c, env)? {
                V::True => self.eval(t, env)?,
                V::False => self.eval(f, env)?,
                other => V::Stuck(Rc::new(Stuck::If(other, delayed(env, t), delayed(env, f)))),
            },
        })
    }

    pub fn apply(&self, f: V, a: Val) -> R<V> {
        self.tick()?;
        match f {
            V::Lam(_, clo) => self.eval(&clo.body, &clo.env.with(clo.var, a)),
            other => Ok(V::Stuck(Rc::new(Stuck::App(other, a)))),
        }
    }

    pub fn inst(&self, clo: &Clo, a: Val) -> R<V> {
        if let Some(f) = &clo.fun {
            self.tick()?;
            return f(self, a);
        }
        self.eval(&clo.body, &clo.env.with(clo.var, a))
    }

    // Definitional equality of two values (A.6): no eta, lambda domains ignored.
    pub fn conv(&self, a: &V, b: &V) -> R<bool> {
        self.tick()?;
        Ok(match (a, b) {
            (V::Type, V::Type) | (V::Int, V::Int) | (V::Bool, V::Bool) | (V::True, V::True) | (V::False, V::False) => true,
            (V::Lit(x), V::Lit(y)) => x == y,
            (V::Lam(i1, c1), V::Lam(i2, c2)) => {
                if i1 != i2 {
                    return Ok(false);
                }
                let x = var_val(self.fresh_id());
                let (b1, b2) = (self.inst(c1, x.clone())?, self.inst(c2, x)?);
                self.conv(&b1, &b2)?
            }
            (V::Pi(i1, d1, c1), V::Pi(i2, d2, c2)) => {
                if i1 != i2 {
                    return Ok(false);
                }
                let (dv1, dv2) = (self.force(d1)?, self.force(d2)?);
                if !self.conv(&dv1, &dv2)? {
                    return Ok(false);
                }
                let x = var_val(self.fresh_id());
                let (b1, b2) = (self.inst(c1, x.clone())?, self.inst(c2, x)?);
                self.conv(&b1, &b2)?
            }
            (V::Stuck(s1), V::Stuck(s2)) => match (&**s1, &**s2) {
                (Stuck::Var(x), Stuck::Var(y)) => x == y,
                (Stuck::Opaque(x), Stuck::Opaque(y)) => x == y,
                (Stuck::App(f1, a1), Stuck::App(f2, a2)) => {
                    if !self.conv(f1, f2)? {
                        return Ok(false);
                    }
                    if self.same_unforced(a1, a2)? {
                        return Ok(true);
                    }
                    let (x, y) = (self.force(a1)?, self.force(a2)?);
                    self.conv(&x, &y)?
                }
                (Stuck::Neg(x), Stuck::Neg(y)) => self.conv(x, y)?,
                (Stuck::Bin(o1, x1, y1), Stuck::Bin(o2, x2, y2)) => o1 == o2 && self.conv(x1, x2)? && self.conv(y1, y2)?,
                (Stuck::If(c1, t1, e1), Stuck::If(c2, t2, e2)) => {
                    if !self.conv(c1, c2)? {
                        return Ok(false);
                    }
                    if !self.same_unforced(t1, t2)? {
                        let (x, y) = (self.force(t1)?, self.force(t2)?);
                        if !self.conv(&x, &y)? {
                            return Ok(false);
                        }
                    }
                    if self.same_unforced(e1, e2)? {
                        return Ok(true);
                    }
                    let (x, y) = (self.force(e1)?, self.force(e2)?);
                    self.conv(&x, &y)?
                }
                _ => false,
            },
            _ => false,
        })
    }

    // Short description of a value's head, for messages and the C04 shape table.
    pub fn head(&self, v: &V) -> &'static str {
        match v {
            V::Type => "type",
            V::Int => "int",
            V::Bool => "bool",
            V::True => "true",
            V::False => "false",
            V::Lit(_) => "literal",
            V::Lam(false, _) => "lambda",
            V::Lam(true, _) => "implicit-lambda",
            V::Pi(false, ..) => "pi",
            V::Pi(true, ..) => "implicit-pi",
            V::Stuck(s) => match &**s {
                Stuck::Var(_) => "neutral-variable",
                Stuck::Opaque(_) => "unsolved-hole",
                Stuck::App(..) => "neutral-application",
                Stuck::Neg(_) => "neutral-negation",
                Stuck::Bin(..) => "neutral-arithmetic",
                Stuck::If(..) => "neutral-conditional",
            },
        }
    }
}

pub fn arith(op: Op, x: V, y: V) -> V {
    if let (V::Lit(a), V::Lit(b)) = (&x, &y) {
        let t = |c: bool| if c { V::True } else { V::False };
        match op {
            Op::Add => return V::Lit(a + b),
            Op::Sub => return V::Lit(a - b),
            Op::Mul => return V::Lit(a * b),
            Op::Div => {
                if let Some(q) = trunc_div(a, b) {
                    return V::Lit(q);
                }
            }
            Op::Lt => return t(a < b),
            Op::Le => return t(a <= b),
            Op::Eq => return t(a == b),
            Op::Gt => return t(a > b),
            Op::Ge => return t(a >= b),
        }
    }
    V::Stuck(Rc::new(Stuck::Bin(op, x, y)))
}

// Division truncating toward zero, derived from unsigned magnitudes (independent of the signed
// division of num-bigint that gram uses).
pub fn trunc_div(a: &BigInt, b: &BigInt) -> Option<BigInt> {
    use num_bigint::Sign;
    if b.sign() == Sign::NoSign {
        return None;
    }
    let q = a.magnitude() / b.magnitude();
    let neg = (a.sign() == Sign::Minus) != (b.sign() == Sign::Minus);
    Some(BigInt::from_biguint(if q == num_bigint::BigUint::from(0u32) { Sign::NoSign } else if neg { Sign::Minus } else { Sign::Plus }, q))
}

// ---------------------------------------------------------------------------------------------
// Typing (A.5)

pub struct Checker<'n> {
    pub nbe: &'n Nbe,
    pub rules: RefCell<Vec<&'static str>>, // rules exercised, for evidence
}

#[derive(Clone)]
pub struct Ctx {
    pub env: Env,
    pub types: Rc<HashMap<Id, Val>>,
}

impl Ctx {
    pub fn empty() -> Ctx {
        Ctx { env: Env::empty(), types: Rc::new(HashMap::new()) }
    }
    pub fn bind(&self, id: Id, ty: Val, val: Val) -> Ctx {
        let mut t = (*self.types).clone();
        t.insert(id, ty);
        Ctx { env: self.env.with(id, val), types: Rc::new(t) }
    }
}

impl<'n> Checker<'n> {
    pub fn new(nbe: &'n Nbe) -> Checker<'n> {
        Checker { nbe, rules: RefCell::new(vec![]) }
    }
    fn rule(&self, r: &'static str) {
        self.rules.borrow_mut().push(r);
    }
    fn expect(&self, got: &V, want: &V, what: &str) -> R<()> {
        if self.nbe.conv(got, want)? { Ok(()) } else { Err(Fail::IllTyped(format!("{what}: has type with head `{}`, expected `{}`", self.nbe.head(got), self.nbe.head(want)))) }
    }
    pub fn infer(&self, c: &Rc<C>, ctx: &Ctx) -> R<V> {
        self.nbe.tick()?;
        Ok(match &**c {
            C::Type | C::Int | C::Bool => {
                self.rule("former");
                V::Type
            }
            C::Opaque(_) => {
                self.rule("hole");
                V::Type
            }
            C::Lit(_) => {
                self.rule("literal");
                V::Int
            }
            C::True | C::False => {
                self.rule("boolean");
                V::Bool
            }
            C::Var(id) => {
                self.rule("variable");
                match ctx.types.get(id) {
                    Some(t) => self.nbe.force(t)?,
                    None => return Err(Fail::IllScoped(format!("variable #{id} has no type in the context"))),
                }
            }
            C::Lam(id, im, d, b) => {
                self.rule("lambda");
                let td = self.infer(d, ctx)?;
                self.expect(&td, &V::Type, "lambda domain")?;
                let dv = delayed(&ctx.env, d);
                let ctx2 = ctx.bind(*id, dv.clone(), var_val(*id));
                self.infer(b, &ctx2)?;
                // The codomain as a function of the argument: the type of the body with the
                // parameter bound to that argument. (Reading the body type back and closing it
                // would unfold a recursively defined type family at a neutral index for ever.)
                let (ctx_c, b_c, dv_c, id_c) = (ctx.clone(), b.clone(), dv.clone(), *id);
                let fun: Rc<dyn Fn(&Nbe, Val) -> Result<V, Fail>> = Rc::new(move |nbe: &Nbe, arg: Val| Checker::new(nbe).infer(&b_c, &ctx_c.bind(id_c, dv_c.clone(), arg)));
                V::Pi(*im, dv, Clo { env: ctx.env.clone(), var: *id, body: b.clone(), fun: Some(fun) })
            }
            C::Pi(id, _, d, b) => {
                self.rule("pi");
                let td = self.infer(d, ctx)?;
                self.expect(&td, &V::Type, "function type domain")?;
                let ctx2 = ctx.bind(*id, delayed(&ctx.env, d), var_val(*id));
                let tb = self.infer(b, &ctx2)?;
                self.expect(&tb, &V::Type, "function type codomain")?;
                V::Type
            }
            C::App(f, a) => {
                self.rule("application");
                let tf = self.infer(f, ctx)?;
                let V::Pi(false, dom, clo) = tf else {
                    return Err(Fail::IllTyped(format!("applicand has type with head `{}`, not an explicit function type", self.nbe.head(&tf))));
                };
                let ta = self.infer(a, ctx)?;
                let dv = self.nbe.force(&dom)?;
                self.expect(&ta, &dv, "argument")?;
                self.nbe.inst(&clo, delayed(&ctx.env, a))?
            }
            C::Let(defs, body) => {
                self.rule(if defs.len() > 1 { "group" } else { "definition" });
                let env2 = self.nbe.let_env(&ctx.env, defs);
                let mut types = (*ctx.types).clone();
                for (id, a, _) in defs {
                    types.insert(*id, delayed(&env2, a));
                }
                let ctx2 = Ctx { env: env2, types: Rc::new(types) };
                for (_, a, d) in defs {
                    let ta = self.infer(a, &ctx2)?;
                    self.expect(&ta, &V::Type, "annotation")?;
                    let td = self.infer(d, &ctx2)?;
                    let av = self.nbe.eval(a, &ctx2.env)?;
                    self.expect(&td, &av, "definition against its annotation")?;
                }
                self.infer(body, &ctx2)?
            }
            C::Neg(a) => {
                self.rule("negation");
                let t = self.infer(a, ctx)?;
                self.expect(&t, &V::Int, "negated operand")?;
                V::Int
            }
            C::Bin(op, a, b) => {
                self.rule(if op.is_arith() { "arithmetic" } else { "comparison" });
                let t = self.infer(a, ctx)?;
                self.expect(&t, &V::Int, "left operand")?;
                let t = self.infer(b, ctx)?;
                self.expect(&t, &V::Int, "right operand")?;
                if op.is_arith() { V::Int } else { V::Bool }
            }
            C::If(c, t, e) => {
                self.rule("conditional");
                let tc = self.infer(c, ctx)?;
                self.expect(&tc, &V::Bool, "condition")?;
                let tt = self.infer(t, ctx)?;
                let te = self.infer(e, ctx)?;
                if !self.nbe.conv(&tt, &te)? {
                    return Err(Fail::IllTyped("the two branches have different types".into()));
                }
                tt
            }
        })
    }
}

// ---------------------------------------------------------------------------------------------
// Read-back V -> C (fresh binder ids)

pub struct Quote<'n> {
    pub nbe: &'n Nbe,
}

impl<'n> Quote<'n> {
    pub fn new(nbe: &'n Nbe) -> Quote<'n> {
        Quote { nbe }
    }
    fn fresh(&mut self) -> Id {
        self.nbe.fresh_id()
    }
    pub fn quote(&mut self, v: &V) -> R<Rc<C>> {
        self.nbe.tick()?;
        Ok(Rc::new(match v {
            V::Type => C::Type,
            V::Int => C::Int,
            V::Bool => C::Bool,
            V::True => C::True,
            V::False => C::False,
            V::Lit(x) => C::Lit(x.clone()),
            V::Lam(im, clo) => {
                let id = self.fresh();
                let b = self.nbe.inst(clo, var_val(id))?;
                // the domain is not part of definitional equality; read back a placeholder
                C::Lam(id, *im, Rc::new(C::Type), self.quote(&b)?)
            }
            V::Pi(im, d, clo) => {
                let dv = self.nbe.force(d)?;
                let dq = self.quote(&dv)?;
                let id = self.fresh();
                let b = self.nbe.inst(clo, var_val(id))?;
                C::Pi(id, *im, dq, self.quote(&b)?)
            }
            V::Stuck(s) => match &**s {
                Stuck::Var(id) => C::Var(*id),
                Stuck::Opaque(h) => C::Opaque(*h),
                Stuck::App(f, a) => {
                    let fq = self.quote(f)?;
                    let av = self.nbe.force(a)?;
                    C::App(fq, self.quote(&av)?)
                }
                Stuck::Neg(x) => C::Neg(self.quote(x)?),
                Stuck::Bin(op, x, y) => C::Bin(*op, self.quote(x)?, self.quote(y)?),
                Stuck::If(c, t, e) => {
                    let cq = self.quote(c)?;
                    let tv = self.nbe.force(t)?;
                    let ev = self.nbe.force(e)?;
                    C::If(cq, self.quote(&tv)?, self.quote(&ev)?)
                }
            },
        }))
    }
}

// Structural (alpha) comparison of two read-back terms ignoring lambda domains: equality of
// normal forms as the statement of C06 describes it.
pub fn alpha_eq(a: &C, b: &C, map: &mut Vec<(Id, Id)>) -> bool {
    match (a, b) {
        (C::Type, C::Type) | (C::Int, C::Int) | (C::Bool, C::Bool) | (C::True, C::True) | (C::False, C::False) => true,
        (C::Lit(x), C::Lit(y)) => x == y,
        (C::Opaque(x), C::Opaque(y)) => x == y,
        (C::Var(x), C::Var(y)) => {
            for (p, q) in map.iter().rev() {
                if p == x || q == y {
                    return p == x && q == y;
                }
            }
            x == y
        }
        (C::Lam(x, i1, _, b1), C::Lam(y, i2, _, b2)) => {
            i1 == i2 && {
                map.push((*x, *y));
                let r = alpha_eq(b1, b2, map);
                map.pop();
                r
            }
        }
        (C::Pi(x, i1, d1, b1), C::Pi(y, i2, d2, b2)) => {
            i1 == i2 && alpha_eq(d1, d2, map) && {
                map.push((*x, *y));
                let r = alpha_eq(b1, b2, map);
                map.pop();
                r
            }
        }
        (C::App(f1, a1), C::App(f2, a2)) => alpha_eq(f1, f2, map) && alpha_eq(a1, a2, map),
        (C::Neg(x), C::Neg(y)) => alpha_eq(x, y, map),
        (C::Bin(o1, x1, y1), C::Bin(o2, x2, y2)) => o1 == o2 && alpha_eq(x1, x2, map) && alpha_eq(y1, y2, map),
        (C::If(c1, t1, e1), C::If(c2, t2, e2)) => alpha_eq(c1, c2, map) && alpha_eq(t1, t2, map) && alpha_eq(e1, e2, map),
        _ => false,
    }
}
