// R-gram: chart parser (memoised all-derivations counting) driven by the productions read from
// $GRAM_REPO/grammar.y at run time, derivation extraction, derivation -> H mapping (A.3), random
// sentence generation, FIRST/LAST sets.
use crate::eterm::Op;
use crate::hast::{H, hb};
use crate::rtok::{ALL_TK, TK};
use crate::util::Rng;
use num_bigint::BigInt;
use std::collections::{BTreeSet, HashMap};

#[derive(Clone, Debug, PartialEq, Eq, Hash)]
pub enum Sym {
    T(String), // terminal (bison token name)
    N(usize),  // nonterminal index
}

pub struct Grammar {
    pub names: Vec<String>,          // nonterminal names
    pub alts: Vec<Vec<Vec<Sym>>>,    // alts[nt] = list of right-hand sides
    pub terminals: Vec<String>,
    pub start: usize,
    // items: (nt, alt, dot) flattened for dense memo tables
    item_base: Vec<Vec<usize>>,
    n_items: usize,
    pub min_len: Vec<usize>, // minimal sentence length per nonterminal
}

impl Grammar {
    pub fn load() -> Result<Grammar, String> {
        let path = format!("{}/grammar.y", crate::GRAM_REPO);
        let text = std::fs::read_to_string(&path).map_err(|e| format!("{path}: {e}"))?;
        Grammar::parse(&text)
    }

    pub fn parse(text: &str) -> Result<Grammar, String> {
        // strip /* */ comments
        let mut s = String::new();
        let mut rest = text;
        while let Some(i) = rest.find("/*") {
            s.push_str(&rest[..i]);
            match rest[i..].find("*/") {
                Some(j) => rest = &rest[i + j + 2..],
                None => {
                    rest = "";
                    break;
                }
            }
        }
        s.push_str(rest);
        let parts: Vec<&str> = s.split("%%").collect();
        if parts.len() < 2 {
            return Err("no %% separator".into());
        }
        let mut terminals = vec![];
        for line in parts[0].lines() {
            let l = line.trim();
            if let Some(r) = l.strip_prefix("%token") {
                for w in r.split_whitespace() {
                    terminals.push(w.to_owned());
                }
            }
        }
        // tokenise the rules section
        let mut toks: Vec<String> = vec![];
        let mut cur = String::new();
        for c in parts[1].chars() {
            if c.is_alphanumeric() || c == '_' || c == '%' {
                cur.push(c);
            } else {
                if !cur.is_empty() {
                    toks.push(std::mem::take(&mut cur));
                }
                if c == ':' || c == '|' || c == ';' {
                    toks.push(c.to_string());
                }
            }
        }
        if !cur.is_empty() {
            toks.push(cur);
        }
        // rule starts: word followed by ':'
        let mut starts = vec![];
        for i in 0..toks.len().saturating_sub(1) {
            if toks[i + 1] == ":" && toks[i] != ":" && toks[i] != "|" && toks[i] != ";" {
                starts.push(i);
            }
        }
        let names: Vec<String> = starts.iter().map(|&i| toks[i].clone()).collect();
        let idx: HashMap<&str, usize> = names.iter().enumerate().map(|(i, n)| (n.as_str(), i)).collect();
        let mut alts = vec![];
        for (k, &st) in starts.iter().enumerate() {
            let end = if k + 1 < starts.len() { starts[k + 1] } else { toks.len() };
            let mut rhs: Vec<Vec<Sym>> = vec![vec![]];
            for t in &toks[st + 2..end] {
                match t.as_str() {
                    "|" => rhs.push(vec![]),
                    ";" => {}
                    "%empty" => {}
                    w => {
                        let sym = if let Some(&n) = idx.get(w) {
                            Sym::N(n)
                        } else if terminals.iter().any(|t| t == w) {
                            Sym::T(w.to_owned())
                        } else {
                            return Err(format!("unknown symbol {w} in rule {}", names[k]));
                        };
                        rhs.last_mut().unwrap().push(sym);
                    }
                }
            }
            alts.push(rhs);
        }
        let start = *idx.get("term").ok_or("no `term` rule")?;
        let mut item_base = vec![];
        let mut n_items = 0;
        for a in &alts {
            let mut v = vec![];
            for r in a {
                v.push(n_items);
                n_items += r.len() + 1;
            }
            item_base.push(v);
        }
        // minimal lengths (fixpoint)
        let mut min_len = vec![usize::MAX / 4; names.len()];
        loop {
            let mut changed = false;
            for (n, a) in alts.iter().enumerate() {
                for r in a {
                    let mut l = 0usize;
                    for s in r {
                        l = l.saturating_add(match s {
                            Sym::T(_) => 1,
                            Sym::N(m) => min_len[*m],
                        });
                    }
                    if l < min_len[n] {
                        min_len[n] = l;
                        changed = true;
                    }
                }
            }
            if !changed {
                break;
            }
        }
        Ok(Grammar { names, alts, terminals, start, item_base, n_items, min_len })
    }

    pub fn nt(&self, name: &str) -> Option<usize> {
        self.names.iter().position(|n| n == name)
    }

    // FIRST and LAST terminal sets of a nonterminal (the grammar has one nullable nonterminal).
    pub fn first_last(&self, nt: usize) -> (BTreeSet<String>, BTreeSet<String>) {
        let nullable: Vec<bool> = self.min_len.iter().map(|l| *l == 0).collect();
        let compute = |rev: bool| {
            let mut sets: Vec<BTreeSet<String>> = vec![BTreeSet::new(); self.names.len()];
            loop {
                let mut changed = false;
                for (n, a) in self.alts.iter().enumerate() {
                    for r in a {
                        let it: Box<dyn Iterator<Item = &Sym>> = if rev { Box::new(r.iter().rev()) } else { Box::new(r.iter()) };
                        for s in it {
                            match s {
                                Sym::T(t) => {
                                    if sets[n].insert(t.clone()) {
                                        changed = true;
                                    }
                                    break;
                                }
                                Sym::N(m) => {
                                    let add: Vec<String> = sets[*m].iter().cloned().collect();
                                    for t in add {
                                        if sets[n].insert(t) {
                                            changed = true;
                                        }
                                    }
                                    if !nullable[*m] {
                                        break;
                                    }
                                }
                            }
                        }
                    }
                }
                if !changed {
                    break;
                }
            }
            sets
        };
        (compute(false)[nt].clone(), compute(true)[nt].clone())
    }
}

// ---------------------------------------------------------------------------------------------
// Chart

#[derive(Clone, Debug)]
pub enum Tree {
    Leaf(usize),                 // token position
    Node(usize, usize, Vec<Tree>), // (nonterminal, alternative, children)
}

pub struct Chart<'g> {
    g: &'g Grammar,
    seq: Vec<&'static str>, // bison terminal names
    n: usize,
    memo_nt: Vec<i64>,   // [nt][i][j]
    memo_item: Vec<i64>, // [item][i][j]
}

const CAP: i64 = 1_000_000;

impl<'g> Chart<'g> {
    pub fn new(g: &'g Grammar, kinds: &[TK]) -> Chart<'g> {
        let n = kinds.len();
        let seq: Vec<&'static str> = kinds.iter().map(|k| k.bison()).collect();
        let d = (n + 1) * (n + 1);
        Chart { g, seq, n, memo_nt: vec![-1; g.names.len() * d], memo_item: vec![-1; g.n_items * d] }
    }
    fn count_nt(&mut self, nt: usize, i: usize, j: usize) -> i64 {
        let d = self.n + 1;
        let key = nt * d * d + i * d + j;
        if self.memo_nt[key] >= 0 {
            return self.memo_nt[key];
        }
        if j - i < self.g.min_len[nt] {
            self.memo_nt[key] = 0;
            return 0;
        }
        // provisional 0 guards against cycles through unit productions (none are cyclic)
        self.memo_nt[key] = 0;
        let mut tot = 0i64;
        for a in 0..self.g.alts[nt].len() {
            tot = (tot + self.count_item(nt, a, 0, i, j)).min(CAP);
        }
        self.memo_nt[key] = tot;
        tot
    }
    // number of ways alts[nt][a][dot..] derives seq[i..j]
    fn count_item(&mut self, nt: usize, a: usize, dot: usize, i: usize, j: usize) -> i64 {
        let len = self.g.alts[nt][a].len();
        if dot == len {
            return i64::from(i == j);
        }
        let d = self.n + 1;
        let item = self.g.item_base[nt][a] + dot;
        let key = item * d * d + i * d + j;
        if self.memo_item[key] >= 0 {
            return self.memo_item[key];
        }
        let sym = self.g.alts[nt][a][dot].clone();
        let mut tot = 0i64;
        match sym {
            Sym::T(t) => {
                if i < j && self.seq[i] == t {
                    tot = self.count_item(nt, a, dot + 1, i + 1, j);
                }
            }
            Sym::N(m) => {
                if dot + 1 == len {
                    tot = self.count_nt(m, i, j);
                } else {
                    for k in i..=j {
                        let c = self.count_nt(m, i, k);
                        if c > 0 {
                            let r = self.count_item(nt, a, dot + 1, k, j);
                            tot = (tot + c.saturating_mul(r)).min(CAP);
                        }
                    }
                }
            }
        }
        self.memo_item[key] = tot;
        tot
    }
    pub fn derivations(&mut self) -> i64 {
        let (s, n) = (self.g.start, self.n);
        self.count_nt(s, 0, n)
    }
    pub fn tree(&mut self) -> Option<Tree> {
        let (s, n) = (self.g.start, self.n);
        if self.count_nt(s, 0, n) < 1 {
            return None;
        }
        Some(self.tree_nt(s, 0, n))
    }
    fn tree_nt(&mut self, nt: usize, i: usize, j: usize) -> Tree {
        for a in 0..self.g.alts[nt].len() {
            if self.count_item(nt, a, 0, i, j) > 0 {
                let mut kids = vec![];
                self.tree_item(nt, a, 0, i, j, &mut kids);
                return Tree::Node(nt, a, kids);
            }
        }
        unreachable!("tree_nt called without a derivation")
    }
    fn tree_item(&mut self, nt: usize, a: usize, dot: usize, i: usize, j: usize, kids: &mut Vec<Tree>) {
        let len = self.g.alts[nt][a].len();
        if dot == len {
            return;
        }
        match self.g.alts[nt][a][dot].clone() {
            Sym::T(_) => {
                kids.push(Tree::Leaf(i));
                self.tree_item(nt, a, dot + 1, i + 1, j, kids);
            }
            Sym::N(m) => {
                for k in i..=j {
                    if self.count_nt(m, i, k) > 0 && self.count_item(nt, a, dot + 1, k, j) > 0 {
                        let t = self.tree_nt(m, i, k);
                        kids.push(t);
                        self.tree_item(nt, a, dot + 1, k, j, kids);
                        return;
                    }
                }
                unreachable!("tree_item: no split")
            }
        }
    }
}

// ---------------------------------------------------------------------------------------------
// Derivation -> H (table keyed by production name, DESIGN.md A.3), before reassociation.

pub fn tree_to_h(g: &Grammar, t: &Tree, texts: &[String]) -> Result<H, String> {
    let Tree::Node(nt, alt, kids) = t else {
        return Err("leaf at nonterminal position".into());
    };
    let name = g.names[*nt].as_str();
    let leaf_text = |k: &Tree| -> Result<String, String> {
        match k {
            Tree::Leaf(p) => Ok(texts[*p].clone()),
            Tree::Node(..) => Err(format!("expected a token in {name}")),
        }
    };
    let sub = |i: usize| -> Result<H, String> { tree_to_h(g, kids.get(i).ok_or_else(|| format!("{name}: missing child {i}"))?, texts) };
    let bin = |op: Op| -> Result<H, String> { Ok(H::Bin(op, hb(sub(0)?), hb(sub(2)?))) };
    Ok(match name {
        "term" | "atom" | "small_term" | "medium_term" | "large_term" | "huge_term" | "giant_term" | "jumbo_term" => {
            let _ = alt;
            sub(0)?
        }
        "type" => H::Type,
        "integer" => H::Int,
        "boolean" => H::Bool,
        "true" => H::True,
        "false" => H::False,
        "integer_literal" => H::Lit(leaf_text(&kids[0])?.parse::<BigInt>().map_err(|e| e.to_string())?),
        "variable" => H::Var(leaf_text(&kids[0])?),
        "lambda" => H::Lam(leaf_text(&kids[0])?, false, None, hb(sub(2)?)),
        "lambda_implicit" => H::Lam(leaf_text(&kids[1])?, true, None, hb(sub(4)?)),
        "annotated_lambda" => H::Lam(leaf_text(&kids[1])?, false, Some(hb(sub(3)?)), hb(sub(6)?)),
        "annotated_lambda_implicit" => H::Lam(leaf_text(&kids[1])?, true, Some(hb(sub(3)?)), hb(sub(6)?)),
        "pi" => H::Pi(leaf_text(&kids[1])?, false, hb(sub(3)?), hb(sub(6)?)),
        "pi_implicit" => H::Pi(leaf_text(&kids[1])?, true, hb(sub(3)?), hb(sub(6)?)),
        "non_dependent_pi" => H::Pi("_".into(), false, hb(sub(0)?), hb(sub(2)?)),
        "application" => H::App(hb(sub(0)?), hb(sub(1)?)),
        "let" => {
            // IDENTIFIER let_annotation EQUALS term TERMINATOR term
            let ann = match &kids[1] {
                Tree::Node(_, _, k) if k.is_empty() => None,
                Tree::Node(_, _, k) => Some(hb(tree_to_h(g, &k[1], texts)?)),
                Tree::Leaf(_) => return Err("let_annotation leaf".into()),
            };
            H::Let(leaf_text(&kids[0])?, ann, hb(sub(3)?), hb(sub(5)?))
        }
        "negation" => H::Neg(hb(sub(1)?)),
        "sum" => bin(Op::Add)?,
        "difference" => bin(Op::Sub)?,
        "product" => bin(Op::Mul)?,
        "quotient" => bin(Op::Div)?,
        "less_than" => bin(Op::Lt)?,
        "less_than_or_equal_to" => bin(Op::Le)?,
        "equal_to" => bin(Op::Eq)?,
        "greater_than" => bin(Op::Gt)?,
        "greater_than_or_equal_to" => bin(Op::Ge)?,
        "if" => H::If(hb(sub(1)?), hb(sub(3)?), hb(sub(5)?)),
        "group" => H::Paren(hb(sub(1)?)),
        other => return Err(format!("no AST mapping for production {other}")),
    })
}

// ---------------------------------------------------------------------------------------------
// Random sentence generation from the grammar. Returns token kinds plus, for IDENTIFIER
// tokens, whether the token is in a binder position.

pub struct Sentence {
    pub kinds: Vec<TK>,
    pub binder: Vec<bool>,
}

fn tk_of_bison(name: &str, r: &mut Rng) -> TK {
    if name == "TERMINATOR" {
        return if r.chance(1, 3) { TK::LineBreak } else { TK::Semi };
    }
    ALL_TK.iter().copied().find(|k| k.bison() == name).unwrap_or(TK::Type)
}

pub fn random_sentence(g: &Grammar, r: &mut Rng, budget: usize) -> Sentence {
    let mut s = Sentence { kinds: vec![], binder: vec![] };
    gen_nt(g, g.start, budget as i64, r, &mut s, &mut 0);
    s
}

// A "near sentence": derived like a sentence, except that at one random point a different
// precedence level (or `term`) is expanded in place of the nonterminal the grammar asks for.
// The result may or may not be a sentence; the chart parser decides. Aimed at parse functions
// that call the sub-parser of the wrong level.
pub fn confused_sentence(g: &Grammar, r: &mut Rng, budget: usize) -> Sentence {
    let mut s = Sentence { kinds: vec![], binder: vec![] };
    let mut countdown = 1 + r.below(12) as i64;
    gen_nt(g, g.start, budget as i64, r, &mut s, &mut countdown);
    s
}

const LEVELS: [&str; 9] = ["term", "jumbo_term", "giant_term", "huge_term", "large_term", "medium_term", "small_term", "atom", "let"];

fn gen_nt(g: &Grammar, nt: usize, budget: i64, r: &mut Rng, out: &mut Sentence, confuse: &mut i64) {
    let mut nt = nt;
    if *confuse > 0 && LEVELS.contains(&g.names[nt].as_str()) {
        *confuse -= 1;
        if *confuse == 0 {
            // swap in another level exactly once
            let other = LEVELS[r.usize(LEVELS.len())];
            if let Some(o) = g.nt(other) {
                nt = o;
            }
            *confuse = -1;
        }
    }
    let alts = &g.alts[nt];
    // minimal length of each alternative
    let lens: Vec<usize> = alts
        .iter()
        .map(|a| a.iter().map(|s| match s { Sym::T(_) => 1, Sym::N(m) => g.min_len[*m] }).sum())
        .collect();
    let fitting: Vec<usize> = (0..alts.len()).filter(|&i| (lens[i] as i64) <= budget).collect();
    let a = if fitting.is_empty() {
        (0..alts.len()).min_by_key(|&i| lens[i]).unwrap()
    } else {
        fitting[r.usize(fitting.len())]
    };
    let name = g.names[nt].as_str();
    let rhs = &alts[a];
    let nsyms = rhs.iter().filter(|s| matches!(s, Sym::N(_))).count().max(1) as i64;
    let spare = (budget - lens[a] as i64).max(0);
    for (pos, s) in rhs.iter().enumerate() {
        match s {
            Sym::T(t) => {
                let k = tk_of_bison(t, r);
                out.kinds.push(k);
                let is_binder = k == TK::Identifier
                    && matches!((name, pos), ("lambda", 0) | ("lambda_implicit", 1) | ("annotated_lambda", 1) | ("annotated_lambda_implicit", 1) | ("pi", 1) | ("pi_implicit", 1) | ("let", 0));
                out.binder.push(is_binder);
            }
            Sym::N(m) => {
                let share = g.min_len[*m] as i64 + if nsyms == 1 { spare } else { r.range(0, spare.max(0)) * 2 / nsyms.max(1) };
                gen_nt(g, *m, share, r, out, confuse);
            }
        }
    }
}
