// C04 - a program's value inhabits the type reported for the program.
// Oracle: (1) shape: weak-head normal form of the reported type against the head of the value;
// (2) full: R-core infers a type for the closed value term and compares it with the reported type.
use crate::core::{Nbe, V};
use crate::fw::{Ctx, Plan, Prop, Tier, sec};
use crate::gen_prog::{Mode, gen_program};
use crate::pipe::{Front, Obs, Opts, Run, observe};
use crate::printer::{Style, print};
use crate::typed::{D3_KEY, NBE_FUEL, d3_applicable, has_source_holes, rcore_eval_closed, rcore_infer};
use crate::util::{Json, Rng, clip, hash_str};

pub struct C04P;
pub static C04: C04P = C04P;

fn viol(ctx: &mut Ctx, key: &str, what: &str, src: &str, obs: &Obs) {
    ctx.violation(key, what, Json::obj().set("source", Json::s(&clip(src, 3000))).set("reported_type", Json::s(&clip(&obs.ty_text, 600))));
}

pub fn check_program(ctx: &mut Ctx, src: &str, holes: bool) {
    ctx.eval();
    let obs = observe(src, &[], &Opts::run(crate::props::c01::max_steps(ctx.tier)));
    if !matches!(obs.front, Front::Accepted) {
        ctx.count("not-accepted");
        return;
    }
    let Run::Value { value, text, .. } = &obs.run else {
        ctx.count("no-value");
        return;
    };
    let Some(ty) = &obs.ty else { return };
    let nbe = Nbe::new(NBE_FUEL);
    let tv = match rcore_eval_closed(&nbe, ty) {
        Ok(v) => v,
        Err(crate::core::Fail::Fuel) => {
            ctx.inconclusive("reference-fuel");
            return;
        }
        Err(_) => {
            ctx.count("reported-type-not-evaluable(C03)");
            return;
        }
    };
    let vhead = value.zonk();
    let vh = vhead.kind();
    let th = nbe.head(&tv);
    ctx.count(&format!("type-head/value-head:{th}/{vh}"));
    ctx.nontrivial(hash_str(src));
    let shape_ok = match &tv {
        V::Int => matches!(vhead, crate::eterm::E::Lit(_)),
        V::Bool => matches!(vhead, crate::eterm::E::True | crate::eterm::E::False),
        V::Pi(im, ..) => matches!(&vhead, crate::eterm::E::Lam(_, im2, ..) if im == im2),
        V::Type => matches!(vhead, crate::eterm::E::Type | crate::eterm::E::Int | crate::eterm::E::Bool | crate::eterm::E::Pi(..)),
        _ => true, // neutral reported types (type variables cannot occur in closed programs; holes can)
    };
    // D3 (a) also strikes at run time: the evaluator's substitution replaces every occurrence of
    // an unresolved hole by its own fresh cell, so one unknown becomes several in the value
    let blame_d3 = d3_applicable(holes, &obs) || (holes && obs.eval_open_unresolved > 0 && value.zonk().has_unsolved_hole());
    if !shape_ok {
        let key = if blame_d3 { D3_KEY.to_owned() } else { format!("value-shape:{th}/{vh}") };
        viol(ctx, &key, &format!("the program has type `{}` but evaluates to `{}`", clip(&obs.ty_text, 200), clip(text, 200)), src, &obs);
        return;
    }
    // full check: the value itself has the reported type
    match rcore_infer(&nbe, value) {
        Ok(j) => match nbe.conv(&j.ty, &tv) {
            Ok(true) => ctx.count("values-checked-against-reported-type"),
            Ok(false) => {
                let key = if blame_d3 { D3_KEY.to_owned() } else { "value-type-differs".to_owned() };
                viol(ctx, &key, &format!("the value `{}` has a type with head `{}` by the reference checker, the program's reported type is `{}`", clip(text, 200), nbe.head(&j.ty), clip(&obs.ty_text, 200)), src, &obs);
            }
            Err(_) => ctx.inconclusive("reference-fuel"),
        },
        Err(crate::core::Fail::Fuel) => ctx.inconclusive("reference-fuel"),
        Err(e) => {
            let key = if blame_d3 { D3_KEY.to_owned() } else { "value-ill-typed".to_owned() };
            viol(ctx, &key, &format!("the value `{}` is not well typed by the reference checker: {e:?}", clip(text, 300)), src, &obs);
        }
    }
    if ctx.idx % 211 == 0 {
        ctx.sample(Json::obj().set("source", Json::s(&clip(src, 160))).set("type", Json::s(&clip(&obs.ty_text, 80))).set("value", Json::s(&clip(text, 80))));
    }
}

impl Prop for C04P {
    fn id(&self) -> &'static str {
        "C04"
    }
    fn plan(&self, tier: Tier, _seed: u64) -> Plan {
        let mut p = Plan::new(
            vec![sec("pinned", 200), sec("explicit-programs", tier.pick(45_000, 300_000)), sec("inferred-programs", tier.pick(30_000, 200_000)), sec("perturbed-programs", tier.pick(40_000, 400_000)), sec("near-miss-coercions", tier.pick(40_000, 400_000))],
            "accepted generated programs (explicit and inferred; result types int, bool, type, function and polymorphic function types, types computed by type-level functions/conditionals/definitions) the corpus, single-point perturbations and scope-aware edits of generated programs, and near-miss coercions whose result is the coerced value itself (whatever the checker still accepts) are run; when a value is produced its head is compared with the head of the reported type and the value term is type checked by the reference checker against the reported type; non-trivial = distinct program that produced a value",
        );
        p.assumptions = vec!["R-core is the typing reference (DESIGN.md A.5/A.6); reference fuel exhaustion is inconclusive".into()];
        p.floor_evaluations = 10_000;
        p.floor_nontrivial = 5_000;
        p.case_timeout_s = 30;
        p
    }
    fn run_case(&self, ctx: &mut Ctx, section: &str, idx: u64) {
        match section {
            "pinned" => {
                let mut progs = crate::corpus::witnesses(&ctx.known_witnesses());
                progs.extend(crate::corpus::all());
                if let Some(p) = progs.get(idx as usize) {
                    if p.contains("omega") {
                        return;
                    }
                    let holes = crate::props::c07::parse_to_h(p).map_or(true, |h| has_source_holes(&h));
                    check_program(ctx, p, holes);
                }
            }
            "near-miss-coercions" => {
                let mut r = Rng::for_case(ctx.seed, 6, idx);
                let c = crate::coerce::gen_any(&mut r, false);
                let src = print(&c.h, &Style::varied(&mut r), idx).text;
                check_program(ctx, &src, false);
            }
            "perturbed-programs" => {
                // the property quantifies over accepted programs: a checker that lets an ill-typed
                // program through shows here as a value outside the reported type
                let mut r = Rng::for_case(ctx.seed, 3, idx);
                let mode = if idx % 2 == 0 { Mode::Explicit } else { Mode::Inferred };
                let h = if idx % 5 == 4 {
                    let Some(p) = crate::gen_prog::gen_trap_program(&mut r, mode) else { return };
                    p.h
                } else {
                    let p = gen_program(&mut r, mode);
                    let Some((m, _)) = crate::perturb::perturb_or_edit(&p.h, &mut r) else { return };
                    m
                };
                let src = print(&h, &Style::varied(&mut r), idx).text;
                check_program(ctx, &src, has_source_holes(&h));
            }
            _ => {
                let explicit = section == "explicit-programs";
                let mut r = Rng::for_case(ctx.seed, if explicit { 1 } else { 2 }, idx);
                let p = gen_program(&mut r, if explicit { Mode::Explicit } else { Mode::Inferred });
                let src = print(&p.h, &Style::varied(&mut r), idx).text;
                check_program(ctx, &src, has_source_holes(&p.h));
            }
        }
    }
    fn describe(&self, _tier: Tier, seed: u64, section: &str, idx: u64) -> String {
        if section == "pinned" {
            return String::new();
        }
        if section == "near-miss-coercions" {
            let mut r = Rng::for_case(seed, 6, idx);
            let c = crate::coerce::gen_any(&mut r, false);
            return print(&c.h, &Style::varied(&mut r), idx).text;
        }
        if section == "perturbed-programs" {
            let mut r = Rng::for_case(seed, 3, idx);
            let mode = if idx % 2 == 0 { Mode::Explicit } else { Mode::Inferred };
            let h = if idx % 5 == 4 {
                match crate::gen_prog::gen_trap_program(&mut r, mode) {
                    Some(p) => p.h,
                    None => return String::new(),
                }
            } else {
                let p = gen_program(&mut r, mode);
                match crate::perturb::perturb_or_edit(&p.h, &mut r) {
                    Some((m, _)) => m,
                    None => return String::new(),
                }
            };
            return print(&h, &Style::varied(&mut r), idx).text;
        }
        let explicit = section == "explicit-programs";
        let mut r = Rng::for_case(seed, if explicit { 1 } else { 2 }, idx);
        let p = gen_program(&mut r, if explicit { Mode::Explicit } else { Mode::Inferred });
        print(&p.h, &Style::varied(&mut r), idx).text
    }
}
