// C02 - running a program yields the value the language semantics prescribes.
// Oracle: R-eval (environment/closure big-step CBV interpreter on the source AST) against the
// literal produced by driving gram's step on the elaborated term; non-ground results are
// compared by the reference's definitional equality between program and value. An exhaustive
// operator x operand table and planted effects (division by zero in evaluated / unevaluated
// positions) pin arithmetic and evaluation order.
use crate::core::Nbe;
use crate::eterm::{ALL_OPS, Op};
use crate::fw::{Ctx, Plan, Prop, Tier, sec, sec_ex};
use crate::gen_prog::{GT, Mode, Program, gen_program, gen_program_of};
use crate::hast::{H, hb, resolve};
use crate::pipe::{Front, Obs, Opts, Run, StuckClass, observe};
use crate::printer::{Style, print};
use crate::reval::{EV, Stop};
use crate::typed::{NBE_FUEL, ValueCmp, compare_values, has_source_holes, rcore_eval_closed, ref_run, run_name};
use crate::util::{Json, Rng, clip, hash_str};
use num_bigint::BigInt;

pub struct C02P;
pub static C02: C02P = C02P;

const REF_FUEL: u64 = 3_000;

fn viol(ctx: &mut Ctx, key: &str, what: &str, src: &str) {
    ctx.violation(key, what, Json::obj().set("source", Json::s(&clip(src, 3000))));
}

pub fn check_program(ctx: &mut Ctx, h: &H, src: &str, tag: &str) {
    ctx.eval();
    // reference first: its reduction count sets gram's step budget (a logical bound)
    let Some(rr) = ref_run(h, REF_FUEL) else {
        ctx.count("reference:not-runnable");
        return;
    };
    let budget = 20 * rr.reductions + 200;
    let obs = observe(src, &[], &Opts::run(budget));
    if !matches!(obs.front, Front::Accepted) {
        ctx.count(&format!("{tag}:not-accepted"));
        return;
    }
    ctx.max("max_reference_reductions", rr.reductions);
    ctx.max("max_reference_depth", rr.depth as u64);
    match (&rr.outcome, &obs.run) {
        (Err(Stop::Fuel | Stop::Depth), _) => ctx.inconclusive("reference-fuel"),
        (Err(Stop::NotAvailable(_) | Stop::Stuck(_)), _) => {
            // the semantics itself gets stuck: that is C01's subject (or an ill-typed program)
            ctx.count("reference:stuck(C01)");
        }
        // gram gets stuck although the semantics prescribes a value: for hole-free programs that is
        // this property's business as well (no value is produced); with holes it is left to C01,
        // where the recorded findings about holes are told apart
        (Ok(rv), Run::Stuck { class, term, .. }) if *class != StuckClass::DivByZero && !has_source_holes(h) => {
            viol(ctx, "stuck-where-a-value-is-prescribed", &format!("the semantics gives `{}` but gram's evaluation is stuck on {term}", crate::reval::head(rv)), src);
        }
        (_, Run::Stuck { class, .. }) if *class != StuckClass::DivByZero => ctx.count("gram-stuck(C01)"),
        (Ok(rv), Run::Value { value, text, steps }) => {
            ctx.nontrivial(hash_str(src));
            if rr.reductions > 0 {
                ctx.max("steps_per_reduction_x100", steps * 100 / rr.reductions);
            }
            match compare_values(rv, value) {
                ValueCmp::Equal => {
                    ctx.count(&format!("compared:{}", crate::reval::head(rv)));
                    if let EV::Lit(v) = rv {
                        ctx.max("max_result_bits", v.bits());
                    }
                }
                ValueCmp::Different(m) => viol(ctx, "wrong-value", &m, src),
                ValueCmp::NotComparedFunction => {
                    // program and value must be definitionally equal for the reference
                    let nbe = Nbe::new(NBE_FUEL);
                    if let (Ok(pe), true) = (resolve(h, &[]), !has_source_holes(h)) {
                        match (rcore_eval_closed(&nbe, &pe), rcore_eval_closed(&nbe, value)) {
                            (Ok(a), Ok(b)) => match nbe.conv(&a, &b) {
                                Ok(true) => {
                                    ctx.count("compared:function-by-conversion");
                                    // what `gram run` prints is the text of that value: read back, it
                                    // must denote the same function (texts that do not read back at
                                    // all are C16's subject)
                                    let back = crate::fw::guard(|| {
                                        let toks = crate::tokenizer::tokenize(None, text).ok()?;
                                        let t2 = crate::parser::parse(None, text, &toks[..], &[]).ok()?;
                                        Some(crate::eterm::mirror(&t2))
                                    });
                                    match back {
                                        Ok(Some(e2)) if !e2.has_hole() => match rcore_eval_closed(&nbe, &e2).map(|c| nbe.conv(&b, &c)) {
                                            Ok(Ok(true)) => ctx.count("printed-function-value-reads-back-equal"),
                                            Ok(Ok(false)) => viol(ctx, "printed-function-value-denotes-another-function", &format!("the printed value `{}` reads back as a function that is not definitionally equal to the value", clip(text, 300)), src),
                                            _ => ctx.count("printed-function-value:not-compared"),
                                        },
                                        _ => ctx.count("printed-function-value:does-not-read-back(C16)"),
                                    }
                                }
                                Ok(false) => viol(ctx, "wrong-function-value", &format!("the value `{}` is not definitionally equal to the program", clip(text, 300)), src),
                                Err(_) => ctx.inconclusive("reference-fuel"),
                            },
                            _ => ctx.inconclusive("reference-fuel"),
                        }
                    } else {
                        ctx.count("compared:function-head-only");
                    }
                }
            }
        }
        (Ok(rv), Run::StillRunning { steps }) => {
            viol(ctx, "still-running-past-bound", &format!("the semantics gives `{}` after {} reductions but gram is still running after {steps} steps", crate::reval::head(rv), rr.reductions), src);
        }
        (Ok(rv), Run::Stuck { term, .. }) => {
            viol(ctx, "division-by-zero-not-prescribed", &format!("the semantics gives `{}` but gram stopped on a division by zero: {term}", crate::reval::head(rv)), src);
        }
        (Err(Stop::DivByZero), Run::Stuck { .. }) => {
            ctx.count("compared:division-by-zero");
            ctx.nontrivial(hash_str(src));
        }
        (Err(Stop::DivByZero), other) => {
            viol(ctx, "missed-division-by-zero", &format!("the semantics stops on a division by zero but gram's run ended as {}", run_name(other)), src);
        }
        (_, Run::Panic(m)) => viol(ctx, &format!("evaluator-panic@{}", crate::fw::panic_site(m)), m, src),
        (_, Run::NotRun) => {}
    }
    if ctx.idx % 157 == 0 {
        ctx.sample(Json::obj().set("source", Json::s(&clip(src, 200))).set("reference", Json::s(&match &rr.outcome { Ok(v) => crate::reval::head(v).to_owned(), Err(e) => format!("{e:?}") })).set("gram", Json::s(run_name(&obs.run))));
    }
}

pub fn operand(i: usize) -> H {
    let big = |sh: u32, add: i64, neg: bool| {
        let v = (BigInt::from(1u8) << sh) + BigInt::from(add);
        if neg { H::Neg(hb(H::Lit(v))) } else { H::Lit(v) }
    };
    match i {
        0 => H::lit(0),
        1 => H::lit(1),
        2 => H::lit(2),
        3 => H::lit(3),
        4 => H::Neg(hb(H::lit(1))),
        5 => H::Neg(hb(H::lit(2))),
        6 => H::Neg(hb(H::lit(3))),
        7 => big(63, 0, false),
        8 => big(63, 0, true),
        9 => big(64, 0, false),
        10 => big(64, 0, true),
        11 => big(64, 1, false),
        12 => big(64, 1, true),
        13 => H::lit(7),
        14 => H::Neg(hb(H::lit(7))),
        15 => big(200, 12345, false),
        16 => big(200, 12345, true),
        // the edges of the machine integer types
        17 => big(63, -1, false),
        18 => big(63, -1, true),
        19 => big(31, 0, false),
        20 => big(31, 0, true),
        21 => big(32, -1, false),
        22 => big(63, 1, true),
        23 => big(127, 0, false),
        24 => big(127, 0, true),
        25 => big(127, -1, false),
        _ => big(128, 0, true),
    }
}

pub const NOPER: usize = 27;

// Programs whose effect (division by zero) sits in an evaluated or unevaluated position.
fn planted(p: &H, k: u64) -> (H, &'static str) {
    let dz = || H::Bin(Op::Div, hb(H::lit(1)), hb(H::lit(0)));
    let int = || Some(hb(H::Int));
    match k % 8 {
        0 => (H::If(hb(H::True), hb(p.clone()), hb(dz())), "unchosen-else-branch"),
        1 => (H::If(hb(H::False), hb(dz()), hb(p.clone())), "unchosen-then-branch"),
        2 => (H::App(hb(H::Lam("unused".into(), false, int(), hb(p.clone()))), hb(dz())), "unused-argument-is-evaluated"),
        3 => (H::Let("unused".into(), int(), hb(dz()), hb(p.clone())), "unused-definition-is-evaluated"),
        4 => (H::App(hb(H::Lam("thunk".into(), false, Some(hb(H::Pi("_".into(), false, hb(H::Int), hb(H::Int)))), hb(p.clone()))), hb(H::Lam("u".into(), false, int(), hb(dz())))), "function-body-not-evaluated"),
        5 => (H::Let("first".into(), int(), hb(p.clone()), hb(H::Let("second".into(), int(), hb(dz()), hb(H::var("first"))))), "later-definition-is-evaluated"),
        6 => (H::Bin(Op::Add, hb(p.clone()), hb(dz())), "right-operand-after-left"),
        _ => (H::If(hb(H::Bin(Op::Lt, hb(H::lit(1)), hb(H::lit(2)))), hb(p.clone()), hb(dz())), "computed-condition"),
    }
}

fn edited(seed: u64, idx: u64) -> Option<(H, String)> {
    let mut r = Rng::for_case(seed, 4, idx);
    let p = crate::gen_prog::gen_program_without_rec_families(&mut r, if idx % 3 == 0 { Mode::Inferred } else { Mode::Explicit });
    let (m, _) = crate::edit::edits(&p.h, &mut r)?;
    let src = print(&m, &Style::varied(&mut r), idx).text;
    Some((m, src))
}

impl Prop for C02P {
    fn id(&self) -> &'static str {
        "C02"
    }
    fn plan(&self, tier: Tier, _seed: u64) -> Plan {
        let mut p = Plan::new(
            vec![
                sec("pinned", 200),
                sec_ex("operator-table", (9 * NOPER * NOPER) as u64),
                sec("explicit-programs", tier.pick(36_000, 250_000)),
                sec("inferred-programs", tier.pick(18_000, 120_000)),
                sec("planted-effects", tier.pick(10_000, 80_000)),
                sec("edited-programs", tier.pick(30_000, 250_000)),
            ],
            "generated explicit and inferred programs (integers beyond 64 and 200 bits, recursion, mutual recursion, groups of 1-5 definitions, higher-order and polymorphic functions) run by gram and by an environment-based call-by-value reference interpreter on the source AST; every arithmetic and comparison operator on every pair of 27 operands (0, +-1..3, +-7, +-2^31, 2^32-1, +-(2^63-1), +-2^63, -(2^63+1), +-2^64, +-(2^64+1), +-2^127, 2^127-1, -2^128, +-(2^200+12345)); int programs wrapped so that a division by zero sits in an evaluated or an unevaluated position (8 placements); programs after 1-3 scope-aware edits (another variable in scope, neighbouring literals, operators of the same class, mirrored comparisons, swapped branches, subterms named in local groups of one or two definitions, definitions and applied binders put around a node), whatever the checker still accepts; gram's step budget is 20 x reference reductions + 200; non-trivial = distinct program on which both sides produced an outcome that was compared",
        );
        p.assumptions = vec![
            "R-eval (harness/src/reval.rs) is the semantics of DESIGN.md A.7; truncating division is derived from unsigned magnitudes".into(),
            "programs on which the reference itself gets stuck or gram gets stuck for another reason than division by zero are C01's subject".into(),
        ];
        p.floor_evaluations = 10_000;
        p.floor_nontrivial = 5_000;
        p.case_timeout_s = 30;
        p
    }
    fn run_case(&self, ctx: &mut Ctx, section: &str, idx: u64) {
        match section {
            "pinned" => {
                let mut progs = crate::corpus::witnesses(&ctx.known_witnesses());
                progs.extend(crate::corpus::all());
                if let Some(p) = progs.get(idx as usize) {
                    if p.contains("omega") || p.contains("factorial 30") {
                        return;
                    }
                    if let Some(h) = crate::props::c07::parse_to_h(p) {
                        check_program(ctx, &h, p, "corpus");
                    }
                }
            }
            "operator-table" => {
                let op = ALL_OPS[(idx as usize) / (NOPER * NOPER)];
                let a = operand((idx as usize / NOPER) % NOPER);
                let b = operand(idx as usize % NOPER);
                let h = H::Bin(op, hb(a), hb(b));
                let src = print(&h, &Style::plain(), 0).text;
                ctx.count(&format!("operator:{}", op.text()));
                check_program(ctx, &h, &src, "table");
            }
            "explicit-programs" | "inferred-programs" => {
                let explicit = section == "explicit-programs";
                let mut r = Rng::for_case(ctx.seed, if explicit { 1 } else { 2 }, idx);
                let p = gen_program(&mut r, if explicit { Mode::Explicit } else { Mode::Inferred });
                let src = print(&p.h, &Style::varied(&mut r), idx).text;
                check_program(ctx, &p.h, &src, if explicit { "explicit" } else { "inferred" });
            }
            "edited-programs" => {
                let Some((m, src)) = edited(ctx.seed, idx) else { return };
                check_program(ctx, &m, &src, "edited");
            }
            "planted-effects" => {
                let mut r = Rng::for_case(ctx.seed, 3, idx);
                let p = gen_program_of(&mut r, Mode::Explicit, &GT::Int);
                let (h, placement) = planted(&p.h, idx);
                ctx.count(&format!("placement:{placement}"));
                let src = print(&h, &Style::varied(&mut r), idx).text;
                check_program(ctx, &h, &src, "planted");
            }
            _ => {}
        }
    }
    fn describe(&self, _tier: Tier, seed: u64, section: &str, idx: u64) -> String {
        match section {
            "edited-programs" => edited(seed, idx).map_or(String::new(), |x| x.1),
            "explicit-programs" | "inferred-programs" => {
                let explicit = section == "explicit-programs";
                let mut r = Rng::for_case(seed, if explicit { 1 } else { 2 }, idx);
                let p = gen_program(&mut r, if explicit { Mode::Explicit } else { Mode::Inferred });
                print(&p.h, &Style::varied(&mut r), idx).text
            }
            _ => String::new(),
        }
    }
}
