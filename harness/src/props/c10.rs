// C10 - comments, spacing and line layout do not change a program's meaning.
// Oracle: metamorphic re-layout of a token sequence under the layout rule of DESIGN.md A.2
// (token stream and parse result must not change), an exhaustive token-kind bigram x filler
// table judged by the rule, and R-tok equality on all short strings over a layout alphabet.
use crate::eterm::mirror;
use crate::fw::{Ctx, Plan, Prop, Tier, guard, panic_site, sec, sec_ex};
use crate::parser::parse;
use crate::props::c09;
use crate::rtok::{self, ALL_TK, TK, can_end, can_start, kind_of};
use crate::token;
use crate::tokenizer::tokenize;
use crate::util::{Json, Rng, clip, hash_str};

pub struct C10P;
pub static C10: C10P = C10P;

pub const LAYOUT_ALPHABET: [&str; 13] = ["x", "1", "(", ")", "+", ";", "#", "\n", " ", "é", "=", "-", "\r"];
const BLOCK: u64 = 4096;
const LAYOUTS_PER_PROGRAM: u64 = 20;

const FILLERS: [&str; 19] = [
    " ", "\n", "\n\n", "#c\n", "#\n", "# é\n", "#\u{1d465}\n", " \n ", "\r\n", "#a\r\n", "\t#\n\n#\n", "", "\t", "#;\n", "\u{a0}", "\u{3000}", "\u{b}", "#a\rb\n",
    "# x\r+ 1\n",
];

fn maxlen(tier: Tier) -> u32 {
    tier.pick(6, 7)
}

#[derive(Clone, Debug, PartialEq)]
pub enum Item {
    Real(TK, String),
    Term,
}

// Abstract stream of a text according to the specification tokenizer.
pub fn abstract_stream(src: &str) -> Option<Vec<Item>> {
    let toks = rtok::rtok(src).ok()?;
    Some(
        toks.iter()
            .map(|t| if t.kind.is_terminator() { Item::Term } else { Item::Real(t.kind, src[t.start..t.end].to_owned()) })
            .collect(),
    )
}

fn needs_sep(a: &str, b: &str) -> bool {
    let joined = format!("{a}{b}");
    let lx = rtok::lex(&joined);
    !(lx.unexpected.is_empty() && lx.toks.len() == 2 && lx.toks[0].end == a.len())
}

fn blank_piece(r: &mut Rng, allow_lf: bool, at_eof: bool, ctx: &mut Ctx) -> String {
    let mut s = String::new();
    let n = r.usize(4);
    for _ in 0..n {
        match r.below(if allow_lf { 9 } else { 4 }) {
            0 if r.chance(1, 6) => {
                // white space beyond ASCII (and the ASCII ones that are easy to forget)
                s.push(['\u{a0}', '\u{3000}', '\u{2003}', '\u{b}', '\u{c}', '\u{1680}'][r.usize(6)]);
                ctx.count("filler:unusual-white-space");
            }
            0 => s.push(' '),
            1 => s.push('\t'),
            2 => s.push_str("  "),
            3 => s.push('\r'),
            4 => {
                s.push('\n');
                ctx.count("filler:line-break");
            }
            5 => {
                s.push_str("#\n");
                ctx.count("filler:empty-comment");
            }
            6 => {
                s.push_str(["# note\n", "#x = 1; y\n", "# ( + ;\n", "# a\rb\n", "# was 4, then\r+ 1\n", "#\r\n"][r.usize(6)]);
                ctx.count("filler:ascii-comment");
            }
            7 => {
                s.push_str(["# é\n", "#é\n", "# \u{20ac}\n", "#\u{1d465}\n", "# ok \u{1f600}\n"][r.usize(5)]);
                ctx.count("filler:multibyte-comment");
            }
            _ => {
                s.push_str("\n\n\n");
                ctx.count("filler:several-line-breaks");
            }
        }
    }
    if at_eof && r.chance(1, 3) {
        s.push_str(["#", "# end", "#é", "# \u{1d465}"][r.usize(4)]);
        ctx.count("filler:comment-at-eof");
    }
    s
}

// Render one layout of an abstract stream. Returns the text and the expected abstract stream
// (identical to the input by construction of the rule).
pub fn render_layout(items: &[Item], r: &mut Rng, ctx: &mut Ctx) -> String {
    // 1. decide how each Term is rendered
    #[derive(Clone)]
    enum Conc {
        Tok(TK, String),
        LfTerm,
    }
    let mut conc: Vec<Conc> = vec![];
    for (i, it) in items.iter().enumerate() {
        match it {
            Item::Real(k, t) => conc.push(Conc::Tok(*k, t.clone())),
            Item::Term => {
                let prev_ok = i > 0 && matches!(&items[i - 1], Item::Real(k, _) if can_end(*k));
                let next_ok = i + 1 < items.len() && matches!(&items[i + 1], Item::Real(k, _) if can_start(*k));
                if prev_ok && next_ok && r.chance(1, 2) {
                    conc.push(Conc::LfTerm);
                    ctx.count("terminator-rendered-as-line-break");
                } else {
                    conc.push(Conc::Tok(TK::Semi, ";".into()));
                    ctx.count("terminator-rendered-as-semicolon");
                }
            }
        }
    }
    // 2. fill the gaps
    let mut out = String::new();
    out.push_str(&blank_piece(r, true, false, ctx));
    let mut prev: Option<(TK, String)> = None;
    let mut pending_lf_term = false;
    for c in &conc {
        match c {
            Conc::LfTerm => pending_lf_term = true,
            Conc::Tok(k, t) => {
                if let Some((pk, pt)) = &prev {
                    if pending_lf_term {
                        let mut f = blank_piece(r, true, false, ctx);
                        if !f.contains('\n') {
                            f.push('\n');
                            f.push_str(&blank_piece(r, true, false, ctx));
                        }
                        out.push_str(&f);
                    } else {
                        // `}` followed by a token that can start an expression is a don't-care of the rule: keep it on one line
                        let lf_ok = !(can_end(*pk) && can_start(*k)) && !(*pk == TK::RightCurly && can_start(*k));
                        let mut f = blank_piece(r, lf_ok, false, ctx);
                        if f.is_empty() && needs_sep(pt, t) {
                            f.push(' ');
                        }
                        if f.contains('\n') {
                            ctx.count("line-break-inside-expression");
                        }
                        out.push_str(&f);
                    }
                }
                pending_lf_term = false;
                out.push_str(t);
                prev = Some((*k, t.clone()));
            }
        }
    }
    out.push_str(&blank_piece(r, true, true, ctx));
    out
}

fn gram_abstract(src: &str) -> Result<Result<Vec<Item>, usize>, String> {
    guard(|| match tokenize(None, src) {
        Ok(ts) => Ok(ts
            .iter()
            .map(|t| {
                let k = kind_of(&t.variant);
                if k.is_terminator() { Item::Term } else { Item::Real(k, src[t.source_range.start.min(src.len())..t.source_range.end.min(src.len())].to_owned()) }
            })
            .collect()),
        Err(es) => Err(es.len()),
    })
}

fn parse_mirror(src: &str) -> Result<Result<crate::eterm::E, usize>, String> {
    guard(|| {
        let ts = match tokenize(None, src) {
            Ok(t) => t,
            Err(e) => return Err(e.len()),
        };
        match parse(None, src, &ts[..], &[]) {
            Ok(t) => Ok(mirror(&t)),
            Err(e) => Err(e.len().max(1)),
        }
    })
}

fn show_items(v: &[Item]) -> String {
    v.iter().map(|i| match i { Item::Term => "TERM".to_owned(), Item::Real(k, t) => if matches!(k, TK::Identifier | TK::IntegerLiteral) { t.clone() } else { k.text().to_owned() } }).collect::<Vec<_>>().join(" ")
}

fn viol(ctx: &mut Ctx, key: &str, what: &str, base: &str, layout: &str) {
    ctx.violation(key, what, Json::obj().set("base", Json::s(&clip(base, 1500))).set("layout", Json::s(&clip(layout, 2500))).set("layout_hex", Json::s(&crate::util::hex(&layout.as_bytes()[..layout.len().min(400)]))));
}

// Check LAYOUTS_PER_PROGRAM layouts of one base text.
pub fn check_program(ctx: &mut Ctx, base: &str, r: &mut Rng, layouts: u64) {
    let Some(items) = abstract_stream(base) else {
        ctx.count("base-untokenizable");
        return;
    };
    if items.is_empty() {
        return;
    }
    let base_parse = match parse_mirror(base) {
        Ok(p) => p,
        Err(p) => {
            ctx.inconclusive("base-parse-panic");
            let _ = p;
            return;
        }
    };
    ctx.count(if base_parse.is_ok() { "base-parses" } else { "base-rejected" });
    for _ in 0..layouts {
        let text = render_layout(&items, r, ctx);
        ctx.eval();
        ctx.nontrivial(hash_str(&text));
        match gram_abstract(&text) {
            Err(p) => {
                viol(ctx, &format!("tokenize-panic@{}", panic_site(&p)), &format!("tokenize panicked on a re-layout: {p}"), base, &text);
                return;
            }
            Ok(Err(n)) => {
                viol(ctx, "layout-rejected", &format!("tokenize reported {n} errors on a re-layout of a clean text"), base, &text);
                return;
            }
            Ok(Ok(got)) => {
                if got != items {
                    let key = if text.contains('#') { "layout-changes-tokens:comment" } else { "layout-changes-tokens" };
                    viol(ctx, key, &format!("token stream changed under re-layout: expected [{}] got [{}]", clip(&show_items(&items), 300), clip(&show_items(&got), 300)), base, &text);
                    return;
                }
            }
        }
        match parse_mirror(&text) {
            Err(p) => {
                viol(ctx, &format!("parse-panic@{}", panic_site(&p)), &format!("parse panicked on a re-layout: {p}"), base, &text);
                return;
            }
            Ok(lp) => match (&base_parse, &lp) {
                (Ok(a), Ok(b)) => {
                    if a != b {
                        viol(ctx, "layout-changes-parse", &format!("parse result changed under re-layout: {} vs {}", clip(&a.show(), 300), clip(&b.show(), 300)), base, &text);
                        return;
                    }
                    ctx.count("parse-equal");
                }
                (Err(_), Err(_)) => ctx.count("parse-both-rejected"),
                (Ok(_), Err(_)) => {
                    viol(ctx, "layout-breaks-parse", "the base text parses but its re-layout is rejected", base, &text);
                    return;
                }
                (Err(_), Ok(_)) => {
                    viol(ctx, "layout-fixes-parse", "the base text is rejected but its re-layout parses", base, &text);
                    return;
                }
            },
        }
        if ctx.idx % 53 == 0 {
            ctx.sample(Json::obj().set("base", Json::s(&clip(base, 100))).set("layout", Json::s(&clip(&text, 200))));
        }
    }
}

pub fn random_soup(r: &mut Rng) -> String {
    let n = 2 + r.usize(25);
    let mut s = String::new();
    for i in 0..n {
        if i > 0 {
            s.push(' ');
        }
        let k = ALL_TK[r.usize(ALL_TK.len())];
        match k {
            TK::Identifier => s.push_str(["x", "y", "foo", "é", "_", "iff", "a1"][r.usize(7)]),
            TK::IntegerLiteral => s.push_str(["0", "1", "42", "007"][r.usize(4)]),
            TK::LineBreak => s.push(';'),
            k => s.push_str(k.text()),
        }
    }
    s
}

impl Prop for C10P {
    fn id(&self) -> &'static str {
        "C10"
    }
    fn plan(&self, tier: Tier, _seed: u64) -> Plan {
        let total = c09::enum_total(LAYOUT_ALPHABET.len() as u64, maxlen(tier));
        let mut p = Plan::new(
            vec![
                sec("pinned", 160),
                sec_ex("bigram-table", 28 * 28),
                sec_ex("layout-strings", total.div_ceil(BLOCK)),
                sec("generated-programs", tier.pick(2_500, 50_000)),
                sec("token-soups", tier.pick(1_500, 30_000)),
            ],
            "20 random re-layouts (spaces, tabs, CR, non-ASCII white space, empty/ASCII/multi-byte comments, comments containing CR, comment at end of file, one or several line breaks wherever the layout rule allows, separating line break exchanged with `;`) of corpus programs, generated programs and random token soups; all 28x28 token-kind bigrams x 19 gap fillers (incl. non-ASCII white space, vertical tab, comments containing a bare CR) judged by the rule; all strings of <=6 (quick) / <=7 (thorough) symbols over a 13-symbol layout alphabet compared with the specification tokenizer; non-trivial = distinct layout text (or string with >=2 tokens)",
        );
        p.assumptions = vec![
            "the layout rule is DESIGN.md A.2: a line break between tokens A and B is a terminator iff A can end and B can start an expression (`;` counts as both); a terminator directly after `}` is a don't-care".into(),
            "Rust's char::is_whitespace is trusted".into(),
        ];
        p.floor_evaluations = 100_000;
        p.floor_nontrivial = 20_000;
        p
    }
    fn run_case(&self, ctx: &mut Ctx, section: &str, idx: u64) {
        match section {
            "pinned" => {
                let mut progs = crate::corpus::witnesses(&ctx.known_witnesses());
                progs.extend(crate::corpus::all());
                if let Some(p) = progs.get(idx as usize) {
                    let mut r = Rng::for_case(ctx.seed, 0, idx);
                    c09::check_text(ctx, p);
                    check_program(ctx, p, &mut r, LAYOUTS_PER_PROGRAM);
                }
            }
            "bigram-table" => {
                let kinds: Vec<TK> = ALL_TK.iter().copied().filter(|k| *k != TK::LineBreak).collect();
                let a = kinds[(idx / 28) as usize];
                let b = kinds[(idx % 28) as usize];
                for f in FILLERS {
                    for (pre, post) in [("", ""), ("\n", "\n"), ("#c\n", " #e"), (" ", "\n#\n")] {
                        let (ta, tb) = (tok_text(a), tok_text(b));
                        if f.is_empty() && needs_sep(ta, tb) {
                            continue;
                        }
                        let text = format!("{pre}{ta}{f}{tb}{post}");
                        ctx.eval();
                        let has_lf = f.contains('\n');
                        if a == TK::RightCurly && can_start(b) && has_lf {
                            ctx.count("bigram-dont-care");
                            continue;
                        }
                        let mut expect = vec![Item::Real(a, ta.to_owned())];
                        if has_lf && can_end(a) && can_start(b) {
                            expect.push(Item::Term);
                        }
                        expect.push(Item::Real(b, tb.to_owned()));
                        let expect: Vec<Item> = expect.into_iter().map(|i| if let Item::Real(TK::Semi, _) = i { Item::Term } else { i }).collect();
                        match gram_abstract(&text) {
                            Ok(Ok(got)) => {
                                if got != expect {
                                    viol(ctx, if f.contains('#') { "bigram:comment" } else { "bigram" }, &format!("between {a:?} and {b:?} with filler {f:?}: expected [{}] got [{}]", show_items(&expect), show_items(&got)), &format!("{ta} {tb}"), &text);
                                } else {
                                    ctx.count(if has_lf { "bigram-cells-with-line-break" } else { "bigram-cells-without-line-break" });
                                    ctx.nontrivial(hash_str(&text));
                                }
                            }
                            Ok(Err(_)) => viol(ctx, "bigram-rejected", "tokenize rejected a clean two-token text", &format!("{ta} {tb}"), &text),
                            Err(p) => viol(ctx, &format!("tokenize-panic@{}", panic_site(&p)), &p, &format!("{ta} {tb}"), &text),
                        }
                    }
                }
            }
            "layout-strings" => {
                let l = maxlen(ctx.tier);
                let total = c09::enum_total(LAYOUT_ALPHABET.len() as u64, l);
                let lo = idx * BLOCK;
                let hi = (lo + BLOCK).min(total);
                for i in lo..hi {
                    let s = c09::enum_string(&LAYOUT_ALPHABET, i, l);
                    c09::check_text(ctx, &s);
                }
                ctx.max("layout_strings_max_symbols", u64::from(l));
            }
            "generated-programs" => {
                let mut r = Rng::for_case(ctx.seed, 3, idx);
                let base = crate::props::program_pool(&mut r);
                check_program(ctx, &base, &mut r, LAYOUTS_PER_PROGRAM);
            }
            "token-soups" => {
                let mut r = Rng::for_case(ctx.seed, 4, idx);
                let base = random_soup(&mut r);
                check_program(ctx, &base, &mut r, LAYOUTS_PER_PROGRAM);
            }
            _ => {}
        }
    }
    fn describe(&self, _tier: Tier, seed: u64, section: &str, idx: u64) -> String {
        match section {
            "generated-programs" => crate::props::program_pool(&mut Rng::for_case(seed, 3, idx)),
            "token-soups" => random_soup(&mut Rng::for_case(seed, 4, idx)),
            _ => String::new(),
        }
    }
}

fn tok_text(k: TK) -> &'static str {
    match k {
        TK::Identifier => "x",
        TK::IntegerLiteral => "1",
        k => k.text(),
    }
}
