// C08 - every variable occurrence is bound to the right binder.
// Oracle: R-scope (named-scope resolver on the source AST) versus the indices in parse() output;
// single-point perturbations that unbind or shadow a name must be rejected with a diagnostic of
// the right category naming the right identifier.
use crate::eterm::{E, mirror};
use crate::fw::{Ctx, Plan, Prop, Tier, guard, panic_site, sec};
use crate::gen_syn::{NAME_POOL, SynCfg, SynGen};
use crate::hast::{H, ScopeErr, canon_holes, hb, resolve};
use crate::parser::parse;
use crate::printer::{Style, print};
use crate::props::c07::{GramParse, classify_errors};
use crate::tokenizer::tokenize;
use crate::util::{Json, Rng, clip, hash_str};

pub struct C08P;
pub static C08: C08P = C08P;

pub fn gram_parse_source(src: &str, context: &[&str]) -> Result<GramParse, String> {
    guard(|| {
        let toks = match tokenize(None, src) {
            Ok(t) => t,
            Err(es) => return GramParse::SyntaxError(es.iter().map(|e| e.message.clone()).collect()),
        };
        match parse(None, src, &toks[..], context) {
            Ok(t) => GramParse::Accepted(mirror(&t)),
            Err(es) => classify_errors(es.iter().map(|e| e.message.clone()).collect()),
        }
    })
}

fn viol(ctx: &mut Ctx, key: &str, what: &str, src: &str, context: &[&str]) {
    ctx.violation(key, what, Json::obj().set("source", Json::s(&clip(src, 2500))).set("context", Json::s(&context.join(","))));
}

// Count variable occurrences / binders and rewrite the n-th one.
pub fn count_vars(h: &H) -> usize {
    let mut n = 0;
    walk(h, &mut |x| {
        if let H::Var(v) = x {
            if v != "_" {
                n += 1;
            }
        }
    });
    n
}

pub fn count_binders(h: &H) -> usize {
    let mut n = 0;
    walk(h, &mut |x| {
        if matches!(x, H::Lam(..) | H::Pi(..) | H::Let(..)) {
            n += 1;
        }
    });
    n
}

pub fn walk(h: &H, f: &mut dyn FnMut(&H)) {
    f(h);
    match h {
        H::Lam(_, _, d, b) => {
            if let Some(d) = d {
                walk(d, f);
            }
            walk(b, f);
        }
        H::Pi(_, _, d, b) | H::App(d, b) | H::Bin(_, d, b) => {
            walk(d, f);
            walk(b, f);
        }
        H::Let(_, a, d, b) => {
            if let Some(a) = a {
                walk(a, f);
            }
            walk(d, f);
            walk(b, f);
        }
        H::Neg(a) | H::Paren(a) => walk(a, f),
        H::If(a, b, c) => {
            walk(a, f);
            walk(b, f);
            walk(c, f);
        }
        _ => {}
    }
}

pub fn map_h(h: &H, f: &mut dyn FnMut(&H) -> Option<H>) -> H {
    if let Some(r) = f(h) {
        return r;
    }
    match h {
        H::Lam(n, i, d, b) => {
            let d = d.as_ref().map(|d| hb(map_h(d, f)));
            let b = map_h(b, f);
            H::Lam(n.clone(), *i, d, hb(b))
        }
        H::Pi(n, i, d, b) => {
            let d = map_h(d, f);
            let b = map_h(b, f);
            H::Pi(n.clone(), *i, hb(d), hb(b))
        }
        H::App(a, b) => {
            let a = map_h(a, f);
            let b = map_h(b, f);
            H::App(hb(a), hb(b))
        }
        H::Bin(op, a, b) => {
            let a = map_h(a, f);
            let b = map_h(b, f);
            H::Bin(*op, hb(a), hb(b))
        }
        H::Let(n, a, d, b) => {
            let a = a.as_ref().map(|a| hb(map_h(a, f)));
            let d = map_h(d, f);
            let b = map_h(b, f);
            H::Let(n.clone(), a, hb(d), hb(b))
        }
        H::Neg(a) => H::Neg(hb(map_h(a, f))),
        H::Paren(a) => H::Paren(hb(map_h(a, f))),
        H::If(a, b, c) => {
            let a = map_h(a, f);
            let b = map_h(b, f);
            let c = map_h(c, f);
            H::If(hb(a), hb(b), hb(c))
        }
        other => other.clone(),
    }
}

pub fn rename_nth_var(h: &H, n: usize, new: &str) -> H {
    let mut k = 0;
    map_h(h, &mut |x| {
        if let H::Var(v) = x {
            if v != "_" {
                k += 1;
                if k - 1 == n {
                    return Some(H::var(new));
                }
            }
        }
        None
    })
}

// Rename the n-th binder (binder name only, occurrences untouched).
pub fn rename_nth_binder(h: &H, n: usize, new: &str) -> H {
    fn go(h: &H, n: usize, new: &str, k: &mut usize) -> H {
        let hit = |k: &mut usize| {
            *k += 1;
            *k - 1 == n
        };
        match h {
            H::Lam(nm, i, d, b) => {
                let me = hit(k);
                let d = d.as_ref().map(|d| hb(go(d, n, new, k)));
                let b = go(b, n, new, k);
                H::Lam(if me { new.to_owned() } else { nm.clone() }, *i, d, hb(b))
            }
            H::Pi(nm, i, d, b) => {
                let me = hit(k);
                let d = go(d, n, new, k);
                let b = go(b, n, new, k);
                H::Pi(if me { new.to_owned() } else { nm.clone() }, *i, hb(d), hb(b))
            }
            H::Let(nm, a, d, b) => {
                let me = hit(k);
                let a = a.as_ref().map(|a| hb(go(a, n, new, k)));
                let d = go(d, n, new, k);
                let b = go(b, n, new, k);
                H::Let(if me { new.to_owned() } else { nm.clone() }, a, hb(d), hb(b))
            }
            H::App(a, b) => {
                let a = go(a, n, new, k);
                let b = go(b, n, new, k);
                H::App(hb(a), hb(b))
            }
            H::Bin(op, a, b) => {
                let a = go(a, n, new, k);
                let b = go(b, n, new, k);
                H::Bin(*op, hb(a), hb(b))
            }
            H::Neg(a) => H::Neg(hb(go(a, n, new, k))),
            H::Paren(a) => H::Paren(hb(go(a, n, new, k))),
            H::If(a, b, c) => {
                let a = go(a, n, new, k);
                let b = go(b, n, new, k);
                let c = go(c, n, new, k);
                H::If(hb(a), hb(b), hb(c))
            }
            other => other.clone(),
        }
    }
    go(h, n, new, &mut 0)
}

fn all_names(h: &H) -> Vec<String> {
    let mut v = vec![];
    walk(h, &mut |x| match x {
        H::Lam(n, ..) | H::Pi(n, ..) | H::Let(n, ..) | H::Var(n) => {
            if n != "_" && !v.contains(n) {
                v.push(n.clone());
            }
        }
        _ => {}
    });
    v
}

fn errs_to_set(errs: &[ScopeErr]) -> Vec<(bool, String)> {
    let mut v: Vec<(bool, String)> = errs
        .iter()
        .map(|e| match e {
            ScopeErr::NotInScope(n) => (false, n.clone()),
            ScopeErr::AlreadyExists(n) => (true, n.clone()),
        })
        .collect();
    v.sort();
    v.dedup();
    v
}

// The oracle for one source AST (well-formed or perturbed).
pub fn check_h(ctx: &mut Ctx, h: &H, context: &[&str], style: &Style, tag: &str) {
    ctx.eval();
    let printed = print(h, style, ctx.idx ^ 0x5eed);
    let src = &printed.text;
    let expect = resolve(h, context);
    let got = match gram_parse_source(src, context) {
        Ok(g) => g,
        Err(p) => {
            viol(ctx, &format!("parse-panic@{}", panic_site(&p)), &format!("tokenize/parse panicked: {p}"), src, context);
            return;
        }
    };
    match (expect, got) {
        (_, GramParse::SyntaxError(m)) => {
            // the printed program does not parse: not a scoping question (C07/C16 territory)
            ctx.inconclusive("printed-program-rejected-syntactically");
            if ctx.replay_mode {
                println!("syntax error on {src:?}: {m:?}");
            }
        }
        (Ok(e), GramParse::Accepted(g)) => {
            ctx.count(&format!("{tag}:accepted"));
            let (a, b) = (canon_holes(&e), canon_holes(&g));
            let mut occurrences = 0u64;
            a.visit(&mut |x| {
                if matches!(x, E::Var(..)) {
                    occurrences += 1;
                }
            });
            ctx.add("occurrences-resolved", occurrences);
            if occurrences > 0 {
                ctx.nontrivial(hash_str(src));
            }
            if a != b {
                let key = if a.forget_names() != b.forget_names() && a.forget_holes() == b.forget_holes() {
                    "wrong-binder"
                } else if a.forget_holes() != b.forget_holes() && a.forget_names() == b.forget_names() {
                    "hole-identity"
                } else {
                    "tree-differs"
                };
                viol(ctx, key, &format!("parse resolved the program to {} but the scoping rules give {}", clip(&b.show(), 600), clip(&a.show(), 600)), src, context);
            } else if ctx.idx % 307 == 0 {
                ctx.sample(Json::obj().set("source", Json::s(&clip(src, 200))).set("resolved", Json::s(&clip(&a.show(), 200))));
            }
        }
        (Ok(_), GramParse::ScopeOrOrderError(m)) => {
            if m.iter().all(|x| x.contains("will not be available in time")) {
                ctx.inconclusive("definition-order-rejection");
            } else {
                viol(ctx, "rejects-well-scoped", &format!("parse reported scoping errors on a well-scoped program: {}", clip(&m.join(" | "), 400)), src, context);
            }
        }
        (Err(errs), GramParse::Accepted(g)) => {
            viol(ctx, "accepts-ill-scoped", &format!("parse accepted a program with scoping faults {:?}, as {}", errs, clip(&g.show(), 300)), src, context);
        }
        (Err(errs), GramParse::ScopeOrOrderError(m)) => {
            ctx.count(&format!("{tag}:rejected"));
            ctx.nontrivial(hash_str(src));
            if tag == "generated" {
                ctx.sample(Json::obj().set("generated_but_ill_scoped", Json::s(&clip(src, 300))).set("errors", Json::s(&format!("{errs:?}"))));
            }
            for (exists, name) in errs_to_set(&errs) {
                let cat = if exists { "already exists" } else { "not in scope" };
                let found = m.iter().any(|x| x.contains(cat) && x.contains(&format!("`{name}`")));
                if !found {
                    viol(ctx, "missing-scope-diagnostic", &format!("expected a diagnostic `{name}` {cat}; got: {}", clip(&m.join(" | "), 400)), src, context);
                    return;
                }
                ctx.count(if exists { "diagnostics:already-exists" } else { "diagnostics:not-in-scope" });
            }
            // (How many further diagnostics a rejected program gets is a matter of error recovery,
            // which the property does not fix: after a re-binding gram drops the name altogether,
            // so later uses of the outer binding are reported as well. Counting diagnostics was
            // tried and alarmed on the unchanged tree; it demanded more than the property states.)
        }
    }
}

pub fn gen_case(r: &mut Rng) -> (H, Vec<&'static str>) {
    let context: Vec<&'static str> = match r.below(4) {
        0 => vec!["c0", "c1"],
        1 => vec!["ctx"],
        _ => vec![],
    };
    let mut cfg = SynCfg::default_for(r);
    if r.chance(1, 6) {
        cfg.max_depth = 7 + r.usize(6);
    }
    let mut g = SynGen::new(r, cfg);
    for c in &context {
        g.scope.push((*c).to_owned());
    }
    let h = g.term(0);
    (h, context)
}

impl Prop for C08P {
    fn id(&self) -> &'static str {
        "C08"
    }
    fn plan(&self, tier: Tier, _seed: u64) -> Plan {
        let mut p = Plan::new(
            vec![sec("pinned", 160), sec("well-scoped-programs", tier.pick(80_000, 800_000)), sec("perturbations", tier.pick(30_000, 300_000))],
            "random well-scoped programs over the full syntax (nesting depth up to 12, sibling scopes re-using names, groups of 1-3 definitions nested in definitions, annotations and bodies with forward references, keyword look-alike and non-ASCII names, `_` binders and `_` expressions, empty and non-empty initial context), printed with varied parenthesisation and layout; then every occurrence renamed to an unbound name / every binder renamed to another name of the program, one at a time (up to 12 per program); non-trivial = distinct program with at least one resolved occurrence, or a rejected perturbation",
        );
        p.assumptions = vec![
            "the scoping rules are DESIGN.md A.4; a parenthesised definition group in body position is never generated (gram merges it into the enclosing group)".into(),
            "for rejected programs the expected diagnostics must be among those reported; gram may report more".into(),
        ];
        p.floor_evaluations = 30_000;
        p.floor_nontrivial = 10_000;
        p
    }
    fn run_case(&self, ctx: &mut Ctx, section: &str, idx: u64) {
        match section {
            "pinned" => {
                // corpus programs: parse via R-gram is C07's job; here only hand-written scoping cases
                let cases: Vec<(H, Vec<&str>)> = pinned_cases();
                if let Some((h, c)) = cases.get(idx as usize) {
                    check_h(ctx, h, c, &Style::plain(), "pinned");
                }
            }
            "well-scoped-programs" => {
                let mut r = Rng::for_case(ctx.seed, 1, idx);
                let (h, context) = gen_case(&mut r);
                let style = Style::varied(&mut r);
                ctx.max("max_program_nodes", h.size() as u64);
                check_h(ctx, &h, &context, &style, "generated");
            }
            "perturbations" => {
                let mut r = Rng::for_case(ctx.seed, 2, idx);
                let (h, context) = gen_case(&mut r);
                let style = Style::varied(&mut r);
                let nv = count_vars(&h);
                let nb = count_binders(&h);
                let names = all_names(&h);
                for round in 0..12 {
                    if round % 3 == 2 && nv > 1 && nb > 0 {
                        // two or three faults at once, sharing a name: an error must not leak
                        // into the resolution of the rest of the program
                        let name = if r.chance(1, 2) { "qq_unbound".to_owned() } else { names.get(r.usize(names.len().max(1))).cloned().unwrap_or_else(|| "qq_unbound".to_owned()) };
                        let mut m = rename_nth_var(&h, r.usize(nv), &name);
                        m = rename_nth_var(&m, r.usize(nv), &name);
                        if r.chance(1, 2) {
                            m = rename_nth_binder(&m, r.usize(nb), &name);
                        }
                        if r.chance(1, 3) {
                            m = rename_nth_binder(&m, r.usize(nb), &name);
                        }
                        ctx.count("perturbation:several-faults-sharing-a-name");
                        check_h(ctx, &m, &context, &style, "multi");
                        continue;
                    }
                    if nv > 0 && r.chance(1, 2) {
                        let k = r.usize(nv);
                        let m = rename_nth_var(&h, k, "qq_unbound");
                        ctx.count("perturbation:unbind");
                        check_h(ctx, &m, &context, &style, "unbind");
                    } else if nb > 0 {
                        let k = r.usize(nb);
                        let mut pool: Vec<String> = names.clone();
                        pool.extend(context.iter().map(|s| (*s).to_owned()));
                        if pool.is_empty() {
                            continue;
                        }
                        let new = pool[r.usize(pool.len())].clone();
                        let m = rename_nth_binder(&h, k, &new);
                        ctx.count("perturbation:rebind");
                        check_h(ctx, &m, &context, &style, "rebind");
                    }
                }
            }
            _ => {}
        }
    }
    fn describe(&self, _tier: Tier, seed: u64, section: &str, idx: u64) -> String {
        let sec = match section {
            "well-scoped-programs" => 1,
            "perturbations" => 2,
            _ => return String::new(),
        };
        let mut r = Rng::for_case(seed, sec, idx);
        let (h, _) = gen_case(&mut r);
        crate::printer::print_plain(&h)
    }
}

fn pinned_cases() -> Vec<(H, Vec<&'static str>)> {
    let v = |s: &str| H::var(s);
    let lam = |n: &str, d: Option<H>, b: H| H::Lam(n.to_owned(), false, d.map(hb), hb(b));
    vec![
        (lam("x", Some(H::Int), v("x")), vec![]),
        (lam("x", Some(H::Int), lam("y", Some(v("x")), H::App(hb(v("x")), hb(v("y"))))), vec![]),
        (lam("_", Some(H::Int), v("_")), vec![]),
        (H::App(hb(v("_")), hb(v("_"))), vec![]),
        (lam("x", None, lam("x", None, v("x"))), vec![]),
        (lam("x", Some(v("x")), v("x")), vec![]),
        (H::Pi("x".into(), false, hb(v("x")), hb(v("x"))), vec![]),
        (H::Let("x".into(), Some(hb(v("y"))), hb(v("y")), hb(H::Let("y".into(), None, hb(H::Type), hb(v("x"))))), vec![]),
        (H::Let("x".into(), None, hb(H::lit(1)), hb(H::Let("x".into(), None, hb(H::lit(2)), hb(v("x"))))), vec![]),
        (H::Bin(crate::eterm::Op::Add, hb(H::Paren(hb(H::Let("x".into(), None, hb(H::lit(1)), hb(v("x")))))), hb(H::Paren(hb(H::Let("x".into(), None, hb(H::lit(2)), hb(v("x"))))))), vec![]),
        (H::Bin(crate::eterm::Op::Add, hb(lam("x", Some(H::Int), v("x"))), hb(v("x"))), vec![]),
        (v("c0"), vec!["c0", "c1"]),
        (lam("c1", Some(H::Int), v("c0")), vec!["c0", "c1"]),
        (lam("iff", Some(H::Int), lam("int2", Some(H::Int), lam("type_", Some(H::Int), H::App(hb(v("iff")), hb(H::App(hb(v("int2")), hb(v("type_")))))))), vec![]),
        (lam("é", Some(H::Int), lam("\u{1d465}", Some(H::Int), H::App(hb(v("é")), hb(v("\u{1d465}"))))), vec![]),
    ]
}
