// C11 - substitution and index shifting are capture-avoiding.
// Oracles: R-named (named terms with unique binders) and the algebraic laws, on hole-free terms:
// exhaustive enumeration up to a node bound over every term former, and random larger terms.
use crate::de_bruijn::{open, signed_shift, unsigned_shift};
use crate::eterm::{ALL_OPS, E, bx, mirror, to_gram};
use crate::fw::{Ctx, Plan, Prop, Tier, guard, panic_site, sec, sec_ex};
use crate::rnamed::{ref_free_variables, ref_open, ref_shift};
use crate::term::free_variables;
use crate::util::{Json, Rng, clip, hash_str};
use num_bigint::BigInt;
use std::collections::{BTreeSet, HashSet};
use std::sync::OnceLock;

pub struct C11P;
pub static C11: C11P = C11P;

const BLOCK: u64 = 64;
const MAXK: usize = 6;

fn max_nodes(tier: Tier) -> usize {
    tier.pick(4, 5)
}

// ---------------------------------------------------------------------------------------------
// G-db: enumeration of hole-free de Bruijn terms by node count

struct Counts {
    term: [u64; MAXK + 1],           // number of terms with k nodes
    tuple: [[u64; MAXK + 1]; 8],     // tuple[m][t]: m-tuples of terms with t nodes in total
}

fn counts() -> &'static Counts {
    static C: OnceLock<Counts> = OnceLock::new();
    C.get_or_init(|| {
        let mut c = Counts { term: [0; MAXK + 1], tuple: [[0; MAXK + 1]; 8] };
        c.tuple[0][0] = 1;
        for k in 1..=MAXK {
            let mut n = 0u64;
            if k == 1 {
                n += 10;
            }
            // formers by arity over children totalling k-1 nodes
            let t = k - 1;
            n += c.tuple[1][t]; // Neg
            n += 14 * c.tuple[2][t]; // Lam x2, Pi x2, App, 9 operators
            n += c.tuple[3][t]; // If
            n += c.tuple[3][t]; // Let with 1 definition
            n += c.tuple[5][t]; // Let with 2 definitions
            n += c.tuple[7][t]; // Let with 3 definitions
            c.term[k] = n;
            // extend tuple tables with terms of size k
            for m in 1..8 {
                for tot in 1..=MAXK {
                    let mut s = 0u64;
                    for first in 1..=tot.min(k) {
                        s += c.term[first] * c.tuple[m - 1][tot - first];
                    }
                    c.tuple[m][tot] = s;
                }
            }
        }
        c
    })
}

fn atom(i: u64) -> E {
    match i {
        0 => E::Type,
        1 => E::Int,
        2 => E::Bool,
        3 => E::True,
        4 => E::False,
        5 => E::Lit(BigInt::from(1)),
        j => E::Var(format!("v{}", j - 6), (j - 6) as usize),
    }
}

fn unrank_tuple(m: usize, tot: usize, mut idx: u64, out: &mut Vec<E>) {
    if m == 0 {
        return;
    }
    let c = counts();
    for first in 1..=tot {
        let block = c.term[first] * c.tuple[m - 1][tot - first];
        if idx < block {
            let rest = c.tuple[m - 1][tot - first];
            out.push(unrank(first, idx / rest));
            unrank_tuple(m - 1, tot - first, idx % rest, out);
            return;
        }
        idx -= block;
    }
    unreachable!("unrank_tuple out of range");
}

pub fn unrank(k: usize, mut idx: u64) -> E {
    let c = counts();
    if k == 1 {
        if idx < 10 {
            return atom(idx);
        }
        idx -= 10;
    }
    let t = k - 1;
    let take = |m: usize, idx: u64| -> Vec<E> {
        let mut v = vec![];
        unrank_tuple(m, t, idx, &mut v);
        v
    };
    // Neg
    if idx < c.tuple[1][t] {
        let mut v = take(1, idx);
        return E::Neg(bx(v.remove(0)));
    }
    idx -= c.tuple[1][t];
    // binary formers
    let nb = c.tuple[2][t];
    if idx < 14 * nb {
        let f = idx / nb;
        let mut v = take(2, idx % nb);
        let b = v.pop().unwrap();
        let a = v.pop().unwrap();
        return match f {
            0 => E::Lam("b".into(), false, bx(a), bx(b)),
            1 => E::Lam("b".into(), true, bx(a), bx(b)),
            2 => E::Pi("b".into(), false, bx(a), bx(b)),
            3 => E::Pi("b".into(), true, bx(a), bx(b)),
            4 => E::App(bx(a), bx(b)),
            j => E::Bin(ALL_OPS[(j - 5) as usize], bx(a), bx(b)),
        };
    }
    idx -= 14 * nb;
    // If
    if idx < c.tuple[3][t] {
        let mut v = take(3, idx);
        let e = v.pop().unwrap();
        let th = v.pop().unwrap();
        let co = v.pop().unwrap();
        return E::If(bx(co), bx(th), bx(e));
    }
    idx -= c.tuple[3][t];
    for (n, m) in [(1usize, 3usize), (2, 5), (3, 7)] {
        if idx < c.tuple[m][t] {
            let mut v = take(m, idx);
            let body = v.pop().unwrap();
            let mut defs = vec![];
            for i in 0..n {
                let d = v.remove(1);
                let a = v.remove(0);
                defs.push((format!("d{i}"), a, d));
            }
            return E::Let(defs, bx(body));
        }
        idx -= c.tuple[m][t];
    }
    unreachable!("unrank out of range");
}

fn total_upto(k: usize) -> u64 {
    (1..=k).map(|i| counts().term[i]).sum()
}

fn nth_term(maxk: usize, mut idx: u64) -> E {
    for k in 1..=maxk {
        if idx < counts().term[k] {
            return unrank(k, idx);
        }
        idx -= counts().term[k];
    }
    unreachable!()
}

fn inserted_terms() -> Vec<E> {
    (0..total_upto(2)).map(|i| nth_term(2, i)).collect()
}

// ---------------------------------------------------------------------------------------------

fn viol(ctx: &mut Ctx, key: &str, what: &str, t: &E) {
    ctx.violation(key, what, Json::obj().set("term", Json::s(&clip(&t.show(), 1500))));
}

fn fv_gram(t: &crate::term::Term, cutoff: usize) -> BTreeSet<usize> {
    let mut s = HashSet::new();
    free_variables(t, cutoff, &mut s);
    s.into_iter().collect()
}

pub fn check_term(ctx: &mut Ctx, e: &E, inserts: &[E], max_cut: usize, max_amt: i64) {
    let cutoffs: Vec<usize> = (0..=max_cut).collect();
    let amounts: Vec<i64> = (-max_amt..=max_amt).collect();
    check_term_at(ctx, e, inserts, &cutoffs, &amounts, &cutoffs, &[0, 1]);
}

// The same comparison at explicitly given cutoffs, amounts, opened indices and insertion shifts.
pub fn check_term_at(ctx: &mut Ctx, e: &E, inserts: &[E], cutoffs: &[usize], amounts: &[i64], indices: &[usize], shifts: &[usize]) {
    let t = to_gram(e);
    let fv0 = ref_free_variables(e, 0).unwrap_or_default();
    for &cutoff in cutoffs {
        // free variables
        ctx.eval();
        match guard(|| fv_gram(&t, cutoff)) {
            Err(p) => {
                viol(ctx, &format!("free-variables-panic@{}", panic_site(&p)), &p, e);
                return;
            }
            Ok(got) => {
                let want = ref_free_variables(e, cutoff).unwrap_or_default();
                if got != want {
                    viol(ctx, "free-variables", &format!("free_variables(cutoff {cutoff}) = {got:?}, the named reference gives {want:?}"), e);
                    return;
                }
            }
        }
        for &amount in amounts {
            ctx.eval();
            let got = match guard(|| signed_shift(&t, cutoff, amount as isize).map(|x| mirror(&x))) {
                Ok(g) => g,
                Err(p) => {
                    viol(ctx, &format!("shift-panic@{}", panic_site(&p)), &format!("signed_shift(cutoff {cutoff}, amount {amount}) panicked: {p}"), e);
                    return;
                }
            };
            let want = ref_shift(e, cutoff, amount).unwrap_or(None);
            if got != want {
                viol(ctx, "shift-differs-from-named-reference", &format!("signed_shift(cutoff {cutoff}, amount {amount}) = {} but capture-avoiding shifting gives {}", show_opt(&got), show_opt(&want)), e);
                return;
            }
            ctx.count(if got.is_some() { "shifts-defined" } else { "shifts-undefined" });
            // law: fails exactly when a free variable lies in [cutoff, cutoff - amount)
            let should_fail = amount < 0 && fv0.iter().any(|j| *j >= cutoff && (*j as i128) < cutoff as i128 - amount as i128);
            if should_fail != got.is_none() {
                viol(ctx, "law:shift-failure-condition", &format!("signed_shift(cutoff {cutoff}, amount {amount}) {} although free variables are {fv0:?}", if got.is_none() { "failed" } else { "succeeded" }), e);
                return;
            }
            if amount == 0 && got.as_ref() != Some(e) {
                viol(ctx, "law:shift-zero-identity", "shifting by zero changed the term", e);
                return;
            }
            if amount > 0 {
                let g = got.clone().unwrap();
                // unsigned_shift agrees
                let u = guard(|| mirror(&unsigned_shift(&t, cutoff, amount as usize)));
                if u.as_ref().ok() != Some(&g) {
                    viol(ctx, "unsigned-shift-differs", &format!("unsigned_shift(cutoff {cutoff}, amount {amount}) differs from signed_shift"), e);
                    return;
                }
                // law: down after up is the identity
                let gt = to_gram(&g);
                let back = guard(|| signed_shift(&gt, cutoff, (amount as isize).wrapping_neg()).map(|x| mirror(&x)));
                if back.as_ref().ok() != Some(&Some(e.clone())) {
                    viol(ctx, "law:down-after-up", &format!("shifting up by {amount} and down again (cutoff {cutoff}) does not give the term back: {}", back.map(|b| show_opt(&b)).unwrap_or_default()), e);
                    return;
                }
                // law: shifts compose additively
                let twice = guard(|| mirror(&unsigned_shift(&gt, cutoff, 2)));
                let once = guard(|| mirror(&unsigned_shift(&t, cutoff, amount as usize + 2)));
                if twice.is_err() || twice.as_ref().ok() != once.as_ref().ok() {
                    viol(ctx, "law:shift-composition", &format!("shift by {amount} then 2 differs from shift by {} (cutoff {cutoff})", amount + 2), e);
                    return;
                }
                ctx.count("laws-checked");
            }
        }
    }
    for &index in indices {
        for (ui, u) in inserts.iter().enumerate() {
            for &shift in shifts {
                if shift == 1 && ui % 3 != 0 && shifts.len() == 2 {
                    continue;
                }
                ctx.eval();
                let ug = to_gram(u);
                let got = match guard(|| mirror(&open(&t, index, &ug, shift))) {
                    Ok(g) => g,
                    Err(p) => {
                        viol(ctx, &format!("open-panic@{}", panic_site(&p)), &format!("open(index {index}, insert {}, shift {shift}) panicked: {p}", u.show()), e);
                        return;
                    }
                };
                let Some(want) = ref_open(e, index, u, shift) else { continue };
                if got != want {
                    viol(ctx, "open-differs-from-named-reference", &format!("open(index {index}, insert {}, shift {shift}) = {} but capture-avoiding substitution gives {}", u.show(), clip(&got.show(), 400), clip(&want.show(), 400)), e);
                    return;
                }
                ctx.count("opens-checked");
                // law: predicted free variables of the result
                let mut pred: BTreeSet<usize> = fv0.iter().filter(|j| **j != index).map(|j| if *j > index { j - 1 } else { *j }).collect();
                if fv0.contains(&index) {
                    for j in ref_free_variables(u, 0).unwrap_or_default() {
                        pred.insert(j + shift);
                    }
                }
                let gg = to_gram(&got);
                if guard(|| fv_gram(&gg, 0)).ok() != Some(pred.clone()) {
                    viol(ctx, "law:free-variables-of-open", &format!("free variables of open(index {index}, insert {}, shift {shift}) are not the predicted {pred:?}", u.show()), e);
                    return;
                }
                if !fv0.contains(&index) {
                    ctx.count("opens-of-absent-variable");
                }
            }
        }
    }
}

fn show_opt(o: &Option<E>) -> String {
    match o {
        None => "None".to_owned(),
        Some(e) => clip(&e.show(), 400),
    }
}

pub fn random_db_term(r: &mut Rng, depth: usize, budget: &mut usize, binders: usize) -> E {
    if depth == 0 || *budget == 0 || r.chance(1, 6) {
        return match r.below(8) {
            0 => E::Type,
            1 => E::Int,
            2 => E::Lit(BigInt::from(r.below(9))),
            3 => E::True,
            _ => {
                let i = r.usize(binders + 5);
                E::Var(format!("v{i}"), i)
            }
        };
    }
    *budget -= 1;
    let d = depth - 1;
    match r.below(12) {
        0 | 1 => E::Lam("b".into(), r.chance(1, 3), bx(random_db_term(r, d, budget, binders)), bx(random_db_term(r, d, budget, binders + 1))),
        2 => E::Pi("b".into(), r.chance(1, 3), bx(random_db_term(r, d, budget, binders)), bx(random_db_term(r, d, budget, binders + 1))),
        3 | 4 => E::App(bx(random_db_term(r, d, budget, binders)), bx(random_db_term(r, d, budget, binders))),
        5 | 6 => {
            // mostly small groups, sometimes large ones (4-8 definitions)
            let n = if r.chance(1, 5) { 4 + r.usize(5) } else { 1 + r.usize(3) };
            // binder names are carried through unchanged and must not matter - `_` included
            let defs = (0..n).map(|i| (if r.chance(1, 6) { "_".to_owned() } else { format!("d{i}") }, random_db_term(r, d, budget, binders + n), random_db_term(r, d, budget, binders + n))).collect();
            E::Let(defs, bx(random_db_term(r, d, budget, binders + n)))
        }
        7 => E::Neg(bx(random_db_term(r, d, budget, binders))),
        8 | 9 => E::Bin(ALL_OPS[r.usize(9)], bx(random_db_term(r, d, budget, binders)), bx(random_db_term(r, d, budget, binders))),
        _ => E::If(bx(random_db_term(r, d, budget, binders)), bx(random_db_term(r, d, budget, binders)), bx(random_db_term(r, d, budget, binders))),
    }
}

impl Prop for C11P {
    fn id(&self) -> &'static str {
        "C11"
    }
    fn plan(&self, tier: Tier, _seed: u64) -> Plan {
        let total = total_upto(max_nodes(tier));
        let mut p = Plan::new(
            vec![
                sec_ex("exhaustive-terms", total.div_ceil(BLOCK)),
                sec_ex("groups-of-2-with-atomic-parts", 6u64.pow(5).div_ceil(BLOCK)),
                sec_ex("groups-of-3-with-atomic-parts", tier.pick(3u64.pow(7), 6u64.pow(7)).div_ceil(BLOCK)),
                sec("large-groups-with-atomic-parts", tier.pick(6_000, 120_000)),
                sec("random-terms", tier.pick(4_000, 80_000)),
            ],
            "every hole-free de Bruijn term of at most 4 (quick) / 5 (thorough) nodes over all term formers (groups of 1, 2 and 3 definitions, both implicit flags, indices 0-3) x cutoff 0-3 x amount -3..3 for signed_shift/unsigned_shift/free_variables, x index 0-3 x all 20 inserted terms of at most 2 nodes x shift 0-1 for open; groups of 4-8 definitions with atomic parts (variables inside and up to 4 beyond the group) under 0-2 binders (sampled); random terms up to 200 nodes and depth 30, groups of up to 8 definitions, also with cutoffs, amounts, opened indices and insertion shifts up to 65 536 (amounts up to 2^33) and inserted terms of up to 23 nodes with binders of their own; each result compared exactly with a named-term reference and checked against the laws; non-trivial = distinct term with at least one binder or free variable",
        );
        p.assumptions = vec!["hole-free terms only (the statement is about hole-free terms); names are carried through unchanged".into()];
        p.floor_evaluations = 500_000;
        p.floor_nontrivial = 3_000;
        p.case_timeout_s = 120;
        p
    }
    fn run_case(&self, ctx: &mut Ctx, section: &str, idx: u64) {
        match section {
            "exhaustive-terms" => {
                let k = max_nodes(ctx.tier);
                let total = total_upto(k);
                let ins = inserted_terms();
                let lo = idx * BLOCK;
                let hi = (lo + BLOCK).min(total);
                for i in lo..hi {
                    let e = nth_term(k, i);
                    if e.any(&mut |x| matches!(x, E::Var(..) | E::Lam(..) | E::Pi(..) | E::Let(..))) {
                        ctx.nontrivial(hash_str(&e.show()));
                    }
                    e.visit(&mut |x| ctx.count(&format!("former:{}", x.kind())));
                    check_term(ctx, &e, &ins, 3, 3);
                    if i % 5003 == 0 {
                        ctx.sample(Json::s(&e.show()));
                    }
                }
                ctx.max("exhaustive_max_nodes", k as u64);
            }
            "groups-of-2-with-atomic-parts" | "groups-of-3-with-atomic-parts" => {
                let n = if section.starts_with("groups-of-2") { 2usize } else { 3 };
                let full: [E; 6] = [E::Type, E::Lit(BigInt::from(1)), E::Var("v0".into(), 0), E::Var("v1".into(), 1), E::Var("v2".into(), 2), E::Var("v3".into(), 3)];
                let small: [E; 3] = [E::Var("v0".into(), 0), E::Var("v1".into(), 1), E::Var("v3".into(), 3)];
                let atoms: &[E] = if n == 3 && ctx.tier == Tier::Quick { &small } else { &full };
                let m = 2 * n + 1;
                let total = (atoms.len() as u64).pow(m as u32);
                let ins = inserted_terms();
                let lo = idx * BLOCK;
                let hi = (lo + BLOCK).min(total);
                for i in lo..hi {
                    let mut j = i;
                    let mut parts = vec![];
                    for _ in 0..m {
                        parts.push(atoms[(j % atoms.len() as u64) as usize].clone());
                        j /= atoms.len() as u64;
                    }
                    let body = parts.pop().unwrap();
                    // every 5th group has a definition named `_` (names must not matter)
                    let defs = (0..n).map(|k| (if i % 5 == 4 && k as u64 == (i / 5) % n as u64 { "_".to_owned() } else { format!("d{k}") }, parts[2 * k].clone(), parts[2 * k + 1].clone())).collect();
                    let e = E::Let(defs, bx(body));
                    ctx.nontrivial(hash_str(&e.show()));
                    ctx.count(if n == 2 { "groups-of-2" } else { "groups-of-3" });
                    check_term(ctx, &e, &ins, 3, 3);
                }
            }
            "large-groups-with-atomic-parts" => {
                // group sizes beyond what the exhaustive sections reach (size thresholds, fast
                // paths): atomic annotations, definitions and body, variables pointing into the
                // group and at the 4 nearest binders outside it, the group itself under 0-2 binders
                let mut r = Rng::for_case(ctx.seed, 2, idx);
                let n = 4 + r.usize(5);
                let under = r.usize(3);
                let atom = |r: &mut Rng| -> E {
                    match r.below(8) {
                        0 => E::Type,
                        1 => E::Lit(BigInt::from(1)),
                        2 | 3 => {
                            let k = r.usize(n);
                            E::Var(format!("v{k}"), k)
                        }
                        _ => {
                            let k = n + r.usize(4);
                            E::Var(format!("v{k}"), k)
                        }
                    }
                };
                let defs: Vec<(String, E, E)> = (0..n).map(|k| (if r.chance(1, 8) { "_".to_owned() } else { format!("d{k}") }, atom(&mut r), atom(&mut r))).collect();
                let mut e = E::Let(defs, bx(atom(&mut r)));
                for b in 0..under {
                    e = if r.chance(1, 2) { E::Lam(format!("w{b}"), false, bx(E::Type), bx(e)) } else { E::Pi(format!("w{b}"), r.chance(1, 4), bx(atom(&mut r)), bx(e)) };
                }
                ctx.nontrivial(hash_str(&e.show()));
                ctx.count(&format!("large-groups:size-{n}"));
                let ins = inserted_terms();
                check_term(ctx, &e, &ins, 3, 3);
            }
            "random-terms" => {
                let mut r = Rng::for_case(ctx.seed, 1, idx);
                let mut budget = 10 + r.usize(190);
                let depth = 3 + r.usize(28);
                let e = random_db_term(&mut r, depth, &mut budget, 0);
                ctx.max("max_random_term_nodes", e.size() as u64);
                ctx.nontrivial(hash_str(&e.show()));
                let mut ins = vec![];
                for _ in 0..3 {
                    let mut b = 1 + r.usize(12);
                    ins.push(random_db_term(&mut r, 4, &mut b, 0));
                }
                check_term(ctx, &e, &ins, 4, 3);
                // large parameters: cutoffs, amounts, indices and insertion shifts well beyond
                // the exhaustive ranges, and inserted terms with binders of their own
                let big = |r: &mut Rng| -> usize { [4usize, 5, 7, 12, 31, 64, 255, 256, 1000, 65_536][r.usize(10)] };
                let cutoffs = [big(&mut r), r.usize(12)];
                // negative extremes too (the positive ones would overflow the indices themselves, which the
                // unchanged code does not promise to survive)
                let amounts = [big(&mut r) as i64, -(big(&mut r) as i64), (1i64 << 33) + r.below(5) as i64, -(r.below(9) as i64) - 4, 4 + r.below(9) as i64, i64::MIN + r.below(3) as i64, -(1i64 << 62) - r.below(7) as i64];
                let indices = [big(&mut r), 4 + r.usize(9)];
                let shifts = [big(&mut r), 2 + r.usize(6)];
                let mut big_ins = vec![];
                for _ in 0..2 {
                    let mut b = 3 + r.usize(20);
                    big_ins.push(random_db_term(&mut r, 5, &mut b, 0));
                }
                check_term_at(ctx, &e, &big_ins, &cutoffs, &amounts, &indices, &shifts);
                ctx.count("large-parameter-rounds");
                if idx % 499 == 0 {
                    ctx.sample(Json::s(&clip(&e.show(), 300)));
                }
            }
            _ => {}
        }
    }
    fn describe(&self, tier: Tier, _seed: u64, section: &str, idx: u64) -> String {
        if section == "exhaustive-terms" { format!("terms {}.. of the enumeration up to {} nodes", idx * BLOCK, max_nodes(tier)) } else { String::new() }
    }
}
