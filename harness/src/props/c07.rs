// C07 - the parser accepts exactly grammar.y and builds the tree it specifies.
// Oracle: R-gram (chart parser over the productions read from grammar.y): accept/reject agreement,
// uniqueness of the derivation, and equality of gram's AST with the left-associated derivation
// resolved by R-scope.
use crate::eterm::{E, mirror};
use crate::fw::{Ctx, Plan, Prop, Tier, guard, panic_site, sec, sec_ex};
use crate::hast::{ScopeErr, canon_holes, reassociate, resolve};
use crate::parser::parse;
use crate::props::c14::{enum_seq, grammar_kinds, make_tokens};
use crate::rgram::{Chart, Grammar, confused_sentence, random_sentence, tree_to_h};
use crate::rtok::{self, TK};
use crate::util::{Json, Rng, clip, hash_str};
use std::sync::OnceLock;

pub struct C07P;
pub static C07: C07P = C07P;

const BLOCK: u64 = 1024;

pub fn grammar() -> &'static Result<Grammar, String> {
    static G: OnceLock<Result<Grammar, String>> = OnceLock::new();
    G.get_or_init(Grammar::load)
}

fn tok_maxlen(tier: Tier) -> u32 {
    tier.pick(4, 5)
}

pub fn synth_texts(kinds: &[TK], texts: &[String]) -> (String, Vec<(TK, usize, usize)>) {
    let mut src = String::new();
    let mut v = vec![];
    for (i, k) in kinds.iter().enumerate() {
        if i > 0 && *k != TK::LineBreak {
            src.push(' ');
        }
        let s = src.len();
        src.push_str(&texts[i]);
        v.push((*k, s, src.len()));
    }
    (src, v)
}

pub fn default_texts(kinds: &[TK]) -> Vec<String> {
    let mut lit = 0;
    kinds
        .iter()
        .map(|k| match k {
            TK::IntegerLiteral => {
                lit += 1;
                lit.to_string()
            }
            k => k.text().to_owned(),
        })
        .collect()
}

#[derive(Debug)]
pub enum GramParse {
    Accepted(E),
    SyntaxError(Vec<String>),
    ScopeOrOrderError(Vec<String>),
}

pub fn classify_errors(msgs: Vec<String>) -> GramParse {
    let syntactic = msgs.iter().any(|m| !(m.contains("not in scope") || m.contains("already exists") || m.contains("will not be available in time")));
    if syntactic { GramParse::SyntaxError(msgs) } else { GramParse::ScopeOrOrderError(msgs) }
}

pub fn gram_parse_tokens(src: &str, v: &[(TK, usize, usize)], context: &[&str]) -> Result<GramParse, String> {
    guard(|| {
        let toks = make_tokens(src, v);
        match parse(None, src, &toks[..], context) {
            Ok(t) => GramParse::Accepted(mirror(&t)),
            Err(es) => classify_errors(es.iter().map(|e| e.message.clone()).collect()),
        }
    })
}

fn viol(ctx: &mut Ctx, key: &str, what: &str, src: &str) {
    ctx.violation(key, what, Json::obj().set("tokens", Json::s(&clip(src, 2000))));
}

// The core oracle for one token sequence.
pub fn check_sequence(ctx: &mut Ctx, kinds: &[TK], texts: &[String], context: &[&str], tag: &str) {
    ctx.eval();
    let g = match grammar() {
        Ok(g) => g,
        Err(e) => {
            ctx.inconclusive("grammar-unreadable");
            let _ = e;
            return;
        }
    };
    let (src, v) = synth_texts(kinds, texts);
    let mut chart = Chart::new(g, kinds);
    let n = chart.derivations();
    ctx.max("max_derivations_per_sentence", n.max(0) as u64);
    if n >= 2 {
        viol(ctx, "grammar-ambiguous", &format!("grammar.y assigns {n} derivations to this sentence"), &src);
        return;
    }
    let gp = match gram_parse_tokens(&src, &v, context) {
        Ok(x) => x,
        Err(p) => {
            viol(ctx, &format!("parse-panic@{}", panic_site(&p)), &format!("parse panicked: {p}"), &src);
            return;
        }
    };
    ctx.max("max_sentence_tokens", kinds.len() as u64);
    match (n, gp) {
        (0, GramParse::SyntaxError(_)) => ctx.count(&format!("{tag}:both-reject")),
        (0, GramParse::Accepted(e)) => viol(ctx, "accepts-non-sentence", &format!("parse accepted a token sequence that is not a sentence of grammar.y, as {}", clip(&e.show(), 300)), &src),
        (0, GramParse::ScopeOrOrderError(m)) => {
            viol(ctx, "accepts-non-sentence", &format!("parse got past the syntax of a token sequence that is not a sentence of grammar.y (it reported only scoping errors: {})", clip(&m.join(" | "), 300)), &src)
        }
        (_, GramParse::SyntaxError(m)) => viol(ctx, "rejects-sentence", &format!("parse rejected a sentence of grammar.y: {}", clip(&m.join(" | "), 400)), &src),
        (_, GramParse::ScopeOrOrderError(_)) => {
            ctx.count(&format!("{tag}:sentence-with-scope-error"));
            ctx.nontrivial(hash_str(&src));
        }
        (_, GramParse::Accepted(got)) => {
            ctx.count(&format!("{tag}:both-accept"));
            ctx.nontrivial(hash_str(&src));
            let Some(tree) = chart.tree() else { return };
            let h = match tree_to_h(g, &tree, texts) {
                Ok(h) => h,
                Err(e) => {
                    ctx.inconclusive("no-ast-mapping");
                    let _ = e;
                    return;
                }
            };
            let h = reassociate(&h);
            match resolve(&h, context) {
                Ok(expect) => {
                    let (a, b) = (canon_holes(&expect), canon_holes(&got));
                    if a != b {
                        let key = if a.forget_names() == b.forget_names() { "tree-mismatch:names" } else if a.forget_holes() == b.forget_holes() { "tree-mismatch:holes" } else { "tree-mismatch" };
                        viol(ctx, key, &format!("parse built {} but the derivation specifies {}", clip(&b.show(), 500), clip(&a.show(), 500)), &src);
                    } else {
                        ctx.count(&format!("{tag}:trees-equal"));
                        a.visit(&mut |e| {
                            let _ = e;
                        });
                        if ctx.idx % 211 == 0 && kinds.len() > 3 {
                            ctx.sample(Json::obj().set("sentence", Json::s(&clip(&src, 160))).set("tree", Json::s(&clip(&a.show(), 240))));
                        }
                    }
                }
                Err(errs) => {
                    // the reference resolver finds a scoping fault that gram did not report
                    let _ = errs;
                    viol(ctx, "scope-fault-accepted", "parse accepted a sentence in which the reference resolver finds an unbound or re-bound name", &src);
                }
            }
        }
    }
}

// Check a source text: tokenised by R-tok, then as above.
pub fn check_source(ctx: &mut Ctx, src: &str, tag: &str) {
    let Ok(toks) = rtok::rtok(src) else { return };
    let kinds: Vec<TK> = toks.iter().map(|t| t.kind).collect();
    let texts: Vec<String> = toks.iter().map(|t| if t.kind == TK::LineBreak { "\n".to_owned() } else { src[t.start..t.end].to_owned() }).collect();
    if kinds.len() > 400 {
        return;
    }
    check_sequence(ctx, &kinds, &texts, &[], tag);
}

// Systematic chain x parenthesisation matrix (the configuration that exposes flattening faults).
fn chain_case(idx: u64) -> Option<(Vec<TK>, Vec<String>)> {
    // classes: 0 app, 1 mul/div, 2 add/sub
    let context = idx / chain_total_plain();
    let mut i = idx % chain_total_plain();
    for class in 0..3u32 {
        let opset: &[Option<TK>] = match class {
            0 => &[None],
            1 => &[Some(TK::Asterisk), Some(TK::Slash)],
            _ => &[Some(TK::Plus), Some(TK::Minus)],
        };
        for nops in 2..=4u32 {
            let nforms = 6u64;
            let combos = (opset.len() as u64).pow(nops - 1) * nforms.pow(nops);
            if i >= combos {
                i -= combos;
                continue;
            }
            let mut ops = vec![];
            let mut j = i / nforms.pow(nops);
            for _ in 0..nops - 1 {
                ops.push(opset[(j % opset.len() as u64) as usize]);
                j /= opset.len() as u64;
            }
            let mut forms = vec![];
            let mut f = i % nforms.pow(nops);
            for _ in 0..nops {
                forms.push(f % nforms);
                f /= nforms;
            }
            let mut kinds = vec![];
            let lit = |kinds: &mut Vec<TK>| kinds.push(TK::IntegerLiteral);
            let inner_op = |kinds: &mut Vec<TK>, same: bool| {
                let op = if same { opset[0] } else if class == 2 { Some(TK::Asterisk) } else { Some(TK::Plus) };
                if let Some(o) = op {
                    kinds.push(o);
                }
            };
            for k in 0..nops as usize {
                match forms[k] {
                    0 => lit(&mut kinds),
                    1 => {
                        kinds.push(TK::LeftParen);
                        lit(&mut kinds);
                        kinds.push(TK::RightParen);
                    }
                    2 | 3 => {
                        let depth = if forms[k] == 2 { 1 } else { 2 };
                        for _ in 0..depth {
                            kinds.push(TK::LeftParen);
                        }
                        lit(&mut kinds);
                        inner_op(&mut kinds, true);
                        lit(&mut kinds);
                        for _ in 0..depth {
                            kinds.push(TK::RightParen);
                        }
                    }
                    4 => {
                        kinds.push(TK::LeftParen);
                        lit(&mut kinds);
                        inner_op(&mut kinds, false);
                        lit(&mut kinds);
                        kinds.push(TK::RightParen);
                    }
                    _ => {
                        // a chain of three of the same class inside parentheses
                        kinds.push(TK::LeftParen);
                        lit(&mut kinds);
                        inner_op(&mut kinds, true);
                        lit(&mut kinds);
                        inner_op(&mut kinds, true);
                        lit(&mut kinds);
                        kinds.push(TK::RightParen);
                    }
                }
                if k + 1 < nops as usize {
                    if let Some(o) = ops[k] {
                        kinds.push(o);
                    }
                }
            }
            let kinds = embed_chain(kinds, context);
            let texts = default_texts(&kinds);
            return Some((kinds, texts));
        }
    }
    None
}

// The chain alone, or inside a construct whose re-association passes have to descend into it.
fn embed_chain(chain: Vec<TK>, context: u64) -> Vec<TK> {
    let paren = |mut v: Vec<TK>| {
        v.insert(0, TK::LeftParen);
        v.push(TK::RightParen);
        v
    };
    let mut out = vec![];
    match context {
        0 => return chain,
        1 => {
            // let annotation
            out.extend([TK::Identifier, TK::Colon]);
            out.extend(paren(chain));
            out.extend([TK::Equals, TK::IntegerLiteral, TK::Semi, TK::IntegerLiteral]);
        }
        2 => {
            // lambda domain
            out.extend([TK::LeftParen, TK::Identifier, TK::Colon]);
            out.extend(chain);
            out.extend([TK::RightParen, TK::ThickArrow, TK::IntegerLiteral]);
        }
        3 => {
            // condition and else branch
            out.push(TK::If);
            out.extend(chain.clone());
            out.extend([TK::Then, TK::IntegerLiteral, TK::Else]);
            out.extend(chain);
        }
        4 => {
            // definition and body of a group
            out.extend([TK::Identifier, TK::Equals]);
            out.extend(chain.clone());
            out.push(TK::Semi);
            out.extend(chain);
        }
        5 => {
            // pi domain and negation
            out.extend([TK::LeftCurly, TK::Identifier, TK::Colon]);
            out.extend(chain.clone());
            out.extend([TK::RightCurly, TK::ThinArrow, TK::Minus]);
            out.extend(paren(chain));
        }
        _ => {
            // operand of a comparison and argument of an application
            out.extend(chain.clone());
            out.push(TK::LessThanOrEqualTo);
            out.extend([TK::IntegerLiteral]);
            out.extend(paren(chain));
        }
    }
    out
}

const CHAIN_CONTEXTS: u64 = 7;

fn chain_total() -> u64 {
    chain_total_plain() * CHAIN_CONTEXTS
}

fn chain_total_plain() -> u64 {
    let mut t = 0;
    for opn in [1u64, 2, 2] {
        for nops in 2..=4u32 {
            t += opn.pow(nops - 1) * 6u64.pow(nops);
        }
    }
    t
}

pub const CTX_NAMES: [&str; 6] = ["a", "b", "c", "f", "g", "é"];

pub fn sentence_texts(kinds: &[TK], binder: &[bool], r: &mut Rng) -> Vec<String> {
    let mut lit = 0u32;
    kinds
        .iter()
        .enumerate()
        .map(|(i, k)| match k {
            TK::Identifier => {
                if binder.get(i).copied().unwrap_or(false) || r.chance(1, 6) {
                    "_".to_owned()
                } else {
                    CTX_NAMES[r.usize(CTX_NAMES.len())].to_owned()
                }
            }
            TK::IntegerLiteral => {
                lit += 1;
                lit.to_string()
            }
            k => k.text().to_owned(),
        })
        .collect()
}

impl Prop for C07P {
    fn id(&self) -> &'static str {
        "C07"
    }
    fn plan(&self, tier: Tier, _seed: u64) -> Plan {
        let nk = grammar_kinds().len() as u64;
        let total = crate::props::c09::enum_total(nk, tok_maxlen(tier));
        let mut p = Plan::new(
            vec![
                sec("pinned", 160),
                sec_ex("token-sequences-exhaustive", total.div_ceil(BLOCK)),
                sec_ex("chain-parenthesisation-matrix", chain_total()),
                sec("random-sentences", tier.pick(24_000, 250_000)),
                sec("sentence-mutants", tier.pick(4_000, 80_000)),
                sec("level-confusion-sentences", tier.pick(40_000, 400_000)),
            ],
            "every token sequence of <=4 (quick) / <=5 (thorough) tokens over the 28 terminals of grammar.y (identifiers spelled `_`); every chain of 2-4 operands of application, * /, + - with each operand in 6 parenthesisation forms, alone and embedded in 6 enclosing constructs (let annotation, lambda domain, condition and branch, definition and body, implicit-pi domain and negation, comparison operand and application argument); near-sentences in which one nonterminal was expanded at the wrong precedence level; random sentences derived from grammar.y (3-80 tokens, variables drawn from an initial context, distinct literals) and their single-token deletions/insertions/substitutions; each judged by an independent chart parser that reads grammar.y: accept/reject, number of derivations, and the left-associated tree; non-trivial = distinct sentence accepted by the reference",
        );
        p.assumptions = vec![
            "the AST of a derivation is the table of DESIGN.md A.3; a parenthesised definition group in body position is compared modulo gram's merge into the enclosing group (DESIGN.md C07 L)".into(),
            "identifiers are `_` or names of the initial context so that scoping cannot reject; rejections that carry only scoping/definition-order messages count as syntactic acceptance".into(),
        ];
        p.floor_evaluations = 300_000;
        p.floor_nontrivial = 10_000;
        p.case_timeout_s = 60;
        p
    }
    fn run_case(&self, ctx: &mut Ctx, section: &str, idx: u64) {
        match section {
            "pinned" => {
                let mut progs = crate::corpus::witnesses(&ctx.known_witnesses());
                progs.extend(crate::corpus::all());
                if let Some(p) = progs.get(idx as usize) {
                    check_source(ctx, p, "corpus");
                }
            }
            "token-sequences-exhaustive" => {
                let kinds = grammar_kinds();
                let l = tok_maxlen(ctx.tier);
                let total = crate::props::c09::enum_total(kinds.len() as u64, l);
                let lo = idx * BLOCK;
                let hi = (lo + BLOCK).min(total);
                for i in lo..hi {
                    let seq = enum_seq(&kinds, i, l);
                    let texts = default_texts(&seq);
                    check_sequence(ctx, &seq, &texts, &[], "exhaustive");
                }
                ctx.max("exhaustive_token_sequence_length", u64::from(l));
            }
            "chain-parenthesisation-matrix" => {
                if let Some((kinds, texts)) = chain_case(idx) {
                    check_sequence(ctx, &kinds, &texts, &[], "chain");
                }
            }
            "level-confusion-sentences" => {
                let Ok(g) = grammar() else {
                    ctx.inconclusive("grammar-unreadable");
                    return;
                };
                let mut r = Rng::for_case(ctx.seed, 6, idx);
                let budget = 3 + r.usize(22);
                let s = confused_sentence(g, &mut r, budget);
                if s.kinds.len() > 70 || s.kinds.is_empty() {
                    return;
                }
                // binder flags are unreliable here: every identifier is `_`
                let texts = default_texts(&s.kinds);
                check_sequence(ctx, &s.kinds, &texts, &[], "confused");
            }
            "random-sentences" | "sentence-mutants" => {
                let Ok(g) = grammar() else {
                    ctx.inconclusive("grammar-unreadable");
                    return;
                };
                let mutants = section == "sentence-mutants";
                let mut r = Rng::for_case(ctx.seed, if mutants { 5 } else { 4 }, idx);
                let budget = if r.chance(1, 10) { 30 + r.usize(50) } else { 3 + r.usize(25) };
                let s = random_sentence(g, &mut r, budget);
                if s.kinds.len() > 90 {
                    return;
                }
                let texts = sentence_texts(&s.kinds, &s.binder, &mut r);
                if !mutants {
                    check_sequence(ctx, &s.kinds, &texts, &CTX_NAMES, "random");
                    return;
                }
                let all = grammar_kinds();
                for _ in 0..6 {
                    let mut k = s.kinds.clone();
                    let mut t = texts.clone();
                    if k.is_empty() {
                        break;
                    }
                    let pos = r.usize(k.len());
                    let nk = if r.chance(1, 8) { TK::LineBreak } else { all[r.usize(all.len())] };
                    let nt = match nk {
                        TK::Identifier => "_".to_owned(),
                        TK::IntegerLiteral => "77".to_owned(),
                        k => k.text().to_owned(),
                    };
                    match r.below(3) {
                        0 => {
                            k.remove(pos);
                            t.remove(pos);
                            ctx.count("mutants:deletion");
                        }
                        1 => {
                            k.insert(pos, nk);
                            t.insert(pos, nt);
                            ctx.count("mutants:insertion");
                        }
                        _ => {
                            k[pos] = nk;
                            t[pos] = nt;
                            ctx.count("mutants:substitution");
                        }
                    }
                    check_sequence(ctx, &k, &t, &CTX_NAMES, "mutant");
                }
            }
            _ => {}
        }
    }
    fn describe(&self, _tier: Tier, _seed: u64, section: &str, idx: u64) -> String {
        match section {
            "chain-parenthesisation-matrix" => chain_case(idx).map(|(k, t)| synth_texts(&k, &t).0).unwrap_or_default(),
            _ => String::new(),
        }
    }
}

// Source text -> H through the reference tokenizer and the reference chart parser (no gram code).
pub fn parse_to_h(src: &str) -> Option<crate::hast::H> {
    let g = grammar().as_ref().ok()?;
    let toks = rtok::rtok(src).ok()?;
    if toks.len() > 400 {
        return None;
    }
    let kinds: Vec<TK> = toks.iter().map(|t| t.kind).collect();
    let texts: Vec<String> = toks.iter().map(|t| src[t.start..t.end].to_owned()).collect();
    let mut chart = Chart::new(g, &kinds);
    if chart.derivations() != 1 {
        return None;
    }
    let tree = chart.tree()?;
    let h = tree_to_h(g, &tree, &texts).ok()?;
    Some(reassociate(&h))
}
