// C06 - definitional equality used by the checker agrees with evaluation.
// Oracles: the evaluator trace produced by the harness's step loop (whnf of a ground program must
// be the literal it evaluates to; every term unifies with itself, with itself behind solved holes, and with each of its reducts),
// symmetry, and agreement of unify with equality of R-core normal forms on hole-free pairs.
use crate::core::Nbe;
use crate::eterm::{E, mirror, to_gram};
use crate::fw::{Ctx, Plan, Prop, Tier, guard, panic_site, sec};
use crate::gen_prog::{GT, Mode, gen_program, gen_program_of, gen_program_with};
use crate::perturb::perturb;
use crate::pipe::{Front, Opts, Run, observe};
use crate::printer::{Style, print};
use crate::typed::{NBE_FUEL, normal_forms_equal, rcore_eval_closed};
use crate::unifier::unify;
use crate::util::{Json, Rng, clip, hash_str};

pub struct C06P;
pub static C06: C06P = C06P;

fn viol(ctx: &mut Ctx, key: &str, what: &str, src: &str) {
    ctx.violation(key, what, Json::obj().set("source", Json::s(&clip(src, 3000))));
}

fn gram_unify(a: &E, b: &E) -> Result<bool, String> {
    guard(|| {
        let (ta, tb) = (to_gram(a), to_gram(b));
        let mut dc = vec![];
        let r = unify(&ta, &tb, &mut dc);
        assert!(dc.is_empty(), "definitions context not restored by unify");
        r
    })
}

// (1)+(2): one program, its whnf, its reducts
pub fn check_program(ctx: &mut Ctx, src: &str) {
    ctx.eval();
    let mut opts = Opts::run(1500);
    opts.trace_every = 1;
    opts.max_trace = 30;
    opts.whnf = false;
    let obs = observe(src, &[], &opts);
    if !matches!(obs.front, Front::Accepted) {
        ctx.count("not-accepted");
        return;
    }
    let Some(elab) = &obs.elab else { return };
    let t = elab.zonk();
    if t.has_hole() {
        ctx.count("skipped:residual-holes");
        return;
    }
    ctx.nontrivial(hash_str(src));
    // reflexivity
    match gram_unify(&t, &t) {
        Ok(true) => ctx.count("reflexive"),
        Ok(false) => {
            viol(ctx, "not-reflexive", "unify(t, t) is false for a hole-free accepted term", src);
            return;
        }
        Err(p) => {
            viol(ctx, &format!("unify-panic@{}", panic_site(&p)), &p, src);
            return;
        }
    }
    // a solved hole is transparent: the same term with some subterms behind solved holes (written
    // 0-3 binders further out) unifies with the plain term, both ways
    let mut wr = Rng::for_case(hash_str(src), 7, 0);
    let mut wrapped: Vec<E> = vec![];
    for round in 0..3u32 {
        let k = 1 + wr.usize(3);
        let tw = crate::emut::wrap_solved(&t, &mut wr, k, 5000 + 10 * round, 0);
        if tw == t {
            continue;
        }
        for (x, y, dir) in [(&tw, &t, "wrapped-vs-plain"), (&t, &tw, "plain-vs-wrapped")] {
            match gram_unify(x, y) {
                Ok(true) => ctx.count("solved-hole-wrappings-unified"),
                Ok(false) => {
                    viol(ctx, "solved-hole-not-transparent:unify", &format!("unify is false for a term and the same term with subterms behind solved holes ({dir}): {}", clip(&tw.show(), 400)), src);
                    return;
                }
                Err(p) => {
                    viol(ctx, &format!("unify-panic@{}", panic_site(&p)), &p, src);
                    return;
                }
            }
        }
        wrapped.push(tw);
    }
    // reducts on the evaluation trace (only meaningful when the run terminates: a diverging
    // program has no normal form and unify may legitimately not return)
    let terminated = matches!(obs.run, Run::Value { .. });
    // From here on the program is known to evaluate to a value within the step budget: nothing in
    // it can make normal-order normalisation diverge or nest millions of frames deep, so a worker
    // death (stack exhaustion) below is the normaliser's or the unifier's doing. The flag travels
    // through the progress file.
    ctx.set_flag(if terminated { 1 } else { 0 });
    if terminated {
        let mut k = 0;
        for rd in &obs.trace {
            let rd = rd.zonk();
            if rd.has_hole() {
                continue;
            }
            k += 1;
            for (x, y, dir) in [(&t, &rd, "term-vs-reduct"), (&rd, &t, "reduct-vs-term")] {
                match gram_unify(x, y) {
                    Ok(true) => ctx.count("reducts-unified"),
                    Ok(false) => {
                        viol(ctx, "reduct-not-equal", &format!("unify is false for a term and its reduct after {k} steps ({dir}): {}", clip(&rd.show(), 300)), src);
                        return;
                    }
                    Err(p) => {
                        viol(ctx, &format!("unify-panic@{}", panic_site(&p)), &p, src);
                        return;
                    }
                }
            }
        }
        ctx.max("max_reducts_checked_per_trace", k);
    }
    // evaluation gets stuck (not on a division by zero) although the checker's normaliser computes
    // a literal for the same hole-free term: the two do not agree on what the program is
    if let Run::Stuck { class, term, .. } = &obs.run {
        if *class != crate::pipe::StuckClass::DivByZero {
            let w = guard(|| {
                let g = to_gram(&t);
                let mut dc = vec![];
                mirror(&crate::normalizer::normalize_weak_head(&g, &mut dc))
            });
            match w {
                Ok(w) if matches!(w, E::Lit(_) | E::True | E::False) => {
                    viol(ctx, "evaluation-stuck-where-whnf-is-a-literal", &format!("normalize_weak_head gives {} but evaluation is stuck on {term}", w.show()), src);
                }
                _ => ctx.count("evaluation-stuck(C01)"),
            }
        }
    }
    // whnf of a ground program is the literal it evaluates to
    if let Run::Value { value, .. } = &obs.run {
        let v = value.zonk();
        if matches!(v, E::Lit(_) | E::True | E::False) {
            let w = guard(|| {
                let g = to_gram(&t);
                let mut dc = vec![];
                mirror(&crate::normalizer::normalize_weak_head(&g, &mut dc))
            });
            match w {
                Ok(w) => {
                    if w != v {
                        viol(ctx, "whnf-differs-from-evaluation", &format!("normalize_weak_head gives {} but evaluation gives {}", clip(&w.show(), 200), v.show()), src);
                    } else {
                        ctx.count("whnf-equals-evaluation");
                    }
                }
                Err(p) => viol(ctx, &format!("whnf-panic@{}", panic_site(&p)), &p, src),
            }
            // and the same through solved holes
            for tw in &wrapped {
                let w = guard(|| {
                    let g = to_gram(tw);
                    let mut dc = vec![];
                    mirror(&crate::normalizer::normalize_weak_head(&g, &mut dc)).zonk()
                });
                match w {
                    Ok(w) if w == v => ctx.count("whnf-through-solved-holes"),
                    Ok(w) => viol(ctx, "solved-hole-not-transparent:whnf", &format!("normalize_weak_head of the term with subterms behind solved holes gives {} but evaluation gives {}: {}", clip(&w.show(), 200), v.show(), clip(&tw.show(), 300)), src),
                    Err(p) => viol(ctx, &format!("whnf-panic@{}", panic_site(&p)), &p, src),
                }
            }
        }
    }
    ctx.set_flag(0);
}

// (3): pairs of hole-free well-typed terms of the same type
pub fn check_pair(ctx: &mut Ctx, a_src: &str, b_src: &str) {
    ctx.eval();
    let get = |s: &str| {
        let o = observe(s, &[], &Opts::check_only());
        if matches!(o.front, Front::Accepted) { o.elab.map(|e| e.zonk()).filter(|e| !e.has_hole()) } else { None }
    };
    let (Some(a), Some(b)) = (get(a_src), get(b_src)) else {
        ctx.count("pair-skipped");
        return;
    };
    let both = format!("{a_src}\n-- versus --\n{b_src}");
    let (ab, ba) = match (gram_unify(&a, &b), gram_unify(&b, &a)) {
        (Ok(x), Ok(y)) => (x, y),
        (Err(p), _) | (_, Err(p)) => {
            viol(ctx, &format!("unify-panic@{}", panic_site(&p)), &p, &both);
            return;
        }
    };
    ctx.nontrivial(hash_str(&both));
    if ab != ba {
        viol(ctx, "not-symmetric", &format!("unify(a, b) = {ab} but unify(b, a) = {ba}"), &both);
        return;
    }
    ctx.count("symmetric-pairs");
    let nbe = Nbe::new(NBE_FUEL);
    match (rcore_eval_closed(&nbe, &a), rcore_eval_closed(&nbe, &b)) {
        (Ok(va), Ok(vb)) => match normal_forms_equal(&nbe, &va, &vb) {
            Ok(eq) => {
                ctx.count(&format!("unify={ab}/normal-forms-equal={eq}"));
                if eq != ab {
                    viol(ctx, "unify-disagrees-with-normal-forms", &format!("unify says {ab} but the normal forms are {}", if eq { "equal" } else { "different" }), &both);
                }
            }
            Err(_) => ctx.inconclusive("reference-fuel"),
        },
        _ => ctx.inconclusive("reference-fuel"),
    }
}

// gram's normaliser is call-by-name without sharing: passing the result of a recursive function
// to a recursive function makes it exponential (a cost, not a disagreement), so most cases here
// are generated without recursive definitions.
fn gen_for_reducts(r: &mut Rng, idx: u64) -> crate::gen_prog::Program {
    if idx % 4 == 0 {
        gen_program(r, Mode::Explicit)
    } else {
        let ty = match r.below(6) {
            0 | 1 | 2 => GT::Int,
            3 => GT::Bool,
            4 => GT::Type,
            _ => GT::arrow(GT::Int, GT::Int),
        };
        gen_program_with(r, Mode::Explicit, &ty, false)
    }
}

// (4): a hole-free well-typed term against a structural edit of it that R-core still accepts at
// the same type (so the pair is within the statement of the property)
pub fn check_edited_pair(ctx: &mut Ctx, src: &str, r: &mut Rng) {
    let o = observe(src, &[], &Opts::check_only());
    if !matches!(o.front, Front::Accepted) {
        return;
    }
    let Some(a) = o.elab.map(|e| e.zonk()).filter(|e| !e.has_hole()) else { return };
    for _ in 0..4 {
        let tt = std::time::Instant::now();
        let Some((b, kind)) = crate::emut::edit(&a, r) else { continue };
        if ctx.replay_mode {
            println!("edit {kind} took {:?}", tt.elapsed());
        }
        if crate::emut::max_free(&b, 0).is_some() {
            ctx.count("edit-discarded:not-closed");
            continue;
        }
        let nbe = Nbe::new(NBE_FUEL);
        let (ja, jb) = match (crate::typed::rcore_infer(&nbe, &a), crate::typed::rcore_infer(&nbe, &b)) {
            (Ok(x), Ok(y)) => (x, y),
            _ => {
                ctx.count("edit-discarded:ill-typed");
                continue;
            }
        };
        if ctx.replay_mode {
            println!("reference inference took {:?}", tt.elapsed());
        }
        if !matches!(nbe.conv(&ja.ty, &jb.ty), Ok(true)) {
            ctx.count("edit-discarded:different-type");
            continue;
        }
        // the reference goes first: if it cannot normalise both terms within its fuel (an edit can
        // create a diverging definition cycle) gram is not asked either
        let (va, vb) = match (nbe.eval(&ja.term, &crate::core::Env::empty()), nbe.eval(&jb.term, &crate::core::Env::empty())) {
            (Ok(x), Ok(y)) => (x, y),
            _ => {
                ctx.count("edit-discarded:reference-fuel");
                continue;
            }
        };
        let Ok(eq) = normal_forms_equal(&nbe, &va, &vb) else {
            ctx.count("edit-discarded:reference-fuel");
            continue;
        };
        if ctx.replay_mode {
            println!("reference normal forms took {:?}", tt.elapsed());
        }
        ctx.eval();
        ctx.count(&format!("edit:{kind}"));
        let both = format!("{}\n-- versus ({kind}) --\n{}", clip(&a.show(), 1200), clip(&b.show(), 1200));
        if ctx.replay_mode {
            println!("PAIR {both}");
        }
        let t0 = std::time::Instant::now();
        let (ab, ba) = match (gram_unify(&a, &b), gram_unify(&b, &a)) {
            (Ok(x), Ok(y)) => (x, y),
            (Err(p), _) | (_, Err(p)) => {
                viol(ctx, &format!("unify-panic@{}", panic_site(&p)), &p, &both);
                return;
            }
        };
        if ctx.replay_mode {
            println!("gram unify took {:?}", t0.elapsed());
        }
        ctx.nontrivial(hash_str(&both));
        if ab != ba {
            viol(ctx, "not-symmetric", &format!("unify(a, b) = {ab} but unify(b, a) = {ba}"), &both);
            return;
        }
        ctx.count(&format!("edited:unify={ab}/normal-forms-equal={eq}"));
        if eq != ab {
            viol(ctx, "unify-disagrees-with-normal-forms", &format!("after `{kind}` unify says {ab} but the normal forms are {}", if eq { "equal" } else { "different" }), &both);
            return;
        }
    }
}

impl Prop for C06P {
    fn id(&self) -> &'static str {
        "C06"
    }
    fn plan(&self, tier: Tier, _seed: u64) -> Plan {
        let mut p = Plan::new(
            vec![sec("pinned", 200), crate::fw::sec_ex("operator-table", (9 * crate::props::c02::NOPER * crate::props::c02::NOPER) as u64), sec("programs-and-reducts", tier.pick(20_000, 200_000)), sec("pairs-of-same-type", tier.pick(16_000, 160_000)), sec("edited-pairs", tier.pick(16_000, 160_000))],
            "generated explicit programs of ground and function type (strongly normalising by construction): unify(t, t); unify of t with each of its first 30 reducts on the evaluation trace, in both directions; normalize_weak_head of ground programs against the evaluated literal; pairs of independently generated terms of the same type, pairs (t, perturbed t) and pairs (t, structurally edited t: tweaked literal, flipped boolean, dropped/swapped/duplicated definitions of a group, swapped branches or operands; kept when R-core accepts the edit at the same type): unify(a, b) = unify(b, a) = equality of the reference's normal forms; non-trivial = distinct hole-free accepted program or pair",
        );
        p.assumptions = vec![
            "hole-free terms only: elaborated terms with solved holes followed; terms with residual holes are skipped".into(),
            "normal forms are computed by R-core (NbE) and compared up to alpha, ignoring parameter annotations of functions".into(),
        ];
        p.floor_evaluations = 8_000;
        p.floor_nontrivial = 4_000;
        p.case_timeout_s = 8;
        p.flagged_death_is_violation = true;
        p
    }
    fn run_case(&self, ctx: &mut Ctx, section: &str, idx: u64) {
        match section {
            "pinned" => {
                let progs = crate::corpus::all();
                if let Some(p) = progs.get(idx as usize) {
                    if p.contains("omega") || p.contains("loop") || p.contains("t = int -> t") || p.contains("f x\nf true") {
                        return;
                    }
                    check_program(ctx, p);
                }
            }
            "programs-and-reducts" => {
                let mut r = Rng::for_case(ctx.seed, 1, idx);
                let p = gen_for_reducts(&mut r, idx);
                let src = print(&p.h, &Style::varied(&mut r), idx).text;
                check_program(ctx, &src);
            }
            "operator-table" => {
                // the normaliser has its own arithmetic: every operator on every pair of the
                // operands of C02's table, through unify (term against reduct) and whnf
                let n = crate::props::c02::NOPER;
                let op = crate::eterm::ALL_OPS[(idx as usize) / (n * n)];
                let h = crate::hast::H::Bin(op, crate::hast::hb(crate::props::c02::operand((idx as usize / n) % n)), crate::hast::hb(crate::props::c02::operand(idx as usize % n)));
                let src = print(&h, &Style::plain(), 0).text;
                check_program(ctx, &src);
            }
            "edited-pairs" => {
                let mut r = Rng::for_case(ctx.seed, 3, idx);
                // no recursive definitions: an edit can turn a terminating recursion into a diverging one
                let p = gen_for_reducts(&mut r, 1);
                let src = print(&p.h, &Style::plain(), 0).text;
                check_edited_pair(ctx, &src, &mut r);
            }
            "pairs-of-same-type" => {
                let mut r = Rng::for_case(ctx.seed, 2, idx);
                let ty = match r.below(6) {
                    0 | 1 => GT::Int,
                    2 => GT::Bool,
                    3 => GT::Type,
                    4 => GT::arrow(GT::Int, GT::Int),
                    _ => GT::arrow(GT::Int, GT::arrow(GT::Bool, GT::Int)),
                };
                let a = gen_program_with(&mut r, Mode::Explicit, &ty, idx % 4 == 0);
                let a_src = print(&a.h, &Style::plain(), 0).text;
                let b_src = match r.below(3) {
                    0 => {
                        // a perturbed copy (often equal up to conversion, often not)
                        let m = perturb(&a.h, &mut r).map_or(a.h.clone(), |x| x.0);
                        print(&m, &Style::plain(), 0).text
                    }
                    1 => {
                        // the same term behind a beta-redex / a definition
                        format!("(w : int = 0; {a_src})")
                    }
                    _ => print(&gen_program_with(&mut r, Mode::Explicit, &ty, idx % 4 == 0).h, &Style::plain(), 0).text,
                };
                check_pair(ctx, &a_src, &b_src);
            }
            _ => {}
        }
    }
    fn describe(&self, _tier: Tier, seed: u64, section: &str, idx: u64) -> String {
        match section {
            "programs-and-reducts" => {
                let mut r = Rng::for_case(seed, 1, idx);
                let p = gen_for_reducts(&mut r, idx);
                print(&p.h, &Style::varied(&mut r), idx).text
            }
            _ => String::new(),
        }
    }
}
