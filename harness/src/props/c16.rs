// C16 - printed terms read back as the same term.
// Oracle: round trip parse -> Display -> tokenize+parse in the same scope, compared with exact
// structural equality (holes by position, names of unused function-type parameters aside).
use crate::eterm::{ALL_OPS, E, Op, mirror};
use crate::fw::{Ctx, Plan, Prop, Tier, guard, panic_site, sec, sec_ex};
use crate::gen_syn::{SynCfg, SynGen};
use crate::hast::{H, canon_holes, hb};
use crate::parser::parse;
use crate::printer::{Style, print};
use crate::tokenizer::tokenize;
use crate::util::{Json, Rng, clip, hash_str};

pub struct C16P;
pub static C16: C16P = C16P;

pub const D14_KEY: &str = "print:(Pi implicit, non-dependent)";

fn norm(e: &E) -> E {
    canon_holes(&e.forget_holes().norm_unused_pi_names())
}

pub enum Rt {
    Skipped,
    Ok,
    Failed,
}

fn has_implicit_nondep_pi(e: &E) -> bool {
    e.any(&mut |x| matches!(x, E::Pi(_, true, _, b) if !crate::eterm::e_mentions(b, 0)))
}

fn make_pis_explicit(e: &E) -> E {
    match e {
        E::Pi(n, true, d, b) if !crate::eterm::e_mentions(b, 0) => E::Pi(n.clone(), false, Box::new(make_pis_explicit(d)), Box::new(make_pis_explicit(b))),
        E::Hole(id, sh, c) => E::Hole(*id, *sh, c.as_ref().map(|c| Box::new(make_pis_explicit(c)))),
        other => other.map_children(&mut |c, _| make_pis_explicit(c)),
    }
}

// Print a gram term built from E and read it back; Ok(None) = same, Ok(Some(reason)) = not.
fn reread(e: &E, context: &[&str]) -> Result<Option<String>, String> {
    guard(|| {
        let t = crate::eterm::to_gram(e);
        let text = t.to_string();
        let toks = match tokenize(None, &text) {
            Ok(t) => t,
            Err(es) => return Some(format!("printed text does not tokenize: {}", es[0].message)),
        };
        match parse(None, &text, &toks[..], context) {
            Ok(t2) => {
                let (a, b) = (norm(e), norm(&mirror(&t2)));
                if a == b { None } else { Some(format!("printed text {text:?} reads back as {} instead of {}", clip(&b.show(), 300), clip(&a.show(), 300))) }
            }
            Err(es) => Some(format!("printed text {text:?} does not parse: {}", clip(&es[0].message, 200))),
        }
    })
}

// The oracle for one source text. `cell` names the matrix cell when there is one.
pub fn roundtrip(ctx: &mut Ctx, src: &str, context: &[&str], cell: Option<&str>) -> Rt {
    ctx.eval();
    // 1. obtain a parser-produced term
    let first = guard(|| {
        let toks = tokenize(None, src).ok()?;
        let t = parse(None, src, &toks[..], context).ok()?;
        Some((mirror(&t), t.to_string()))
    });
    let (e1, text) = match first {
        Ok(Some(x)) => x,
        Ok(None) => {
            ctx.count("source-not-accepted");
            return Rt::Skipped;
        }
        Err(p) => {
            ctx.violation(&format!("display-panic@{}", panic_site(&p)), &format!("parse or Display panicked: {p}"), Json::obj().set("source", Json::s(&clip(src, 1500))));
            return Rt::Failed;
        }
    };
    ctx.nontrivial(hash_str(&text));
    // 2. read the printed text back
    let second = guard(|| {
        let toks = match tokenize(None, &text) {
            Ok(t) => t,
            Err(es) => return Err(format!("printed text does not tokenize: {}", clip(&es[0].message, 200))),
        };
        match parse(None, &text, &toks[..], context) {
            Ok(t2) => Ok(mirror(&t2)),
            Err(es) => Err(format!("printed text does not parse: {}", clip(&es[0].message, 300))),
        }
    });
    let problem = match second {
        Err(p) => Some((format!("reparse-panic@{}", panic_site(&p)), format!("reading the printed text back panicked: {p}"))),
        Ok(Err(m)) => Some(("reparse-fails".to_owned(), m)),
        Ok(Ok(e2)) => {
            let (a, b) = (norm(&e1), norm(&e2));
            if a == b { None } else { Some(("reparse-differs".to_owned(), format!("reads back as {} instead of {}", clip(&b.show(), 400), clip(&a.show(), 400)))) }
        }
    };
    match problem {
        None => {
            ctx.count("roundtrips-equal");
            if let Some(c) = cell {
                ctx.count("matrix-cells-equal");
                let _ = c;
            }
            if ctx.idx % 401 == 0 {
                ctx.sample(Json::obj().set("source", Json::s(&clip(src, 160))).set("printed", Json::s(&clip(&text, 200))));
            }
            Rt::Ok
        }
        Some((mut key, what)) => {
            // attribute to the known non-dependent implicit Pi form only if the same term with those
            // function types made explicit reads back fine
            if has_implicit_nondep_pi(&e1) {
                let patched = make_pis_explicit(&e1);
                if let Ok(None) = reread(&patched, context) {
                    key = D14_KEY.to_owned();
                }
            }
            if let Some(c) = cell {
                if key != D14_KEY {
                    key = format!("{key}@{c}");
                }
            }
            ctx.violation(&key, &format!("{what}; printed text: {}", clip(&text, 400)), Json::obj().set("source", Json::s(&clip(src, 1500))).set("printed", Json::s(&clip(&text, 1500))).set("cell", Json::s(cell.unwrap_or(""))));
            Rt::Failed
        }
    }
}

// A binder named `_` whose variable occurs in its scope (possible only in elaborated terms: a
// function type invented by unification before the definition it describes was checked keeps the
// binder name `_`, while the occurrences carry the names of the definition's own binders): give
// the binder the name its occurrences use.
fn name_used_placeholders(e: &E) -> E {
    fn occurrence_name(e: &E, idx: usize) -> Option<String> {
        let mut found = None;
        fn go(e: &E, idx: usize, found: &mut Option<String>) {
            if found.is_some() {
                return;
            }
            match e {
                E::Var(n, i) if *i == idx => *found = Some(n.clone()),
                E::Hole(_, sh, Some(c)) => {
                    if idx >= *sh {
                        go(c, idx - sh, found);
                    }
                }
                E::Hole(..) => {}
                other => {
                    let _ = other.map_children(&mut |c, binders| {
                        go(c, idx + binders, found);
                        c.clone()
                    });
                }
            }
        }
        go(e, idx, &mut found);
        found
    }
    match e {
        E::Pi(n, im, d, b) | E::Lam(n, im, d, b) if n == "_" => {
            let name = occurrence_name(b, 0).unwrap_or_else(|| "_".to_owned());
            let (d2, b2) = (Box::new(name_used_placeholders(d)), Box::new(name_used_placeholders(b)));
            if matches!(e, E::Pi(..)) { E::Pi(name, *im, d2, b2) } else { E::Lam(name, *im, d2, b2) }
        }
        E::Hole(id, sh, c) => E::Hole(*id, *sh, c.as_ref().map(|c| Box::new(name_used_placeholders(c)))),
        other => other.map_children(&mut |c, _| name_used_placeholders(c)),
    }
}

// What `gram check` displays: the elaborated term and its type, as printed by gram, must read
// back (in the empty context) as the term that was checked, solved holes replaced by their
// solutions and unsolved ones by `_`.
pub fn elaborated_roundtrip(ctx: &mut Ctx, src: &str) {
    use crate::pipe::{Front, Opts, observe};
    ctx.eval();
    let obs = observe(src, &[], &Opts::check_only());
    if !matches!(obs.front, Front::Accepted) {
        ctx.count("elaborated:source-not-accepted");
        return;
    }
    for (what, term, text) in [("term", &obs.elab, &obs.elab_text), ("type", &obs.ty, &obs.ty_text)] {
        let Some(e) = term else { continue };
        let want = e.zonk();
        ctx.nontrivial(hash_str(text));
        let back = guard(|| {
            let toks = match tokenize(None, text) {
                Ok(t) => t,
                Err(es) => return Err(format!("does not tokenize: {}", clip(&es[0].message, 200))),
            };
            match parse(None, text, &toks[..], &[]) {
                Ok(t2) => Ok(mirror(&t2)),
                Err(es) => Err(format!("does not parse: {}", clip(&es[0].message, 300))),
            }
        });
        let problem = match back {
            Err(p) => Some((format!("elaborated-reparse-panic@{}", panic_site(&p)), p)),
            Ok(Err(m)) => Some(("elaborated-text-fails-to-read-back".to_owned(), m)),
            Ok(Ok(e2)) => {
                let (a, b) = (norm(&want), norm(&e2));
                if a == b { None } else { Some(("elaborated-text-reads-back-differently".to_owned(), format!("reads back as {} instead of {}", clip(&b.show(), 400), clip(&a.show(), 400)))) }
            }
        };
        match problem {
            None => ctx.count(&format!("elaborated-{what}-roundtrips")),
            Some((key, m)) => {
                // Information only. The property quantifies over terms obtained by parsing; the
                // output of elaboration is outside it and does not read back on the unchanged tree
                // for two inherent reasons: a function type invented by unification keeps the
                // binder name `_` while its occurrences carry names, and copying types into
                // terms puts a binder under a binder of the same name (which the parser forbids).
                let class = if key.contains("panic") {
                    "panic"
                } else if name_used_placeholders(&want) != want {
                    "placeholder-binder-used-by-name"
                } else if m.contains("already exists") {
                    "copy-created-shadowing"
                } else if has_implicit_nondep_pi(&want) {
                    "implicit-non-dependent-pi"
                } else {
                    "other"
                };
                ctx.count(&format!("elaborated-{what}-does-not-read-back:{class}"));
                if class == "other" || class == "panic" {
                    ctx.sample(Json::obj().set("elaborated_display_other", Json::s(&clip(&m, 300))).set("printed", Json::s(&clip(text, 600))));
                }
                return;
            }
        }
    }
}

// ---------------------------------------------------------------------------------------------
// (parent former, operand position, child former) matrix at source level.

fn v(s: &str) -> H {
    H::var(s)
}

pub fn children() -> Vec<(&'static str, H)> {
    let lam = |n: &str, im: bool, d: Option<H>, b: H| H::Lam(n.to_owned(), im, d.map(hb), hb(b));
    let pi = |n: &str, im: bool, d: H, b: H| H::Pi(n.to_owned(), im, hb(d), hb(b));
    let mut c: Vec<(&'static str, H)> = vec![
        ("type", H::Type),
        ("int", H::Int),
        ("bool", H::Bool),
        ("true", H::True),
        ("false", H::False),
        ("literal", H::lit(7)),
        ("big-literal", H::Lit("123456789012345678901234567890".parse().unwrap())),
        ("variable", v("c")),
        ("hole", v("_")),
        ("lambda", lam("q", false, Some(H::Int), v("q"))),
        ("lambda-unannotated", lam("q", false, None, v("q"))),
        ("lambda-implicit", lam("q", true, Some(H::Type), v("q"))),
        ("lambda-implicit-unannotated", lam("q", true, None, v("c"))),
        ("lambda-placeholder", lam("_", false, Some(H::Int), v("c"))),
        ("pi", pi("q", false, H::Type, v("q"))),
        ("pi-implicit", pi("q", true, H::Type, v("q"))),
        ("pi-unused-named", pi("q", false, H::Int, H::Bool)),
        ("pi-implicit-unused", pi("q", true, H::Int, H::Bool)),
        ("arrow", pi("_", false, H::Int, H::Bool)),
        ("arrow-left-nested", pi("_", false, pi("_", false, H::Int, H::Int), H::Bool)),
        ("application", H::App(hb(v("c")), hb(v("d")))),
        ("application-chain", H::App(hb(H::App(hb(v("c")), hb(v("d")))), hb(H::lit(1)))),
        ("application-nested-argument", H::App(hb(v("c")), hb(H::App(hb(v("d")), hb(H::lit(1)))))),
        ("let", H::Let("q".into(), Some(hb(H::Int)), hb(H::lit(1)), hb(v("q")))),
        ("let-unannotated", H::Let("q".into(), None, hb(H::lit(1)), hb(v("q")))),
        ("let-two", H::Let("q".into(), None, hb(H::lit(1)), hb(H::Let("r".into(), Some(hb(H::Int)), hb(v("q")), hb(v("r")))))),
        ("negation", H::Neg(hb(v("c")))),
        ("double-negation", H::Neg(hb(H::Neg(hb(H::lit(2)))))),
        ("if", H::If(hb(H::True), hb(H::lit(1)), hb(v("c")))),
        // children that mention the parent's binder `p` in one place only (unparseable, hence
        // skipped, under parents that bind nothing)
        ("let-annotation-mentions-parent-binder", H::Let("q".into(), Some(hb(H::If(hb(H::True), hb(H::Int), hb(v("p"))))), hb(H::lit(1)), hb(H::Int))),
        ("let-definition-mentions-parent-binder", H::Let("q".into(), Some(hb(H::Type)), hb(v("p")), hb(H::Int))),
        ("lambda-domain-mentions-parent-binder", lam("q", false, Some(v("p")), H::lit(1))),
        ("pi-domain-mentions-parent-binder", pi("q", false, v("p"), H::Int)),
        ("hole-and-parent-binder", H::App(hb(v("_")), hb(v("p")))),
    ];
    for op in ALL_OPS {
        let name: &'static str = match op {
            Op::Add => "sum",
            Op::Sub => "difference",
            Op::Mul => "product",
            Op::Div => "quotient",
            Op::Lt => "less-than",
            Op::Le => "less-than-or-equal",
            Op::Eq => "equal-to",
            Op::Gt => "greater-than",
            Op::Ge => "greater-than-or-equal",
        };
        c.push((name, H::Bin(op, hb(v("c")), hb(H::lit(3)))));
    }
    c
}

pub fn parents() -> Vec<(&'static str, Box<dyn Fn(H, u64) -> H>)> {
    let filler = |k: u64| -> H {
        match k % 3 {
            0 => H::lit(9),
            1 => v("d"),
            _ => H::App(hb(v("d")), hb(H::lit(0))),
        }
    };
    let mut p: Vec<(&'static str, Box<dyn Fn(H, u64) -> H>)> = vec![
        ("lambda.domain", Box::new(move |x, k| H::Lam("p".into(), false, Some(hb(x)), hb(if k % 2 == 0 { v("p") } else { filler(k) })))),
        ("lambda.body", Box::new(move |x, _| H::Lam("p".into(), false, Some(hb(H::Int)), hb(x)))),
        ("lambda-implicit.domain", Box::new(move |x, k| H::Lam("p".into(), true, Some(hb(x)), hb(if k % 2 == 0 { v("p") } else { filler(k) })))),
        ("lambda-implicit.body", Box::new(move |x, _| H::Lam("p".into(), true, Some(hb(H::Type)), hb(x)))),
        ("lambda-unannotated.body", Box::new(move |x, _| H::Lam("p".into(), false, None, hb(x)))),
        ("pi.domain", Box::new(move |x, _| H::Pi("p".into(), false, hb(x), hb(v("p"))))),
        ("pi.codomain", Box::new(move |x, _| H::Pi("p".into(), false, hb(H::Type), hb(H::Pi("_".into(), false, hb(v("p")), hb(x)))))),
        ("pi-implicit.domain", Box::new(move |x, _| H::Pi("p".into(), true, hb(x), hb(v("p"))))),
        ("pi-implicit.codomain", Box::new(move |x, _| H::Pi("p".into(), true, hb(H::Type), hb(H::Pi("_".into(), false, hb(v("p")), hb(x)))))),
        ("arrow.domain", Box::new(move |x, k| H::Pi("_".into(), false, hb(x), hb(filler(k))))),
        ("arrow.codomain", Box::new(move |x, k| H::Pi("_".into(), false, hb(filler(k)), hb(x)))),
        ("application.applicand", Box::new(move |x, k| H::App(hb(x), hb(filler(k))))),
        ("application.argument", Box::new(move |x, k| H::App(hb(filler(k + 1)), hb(x)))),
        ("application.middle-argument", Box::new(move |x, k| H::App(hb(H::App(hb(v("d")), hb(x))), hb(filler(k))))),
        ("let.annotation", Box::new(move |x, k| H::Let("p".into(), Some(hb(x)), hb(filler(k)), hb(v("p"))))),
        ("let.definition", Box::new(move |x, _| H::Let("p".into(), Some(hb(H::Int)), hb(x), hb(v("p"))))),
        ("let-unannotated.definition", Box::new(move |x, _| H::Let("p".into(), None, hb(x), hb(v("p"))))),
        ("let.second-definition", Box::new(move |x, _| H::Let("p".into(), None, hb(H::lit(1)), hb(H::Let("p2".into(), None, hb(x), hb(v("p2"))))))),
        ("let.body", Box::new(move |x, k| H::Let("p".into(), None, hb(filler(k)), hb(x)))),
        ("negation.operand", Box::new(move |x, _| H::Neg(hb(x)))),
        ("if.condition", Box::new(move |x, k| H::If(hb(x), hb(filler(k)), hb(filler(k + 1))))),
        ("if.then", Box::new(move |x, k| H::If(hb(H::True), hb(x), hb(filler(k))))),
        ("if.else", Box::new(move |x, k| H::If(hb(H::False), hb(filler(k)), hb(x)))),
    ];
    for op in ALL_OPS {
        let (l, r): (&'static str, &'static str) = match op {
            Op::Add => ("sum.left", "sum.right"),
            Op::Sub => ("difference.left", "difference.right"),
            Op::Mul => ("product.left", "product.right"),
            Op::Div => ("quotient.left", "quotient.right"),
            Op::Lt => ("less-than.left", "less-than.right"),
            Op::Le => ("less-than-or-equal.left", "less-than-or-equal.right"),
            Op::Eq => ("equal-to.left", "equal-to.right"),
            Op::Gt => ("greater-than.left", "greater-than.right"),
            Op::Ge => ("greater-than-or-equal.left", "greater-than-or-equal.right"),
        };
        p.push((l, Box::new(move |x, k| H::Bin(op, hb(x), hb(filler(k))))));
        p.push((r, Box::new(move |x, k| H::Bin(op, hb(filler(k)), hb(x)))));
    }
    p
}

pub const MATRIX_CONTEXT: [&str; 2] = ["c", "d"];

impl Prop for C16P {
    fn id(&self) -> &'static str {
        "C16"
    }
    fn plan(&self, tier: Tier, _seed: u64) -> Plan {
        let cells = (parents().len() * children().len()) as u64;
        let mut p = Plan::new(
            vec![sec("pinned", 160), sec_ex("former-position-former-matrix", cells), sec("random-programs", tier.pick(50_000, 500_000)), sec("elaborated-terms", tier.pick(12_000, 240_000))],
            "every one of 41 (parent former, operand position) slots filled with every one of 43 child formers (3 fillers each; implicit and placeholder binders, used and unused parameters, holes, groups of 1-2 definitions), then random well-scoped programs, and the elaborated term and type of generated typed programs (omitted annotations filled in by solved holes) as `gram check` displays them, over the full syntax and the corpus; each is parsed, printed with gram's Display and read back in the same scope; non-trivial = distinct printed text",
        );
        p.assumptions = vec![
            "holes are compared by position only (an omitted annotation prints as `_`), names of unused function-type parameters are ignored, everything else must be identical including indices, implicit flags, literals and grouping".into(),
        ];
        p.floor_evaluations = 10_000;
        p.floor_nontrivial = 5_000;
        p
    }
    fn run_case(&self, ctx: &mut Ctx, section: &str, idx: u64) {
        match section {
            "pinned" => {
                let mut progs = crate::corpus::witnesses(&ctx.known_witnesses());
                progs.extend(crate::corpus::all());
                if let Some(p) = progs.get(idx as usize) {
                    roundtrip(ctx, p, &[], None);
                }
            }
            "former-position-former-matrix" => {
                let ps = parents();
                let cs = children();
                let (pi, ci) = ((idx as usize) / cs.len(), (idx as usize) % cs.len());
                let (pname, pf) = &ps[pi];
                let (cname, child) = &cs[ci];
                let cell = format!("({pname}, {cname})");
                for k in 0..3u64 {
                    let h = pf(child.clone(), k);
                    let src = print(&h, &Style::plain(), 0).text;
                    match roundtrip(ctx, &src, &MATRIX_CONTEXT, Some(&cell)) {
                        Rt::Skipped => ctx.count("matrix-cells-not-parseable"),
                        Rt::Ok => ctx.count("matrix-instances-ok"),
                        Rt::Failed => {}
                    }
                }
            }
            "random-programs" => {
                let mut r = Rng::for_case(ctx.seed, 2, idx);
                let (h, context) = crate::props::c08::gen_case(&mut r);
                let style = Style::varied(&mut r);
                let src = print(&h, &style, idx).text;
                roundtrip(ctx, &src, &context, None);
            }
            "elaborated-terms" => {
                let mut r = Rng::for_case(ctx.seed, 3, idx);
                let mode = if idx % 3 == 0 { crate::gen_prog::Mode::Explicit } else { crate::gen_prog::Mode::Inferred };
                let p = crate::gen_prog::gen_program(&mut r, mode);
                let src = print(&p.h, &Style::varied(&mut r), idx).text;
                elaborated_roundtrip(ctx, &src);
            }
            _ => {}
        }
    }
    fn describe(&self, _tier: Tier, seed: u64, section: &str, idx: u64) -> String {
        if section == "random-programs" {
            let mut r = Rng::for_case(seed, 2, idx);
            let (h, _) = crate::props::c08::gen_case(&mut r);
            return crate::printer::print_plain(&h);
        }
        String::new()
    }
}
