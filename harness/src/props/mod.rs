use crate::fw::Prop;
use crate::util::Rng;

pub mod c01;
pub mod c02;
pub mod c03;
pub mod c04;
pub mod c05;
pub mod c06;
pub mod c07;
pub mod c08;
pub mod c09;
pub mod c10;
pub mod c11;
pub mod c12;
pub mod c13;
pub mod c14;
pub mod c15;
pub mod c16;
pub mod c17;
pub mod c18;
pub mod c19;

pub fn all() -> Vec<&'static dyn Prop> {
    vec![&c01::C01, &c02::C02, &c03::C03, &c04::C04, &c05::C05, &c06::C06, &c07::C07, &c08::C08, &c09::C09, &c10::C10, &c11::C11, &c12::C12, &c13::C13, &c14::C14, &c15::C15, &c16::C16, &c17::C17, &c18::C18, &c19::C19]
}

pub fn find(id: &str) -> Option<&'static dyn Prop> {
    all().into_iter().find(|p| p.id() == id)
}

// A program text drawn from the shared pool (corpus for now; generators are added to it as they
// come into existence).
pub fn program_pool(r: &mut Rng) -> String {
    let c = crate::corpus::all();
    c[r.usize(c.len())].clone()
}

// Small in-process workloads for the Miri shards (thorough tier of C09, C12, C14).
pub fn miri_shard(kind: &str, seed: u64, shard: u64, nshards: u64, count: u64) -> i32 {
    crate::fw::install_panic_hook();
    colored::control::set_override(false);
    let tier = crate::fw::Tier::Quick;
    let mut violations = 0;
    match kind {
        "c09" => {
            let mut ctx = crate::fw::Ctx::new("C09", tier, seed);
            for i in 0..count {
                let idx = shard + i * nshards;
                let mut r = Rng::for_case(seed, 77, idx);
                let s = if idx % 3 == 0 {
                    let mut t = String::new();
                    for _ in 0..(1 + r.usize(300)) {
                        t.push((b'0' + r.below(10) as u8) as char);
                    }
                    format!("x = {t}; x * {t}")
                } else {
                    let mut t = c09::random_text(&mut r);
                    t.truncate(t.char_indices().nth(40).map_or(t.len(), |x| x.0));
                    t
                };
                c09::check_text(&mut ctx, &s);
            }
            violations += ctx.violations;
        }
        "c14" => {
            let mut ctx = crate::fw::Ctx::new("C14", tier, seed);
            let corpus: Vec<String> = crate::corpus::all().into_iter().filter(|s| s.len() < 120 && !s.contains("omega")).collect();
            for i in 0..count {
                let idx = shard + i * nshards;
                let mut r = Rng::for_case(seed, 78, idx);
                let base = &corpus[r.usize(corpus.len())];
                // one random byte-level mutation (kept valid UTF-8 by construction)
                let mut chars: Vec<char> = base.chars().collect();
                if !chars.is_empty() {
                    let p = r.usize(chars.len());
                    match r.below(3) {
                        0 => {
                            chars.remove(p);
                        }
                        1 => chars.insert(p, ['(', ')', '=', ';', '$', 'x', '1', '\n'][r.usize(8)]),
                        _ => chars[p] = ['(', ')', '+', '-', 'y', '2', ' '][r.usize(7)],
                    }
                }
                let s: String = chars.into_iter().collect();
                c14::check_library(&mut ctx, &s, true);
            }
            violations += ctx.violations;
        }
        "c12" => {
            let mut ctx = crate::fw::Ctx::new("C12", tier, seed);
            violations += c12::miri_cases(&mut ctx, seed, shard, nshards, count);
        }
        _ => return 2,
    }
    println!("miri shard {kind} {shard}/{nshards}: {count} cases, {violations} violations");
    // monitor violations are the ordinary checks' business; under Miri only Miri's own reports
    // (undefined behaviour, leaks) decide, through Miri's exit status
    0
}
