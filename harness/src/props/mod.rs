use crate::fw::Prop;

pub mod c09;

pub fn all() -> Vec<&'static dyn Prop> {
    vec![&c09::C09]
}

pub fn find(id: &str) -> Option<&'static dyn Prop> {
    all().into_iter().find(|p| p.id() == id)
}
