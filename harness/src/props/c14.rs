// C14 - gram handles every input without crashing and reports failure faithfully.
// Oracles: in-worker panic capture around each library stage (tokenize, parse, type_check),
// Err(vec![]) detection, the parse work cap (termination in logical steps), and the
// process-boundary contract of `gram check FILE` (exit status, stdout/stderr discipline).
use crate::cli::{CliOut, run_gram, write_input};
use crate::error::SourceRange;
use crate::fw::{Ctx, Plan, Prop, Tier, guard, panic_site, sec, sec_ex};
use crate::parser::parse;
use crate::rtok::{self, ALL_TK, TK};
use crate::token::{TerminatorType, Token, Variant as TV};
use crate::tokenizer::tokenize;
use crate::type_checker::type_check;
use crate::util::{Json, Rng, clip, hash_bytes, hex};
use crate::verif_hooks;
use num_bigint::BigInt;
use std::time::Duration;

pub struct C14P;
pub static C14: C14P = C14P;

const BLOCK: u64 = 2048;

pub fn grammar_kinds() -> Vec<TK> {
    ALL_TK.iter().copied().filter(|k| *k != TK::LineBreak).collect()
}

fn tok_maxlen(tier: Tier) -> u32 {
    tier.pick(4, 5)
}

// Build a synthetic source and token slice for a sequence of kinds (identifiers are `_` so that
// scoping can never fail; see DESIGN.md C07).
pub fn synth(kinds: &[TK]) -> (String, Vec<(TK, usize, usize)>) {
    let mut src = String::new();
    let mut v = vec![];
    for (i, k) in kinds.iter().enumerate() {
        if i > 0 && *k != TK::LineBreak {
            src.push(' ');
        }
        let s = src.len();
        src.push_str(k.text());
        v.push((*k, s, src.len()));
    }
    (src, v)
}

pub fn make_tokens<'a>(src: &'a str, v: &[(TK, usize, usize)]) -> Vec<Token<'a>> {
    v.iter()
        .map(|(k, s, e)| Token {
            source_range: SourceRange { start: *s, end: *e },
            variant: match k {
                TK::Asterisk => TV::Asterisk,
                TK::Boolean => TV::Boolean,
                TK::Colon => TV::Colon,
                TK::DoubleEquals => TV::DoubleEquals,
                TK::Else => TV::Else,
                TK::Equals => TV::Equals,
                TK::False => TV::False,
                TK::GreaterThan => TV::GreaterThan,
                TK::GreaterThanOrEqualTo => TV::GreaterThanOrEqualTo,
                TK::Identifier => TV::Identifier(&src[*s..*e]),
                TK::If => TV::If,
                TK::Integer => TV::Integer,
                TK::IntegerLiteral => TV::IntegerLiteral(src[*s..*e].parse::<BigInt>().unwrap_or_default()),
                TK::LeftCurly => TV::LeftCurly,
                TK::LeftParen => TV::LeftParen,
                TK::LessThan => TV::LessThan,
                TK::LessThanOrEqualTo => TV::LessThanOrEqualTo,
                TK::Minus => TV::Minus,
                TK::Plus => TV::Plus,
                TK::RightCurly => TV::RightCurly,
                TK::RightParen => TV::RightParen,
                TK::Slash => TV::Slash,
                TK::Semi => TV::Terminator(TerminatorType::Semicolon),
                TK::LineBreak => TV::Terminator(TerminatorType::LineBreak),
                TK::Then => TV::Then,
                TK::ThickArrow => TV::ThickArrow,
                TK::ThinArrow => TV::ThinArrow,
                TK::True => TV::True,
                TK::Type => TV::Type,
            },
        })
        .collect()
}

fn viol(ctx: &mut Ctx, key: &str, what: &str, input: &[u8]) {
    ctx.violation(key, what, Json::obj().set("input", Json::s(&clip(&String::from_utf8_lossy(input), 2000))).set("input_hex", Json::s(&hex(&input[..input.len().min(800)]))));
}

#[derive(PartialEq, Eq, Clone, Copy)]
pub enum Reached {
    TokErr,
    ParseErr,
    TypeErr,
    Accepted,
    Crashed,
}

// Library-level stage monitor. `deep` also runs type_check (only for inputs that cannot make the
// checker diverge, or whose divergence the caller is prepared to classify).
pub fn check_library(ctx: &mut Ctx, src: &str, deep: bool) -> Reached {
    ctx.eval();
    let flag_file = ctx.flag_file.as_ref().and_then(|f| f.try_clone().ok());
    let set_flag = move |v: u64| {
        if let Some(f) = &flag_file {
            use std::os::unix::fs::FileExt;
            let _ = f.write_at(&v.to_le_bytes(), 8);
        }
    };
    let ntok_guess = src.len() as u64 + 1;
    verif_hooks::reset();
    verif_hooks::set_parse_calls_cap(400 * (ntok_guess + 1) * (ntok_guess + 1) + 100_000);
    // (at most one visit per pair of definitions is legitimate; a runaway recursion reaches the
    // cap long before it exhausts the 2 GiB stack)
    verif_hooks::set_order_check_calls_cap(4 * (ntok_guess + 1) * (ntok_guess + 1) + 10_000);
    verif_hooks::set_post_parse_calls_cap(400 * (ntok_guess + 1) * (ntok_guess + 1) + 100_000);
    // tokenizing and parsing always terminate: a worker death there is a violation
    set_flag(1);
    let r = guard(|| {
        let ts = match tokenize(None, src) {
            Ok(ts) => ts,
            Err(es) => return (Reached::TokErr, es.len(), es.iter().all(|e| e.message.contains("[Error]"))),
        };
        let term = match parse(None, src, &ts[..], &[]) {
            Ok(t) => t,
            Err(es) => return (Reached::ParseErr, es.len(), es.iter().all(|e| e.message.contains("[Error]"))),
        };
        if !deep {
            return (Reached::Accepted, 1, true);
        }
        // If the reference checker accepts the parsed program within its fuel, nothing in the
        // program can make the checker diverge: a worker death during type_check is then a
        // violation, otherwise it stays inconclusive. The flag travels through the progress file.
        let refok = {
            let e = crate::eterm::mirror(&term);
            let nbe = crate::core::Nbe::new(60_000);
            crate::typed::rcore_infer(&nbe, &e).is_ok()
        };
        set_flag(if refok { 1 } else { 0 });
        let (mut tc, mut dc) = (vec![], vec![]);
        match type_check(None, src, &term, &mut tc, &mut dc) {
            Ok(_) => (Reached::Accepted, 1, true),
            Err(es) => (Reached::TypeErr, es.len(), es.iter().all(|e| e.message.contains("[Error]"))),
        }
    });
    verif_hooks::set_parse_calls_cap(0);
    verif_hooks::set_order_check_calls_cap(0);
    verif_hooks::set_post_parse_calls_cap(0);
    match r {
        Err(p) => {
            let key = if p.contains("parse call cap") || p.contains("check call cap") || p.contains("pass call cap") { "parse-work-cap-exceeded".to_owned() } else { format!("panic@{}", panic_site(&p)) };
            viol(ctx, &key, &format!("a library stage panicked: {p}"), src.as_bytes());
            Reached::Crashed
        }
        Ok((stage, nerr, tagged)) => {
            let name = match stage {
                Reached::TokErr => "stage:tokenize-rejected",
                Reached::ParseErr => "stage:parse-rejected",
                Reached::TypeErr => "stage:type-check-rejected",
                Reached::Accepted => {
                    if deep {
                        "stage:accepted"
                    } else {
                        "stage:parsed"
                    }
                }
                Reached::Crashed => "stage:crashed",
            };
            ctx.count(name);
            if stage != Reached::Accepted && nerr == 0 {
                viol(ctx, "empty-error-list", &format!("{name} returned Err with an empty list of errors"), src.as_bytes());
            } else if !tagged {
                viol(ctx, "untagged-error", &format!("{name} returned an error without the [Error] tag"), src.as_bytes());
            }
            if stage != Reached::TokErr {
                ctx.nontrivial(hash_bytes(src.as_bytes()));
            }
            stage
        }
    }
}

// Process-boundary contract of `gram check FILE`.
pub fn check_cli(ctx: &mut Ctx, input: &[u8], may_diverge: bool) {
    let path = write_input(&ctx.tmp_dir, "c14.g", input);
    let o = run_gram(&ctx.gram_bin, "check", &path, Duration::from_secs(if may_diverge { 2 } else { 10 }));
    ctx.count("cli-launches");
    ctx.evals_n(1);
    if o.timed_out {
        ctx.inconclusive(if may_diverge { "cli-timeout-possibly-divergent-program" } else { "cli-timeout" });
        return;
    }
    if o.stack_overflow() {
        ctx.inconclusive("cli-stack-exhaustion-possibly-divergent-program");
        return;
    }
    ctx.count(&format!("cli-exit:{}", o.code.map_or_else(|| format!("signal{}", o.signal.unwrap_or(0)), |c| c.to_string())));
    let err = o.err_str();
    let out = o.out_str();
    let bad = if o.signal.is_some() {
        Some(("cli-killed-by-signal", "gram check died from a signal"))
    } else if err.contains("panicked at") {
        Some(("cli-panic", "gram check panicked"))
    } else {
        match o.code {
            Some(0) => {
                if out.trim().is_empty() {
                    Some(("cli-exit0-empty-stdout", "exit status 0 with nothing on standard output"))
                } else if !err.is_empty() {
                    Some(("cli-exit0-stderr", "exit status 0 with output on standard error"))
                } else if !out.contains("Elaborated term:") || !out.contains("Elaborated type:") {
                    Some(("cli-exit0-shape", "exit status 0 without the elaborated term and type"))
                } else {
                    None
                }
            }
            Some(1) => {
                if !err.contains("[Error]") {
                    Some(("cli-exit1-no-diagnostic", "exit status 1 without an [Error] diagnostic on standard error"))
                } else if !out.is_empty() {
                    Some(("cli-exit1-stdout", "exit status 1 with output on standard output"))
                } else {
                    None
                }
            }
            _ => Some(("cli-exit-status", "exit status other than 0 or 1")),
        }
    };
    if let Some((key, what)) = bad {
        viol(ctx, key, &format!("{what}: {}", o.summary()), input);
    }
}

pub fn random_bytes(r: &mut Rng) -> Vec<u8> {
    let n = r.usize(65);
    let mut v = Vec::with_capacity(n);
    for _ in 0..n {
        match r.below(7) {
            0 => v.push(r.below(256) as u8),
            // characters of the classes next to the ones the tokenizer tests for (numeric but not
            // an ASCII digit, alphabetic but not a letter of any alphabet one thinks of, connector
            // punctuation, non-ASCII white space, marks), usually right after a digit or a letter
            6 => {
                if r.chance(2, 3) {
                    v.extend_from_slice([&b"1"[..], b"42", b"x", b"a1", b"_", b"0"][r.usize(6)]);
                }
                v.extend_from_slice(["\u{b2}", "\u{bd}", "\u{663}", "\u{2460}", "\u{2167}", "\u{ff11}", "\u{2b0}", "\u{203f}", "\u{a0}", "\u{2028}", "\u{3000}", "\u{20dd}", "\u{aa}", "\u{1d7d9}"][r.usize(14)].as_bytes());
            }
            1 => v.extend_from_slice([&b"\xc3\xa9"[..], b"\xe2\x82\xac", b"\xf0\x9d\x91\xa5", b"\xcc\x81", b"\xff", b"\xc0\x80", b"\xed\xa0\x80"][r.usize(7)]),
            _ => v.extend_from_slice(b"abx01 ()+-*/=<>:;{}#\n\t_if then else type int bool true false"[..].chunks(1).nth(r.usize(55)).unwrap_or(b" ")),
        }
    }
    v
}

pub fn random_soup_text(r: &mut Rng) -> String {
    let n = 1 + r.usize(60);
    let mut s = String::new();
    for i in 0..n {
        if i > 0 {
            s.push_str([" ", " ", " ", "\n", "", "  "][r.usize(6)]);
        }
        let k = ALL_TK[r.usize(ALL_TK.len())];
        match k {
            TK::Identifier => s.push_str(["x", "y", "f", "é", "_", "iff", "a1", "x"][r.usize(8)]),
            TK::IntegerLiteral => s.push_str(["0", "1", "42", "007", "99999999999999999999999"][r.usize(5)]),
            k => s.push_str(k.text()),
        }
    }
    s
}

fn families(idx: u64) -> String {
    let n = 1 + (idx / 24) as usize * 7 % 200;
    match idx % 24 {
        0 => "(".repeat(n),
        1 => format!("{}1{}", "(".repeat(n), ")".repeat(n / 2)),
        2 => format!("{}1{}", "(".repeat(n / 2), ")".repeat(n)),
        3 => ")".repeat(n),
        4 => "{".repeat(n),
        5 => "if ".repeat(n),
        6 => format!("{}1", "if 1 then ".repeat(n)),
        7 => "x = ".repeat(n),
        8 => format!("{}x", "x => ".repeat(n.min(60))),
        9 => format!("{}x", "(x : ".repeat(n)),
        10 => "1 + ".repeat(n),
        11 => "- ".repeat(n),
        12 => format!("{}1", "-".repeat(n)),
        13 => "f ".repeat(n),
        14 => "; ".repeat(n),
        15 => "\n".repeat(n),
        16 => format!("{}1", "x1 = 1\n".repeat(n.min(80))),
        17 => format!("{}type", "int -> ".repeat(n)),
        18 => format!("{}1", "{x} => ".repeat(n.min(60))),
        19 => format!("({}", "1 else ".repeat(n)),
        20 => format!("x : {} = 1; x", "(".repeat(n)),
        21 => "#".repeat(n),
        22 => format!("1{}", " then".repeat(n)),
        _ => format!("{}{}", "((x : int) => ".repeat(n.min(80)), "1"),
    }
}

fn corpus_for_mutation() -> Vec<String> {
    crate::corpus::all().into_iter().filter(|s| s.len() < 700).collect()
}

fn diverges_when_checked(src: &str) -> bool {
    // Mutants of Girard's paradox and of the infinite-type example can make the checker loop;
    // those go through the process boundary with a timeout instead of the in-process monitor.
    src.contains("omega") || src.contains("t = int -> t")
}

impl Prop for C14P {
    fn id(&self) -> &'static str {
        "C14"
    }
    fn plan(&self, tier: Tier, _seed: u64) -> Plan {
        let nk = grammar_kinds().len() as u64;
        let total = crate::props::c09::enum_total(nk, tok_maxlen(tier));
        let mut p = Plan::new(
            vec![
                sec("pinned", 160),
                sec_ex("bytes-exhaustive", 65_793u64.div_ceil(BLOCK)),
                sec_ex("token-sequences-exhaustive", total.div_ceil(BLOCK)),
                sec("random-bytes", tier.pick(20_000, 400_000)),
                sec("token-soups", tier.pick(20_000, 400_000)),
                sec_ex("corpus-token-mutants", corpus_for_mutation().len() as u64),
                sec_ex("corpus-truncations", corpus_for_mutation().len() as u64),
                sec("nesting-families", tier.pick(24 * 12, 24 * 29)),
                sec("cli-contract", tier.pick(500, 12_000)),
                sec("generated-and-perturbed-programs", tier.pick(30_000, 300_000)),
                sec_ex("arithmetic-in-types", (9 * crate::props::c02::NOPER * crate::props::c02::NOPER) as u64),
            ],
            "all byte strings of <=2 bytes; all token sequences of <=4 (quick) / <=5 (thorough) tokens over the 28 grammar terminals fed to parse() as constructed token slices; random byte strings <=64 bytes incl. invalid UTF-8; random token soups <=60 tokens; every single-token deletion, insertion and substitution (28 kinds) of every corpus program; every truncation of every corpus program at a token boundary; unbalanced/nested families to depth 200; generated typed programs and their ill-typed perturbations in varied parenthesisation and multi-line layout (non-ASCII indentation, CRLF) so that every diagnostic of the checker is rendered; a subset of all classes through `gram check` at the process boundary; non-trivial = distinct input that got past the tokenizer",
        );
        p.assumptions = vec![
            "a wall-clock timeout or stack exhaustion at the process boundary is recorded as inconclusive (possible divergence written in the program), never as a violation; an in-process worker death during type_check is a violation only when the reference checker accepts the parsed program within its fuel (then nothing in the program can make the checker diverge)".into(),
            "library stages run in the harness build of gram's sources (overflow checks and debug assertions on); the process-boundary contract is observed on the real release binary".into(),
        ];
        p.floor_evaluations = 200_000;
        p.floor_nontrivial = 20_000;
        p.case_timeout_s = 60;
        p.flagged_death_is_violation = true;
        p
    }
    fn run_case(&self, ctx: &mut Ctx, section: &str, idx: u64) {
        match section {
            "pinned" => {
                let mut progs = crate::corpus::witnesses(&ctx.known_witnesses());
                progs.extend(crate::corpus::all());
                if let Some(p) = progs.get(idx as usize) {
                    let dv = diverges_when_checked(p);
                    check_library(ctx, p, !dv);
                    check_cli(ctx, p.as_bytes(), dv);
                }
            }
            "bytes-exhaustive" => {
                let lo = idx * BLOCK;
                let hi = (lo + BLOCK).min(65_793);
                for i in lo..hi {
                    let b: Vec<u8> = if i == 0 {
                        vec![]
                    } else if i <= 256 {
                        vec![(i - 1) as u8]
                    } else {
                        let j = i - 257;
                        vec![(j / 256) as u8, (j % 256) as u8]
                    };
                    match std::str::from_utf8(&b) {
                        Ok(s) => {
                            check_library(ctx, s, true);
                        }
                        Err(_) => {
                            ctx.eval();
                            ctx.count("invalid-utf8-inputs");
                        }
                    }
                    if i % 1021 == 0 {
                        check_cli(ctx, &b, false);
                    }
                }
            }
            "token-sequences-exhaustive" => {
                let kinds = grammar_kinds();
                let l = tok_maxlen(ctx.tier);
                let nk = kinds.len() as u64;
                let total = crate::props::c09::enum_total(nk, l);
                let lo = idx * BLOCK;
                let hi = (lo + BLOCK).min(total);
                for i in lo..hi {
                    let seq = enum_seq(&kinds, i, l);
                    ctx.eval();
                    let (src, v) = synth(&seq);
                    verif_hooks::reset();
                    verif_hooks::set_parse_calls_cap(200_000);
                    let r = guard(|| {
                        let toks = make_tokens(&src, &v);
                        match parse(None, &src, &toks[..], &[]) {
                            Ok(_) => (true, 1),
                            Err(es) => (false, es.len()),
                        }
                    });
                    verif_hooks::set_parse_calls_cap(0);
                    match r {
                        Err(p) => {
                            let key = if p.contains("parse call cap") { "parse-work-cap-exceeded".to_owned() } else { format!("panic@{}", panic_site(&p)) };
                            viol(ctx, &key, &format!("parse panicked on a constructed token sequence: {p}"), src.as_bytes());
                        }
                        Ok((ok, n)) => {
                            if ok {
                                ctx.count("token-sequences-accepted");
                                ctx.nontrivial(hash_bytes(src.as_bytes()));
                            } else if n == 0 {
                                viol(ctx, "empty-error-list", "parse returned Err with an empty list of errors", src.as_bytes());
                            } else {
                                ctx.count("token-sequences-rejected");
                            }
                        }
                    }
                }
                ctx.max("exhaustive_token_sequence_length", u64::from(l));
            }
            "random-bytes" => {
                let mut r = Rng::for_case(ctx.seed, 3, idx);
                let b = random_bytes(&mut r);
                match std::str::from_utf8(&b) {
                    Ok(s) => {
                        check_library(ctx, s, true);
                    }
                    Err(_) => {
                        ctx.eval();
                        ctx.count("invalid-utf8-inputs");
                    }
                }
            }
            "token-soups" => {
                let mut r = Rng::for_case(ctx.seed, 4, idx);
                let s = random_soup_text(&mut r);
                check_library(ctx, &s, true);
            }
            "corpus-token-mutants" => {
                let c = corpus_for_mutation();
                let base = &c[idx as usize];
                let Ok(toks) = rtok::rtok(base) else { return };
                let texts: Vec<String> = toks.iter().map(|t| if t.kind == TK::LineBreak { "\n".to_owned() } else { base[t.start..t.end].to_owned() }).collect();
                let deep = !diverges_when_checked(base);
                let kinds = grammar_kinds();
                for pos in 0..=texts.len() {
                    // deletion
                    if pos < texts.len() {
                        let m: Vec<&str> = texts.iter().enumerate().filter(|(i, _)| *i != pos).map(|(_, t)| t.as_str()).collect();
                        check_library(ctx, &m.join(" "), deep);
                        ctx.count("mutants:deletion");
                    }
                    for k in &kinds {
                        let t = match k {
                            TK::Identifier => "zz",
                            k => k.text(),
                        };
                        // insertion
                        let mut m: Vec<&str> = texts.iter().map(String::as_str).collect();
                        m.insert(pos, t);
                        check_library(ctx, &m.join(" "), deep);
                        ctx.count("mutants:insertion");
                        // substitution
                        if pos < texts.len() {
                            let mut m: Vec<&str> = texts.iter().map(String::as_str).collect();
                            m[pos] = t;
                            check_library(ctx, &m.join(" "), deep);
                            ctx.count("mutants:substitution");
                        }
                    }
                }
            }
            "corpus-truncations" => {
                let c = corpus_for_mutation();
                let base = &c[idx as usize];
                let deep = !diverges_when_checked(base);
                let Ok(toks) = rtok::rtok(base) else { return };
                for t in &toks {
                    for cut in [t.start, t.end] {
                        if base.is_char_boundary(cut) {
                            check_library(ctx, &base[..cut], deep);
                            check_library(ctx, &base[cut..], deep);
                            ctx.count("truncations");
                        }
                    }
                }
            }
            "nesting-families" => {
                let s = families(idx);
                ctx.max("deepest_family_member_bytes", s.len() as u64);
                check_library(ctx, &s, true);
                if idx % 6 == 0 {
                    check_cli(ctx, s.as_bytes(), false);
                }
            }
            "arithmetic-in-types" => {
                // the checker computes with its own arithmetic (the normaliser): every operator on
                // every pair of the operand table (zero, small, the edges of the machine integer
                // types, 200-bit values, both signs) decides a type and indexes a family
                let n = crate::props::c02::NOPER;
                let op = crate::eterm::ALL_OPS[(idx as usize) / (n * n)];
                let (a, b) = (crate::props::c02::operand((idx as usize / n) % n), crate::props::c02::operand(idx as usize % n));
                let e = crate::printer::print(&crate::hast::H::Bin(op, crate::hast::hb(a), crate::hast::hb(b)), &crate::printer::Style::plain(), 0).text;
                let cond = if op.is_arith() { format!("({e}) > 0") } else { e.clone() };
                for src in [
                    format!("t : type = if {cond} then int else bool\nt"),
                    format!("v : (if {cond} then int else int) = 42\nv"),
                    format!("(p : {} -> type) => (x : p ({e})) => (y : p ({e})) => x", if op.is_arith() { "int" } else { "bool" }),
                ] {
                    let _ = check_library(ctx, &src, true);
                    ctx.count("arithmetic-in-types:programs");
                }
            }
            "generated-and-perturbed-programs" => {
                // typed programs and their ill-typed perturbations, printed with varied
                // parenthesisation and multi-line layout: every diagnostic the checker produces is
                // rendered (listing of its range), none of which may panic
                let mut r = Rng::for_case(ctx.seed, 9, idx);
                let mode = if idx % 3 == 0 { crate::gen_prog::Mode::Inferred } else { crate::gen_prog::Mode::Explicit };
                let rec = r.chance(1, 6);
                let ty = match r.below(4) {
                    0 => crate::gen_prog::GT::Bool,
                    1 => crate::gen_prog::GT::arrow(crate::gen_prog::GT::Int, crate::gen_prog::GT::Int),
                    _ => crate::gen_prog::GT::Int,
                };
                let p = crate::gen_prog::gen_program_with(&mut r, mode, &ty, rec);
                let h = if idx % 4 != 0 { crate::perturb::perturb_or_edit(&p.h, &mut r).map_or(p.h.clone(), |x| x.0) } else { p.h.clone() };
                let mut style = crate::printer::Style::varied(&mut r);
                if r.chance(1, 2) {
                    style.extra_parens = 25;
                    style.break_lines = 30;
                }
                let mut src = crate::printer::print(&h, &style, idx).text;
                if r.chance(1, 4) {
                    // non-ASCII indentation and CRLF line ends
                    src = src.replace("\n  ", "\n\u{3000}\u{3000}").replace('\n', if r.chance(1, 2) { "\r\n" } else { "\n" });
                }
                match check_library(ctx, &src, true) {
                    Reached::TypeErr => ctx.count("generated:type-errors-rendered"),
                    Reached::Accepted => ctx.count("generated:accepted"),
                    _ => ctx.count("generated:rejected-earlier"),
                }
            }
            "cli-contract" => {
                let mut r = Rng::for_case(ctx.seed, 8, idx);
                match idx % 5 {
                    0 => {
                        let b = random_bytes(&mut r);
                        check_cli(ctx, &b, false);
                    }
                    1 => {
                        let s = random_soup_text(&mut r);
                        check_cli(ctx, s.as_bytes(), false);
                    }
                    2 => {
                        // corpus program with one random token mutation
                        let c = corpus_for_mutation();
                        let base = &c[r.usize(c.len())];
                        if let Ok(toks) = rtok::rtok(base) {
                            let mut texts: Vec<String> = toks.iter().map(|t| if t.kind == TK::LineBreak { "\n".to_owned() } else { base[t.start..t.end].to_owned() }).collect();
                            if !texts.is_empty() {
                                let pos = r.usize(texts.len());
                                let kinds = grammar_kinds();
                                let k = kinds[r.usize(kinds.len())];
                                match r.below(3) {
                                    0 => {
                                        texts.remove(pos);
                                    }
                                    1 => texts.insert(pos, k.text().to_owned()),
                                    _ => texts[pos] = k.text().to_owned(),
                                }
                            }
                            check_cli(ctx, texts.join(" ").as_bytes(), true);
                        }
                    }
                    3 => {
                        let s = families(r.below(24 * 29));
                        check_cli(ctx, s.as_bytes(), false);
                    }
                    _ => {
                        let p = crate::props::program_pool(&mut r);
                        let dv = diverges_when_checked(&p);
                        check_cli(ctx, p.as_bytes(), dv);
                    }
                }
            }
            _ => {}
        }
    }
    fn describe(&self, _tier: Tier, seed: u64, section: &str, idx: u64) -> String {
        match section {
            "random-bytes" => hex(&random_bytes(&mut Rng::for_case(seed, 3, idx))),
            "token-soups" => random_soup_text(&mut Rng::for_case(seed, 4, idx)),
            "nesting-families" => clip(&families(idx), 300),
            "corpus-token-mutants" | "corpus-truncations" => corpus_for_mutation().get(idx as usize).cloned().unwrap_or_default(),
            _ => String::new(),
        }
    }
}

pub fn enum_seq(kinds: &[TK], mut i: u64, maxlen: u32) -> Vec<TK> {
    let k = kinds.len() as u64;
    let mut len = 0u32;
    loop {
        let c = k.pow(len);
        if i < c || len == maxlen {
            break;
        }
        i -= c;
        len += 1;
    }
    let mut v = vec![TK::Type; len as usize];
    for p in (0..len as usize).rev() {
        v[p] = kinds[(i % k) as usize];
        i /= k;
    }
    v
}
