// C05 - fully annotated well-typed programs are accepted; elaboration only fills holes.
// Oracles: (a) R-core's verdict on the source program plus the type the generator intended,
// against gram's verdict and reported type; (b) exact structural comparison of parse output and
// elaborated term with "hole in the source" as the only wildcard.
use crate::core::{Nbe, V};
use crate::fw::{Ctx, Plan, Prop, Tier, sec};
use crate::gen_prog::{Mode, Program, gen_program, type_to_h};
use crate::hast::{H, resolve};
use crate::pipe::{Front, Obs, Opts, observe};
use crate::printer::{Style, print};
use crate::typed::{NBE_FUEL, SourceVerdict, elaboration_diff, judge_source, rcore_eval_closed};
use crate::util::{Json, Rng, clip, hash_str};

pub struct C05P;
pub static C05: C05P = C05P;

fn viol(ctx: &mut Ctx, key: &str, what: &str, src: &str) {
    ctx.violation(key, what, Json::obj().set("source", Json::s(&clip(src, 3000))));
}

// (b) for any accepted program
pub fn check_elaboration(ctx: &mut Ctx, obs: &Obs, src: &str) {
    if let (Some(p), Some(e)) = (&obs.parsed, &obs.elab) {
        ctx.count("elaborations-compared");
        if let Some(d) = elaboration_diff(p, e) {
            viol(ctx, "elaboration-rewrites-program", &format!("the elaborated term differs from the source program at a position that was not a hole: {d}"), src);
        }
    }
}

// An explicit program (without recursively defined type families, see edit.rs) after 1-3
// scope-aware edits, printed.
pub fn edited_program(r: &mut Rng, idx: u64) -> Option<(H, &'static str, String)> {
    let p = crate::gen_prog::gen_program_without_rec_families(r, Mode::Explicit);
    let (m, kind) = crate::edit::edits(&p.h, r)?;
    let src = print(&m, &Style::varied(r), idx).text;
    Some((m, kind, src))
}

// An edited explicit program that the reference still accepts must be accepted, with a type
// convertible to the reference's.
pub fn check_edited(ctx: &mut Ctx, m: &H, kind: &str, src: &str) {
    ctx.eval();
    // gram first: what it turns away before type checking (scoping, definition order) needs no
    // reference verdict, and R-core may not terminate on a definition that refers to itself
    let obs = observe(src, &[], &Opts::check_only());
    match &obs.front {
        Front::Accepted | Front::TypeErr(_) => {}
        Front::Panic(stage, msg) => {
            viol(ctx, &format!("edited-program-crashes@{}", crate::fw::panic_site(msg)), &format!("{stage} panicked: {msg}"), src);
            return;
        }
        _ => {
            ctx.count("edited:rejected-before-type-checking");
            return;
        }
    }
    let (nbe, rty) = match judge_source(m) {
        SourceVerdict::WellTyped(n, t) => (n, t),
        SourceVerdict::Unknown => {
            ctx.inconclusive("reference-fuel");
            return;
        }
        _ => {
            ctx.count("edited:ill-typed-for-the-reference");
            return;
        }
    };
    ctx.count(&format!("edited-still-well-typed:{kind}"));
    if let Front::TypeErr(msgs) = &obs.front {
        viol(ctx, &format!("rejects-edited-well-typed:{kind}"), &format!("type_check rejected a fully annotated program that the reference checker accepts: {}", clip(&msgs.join(" | "), 600)), src);
        return;
    }
    ctx.nontrivial(hash_str(src));
    if let Some(ty) = &obs.ty {
        match rcore_eval_closed(&nbe, ty) {
            Ok(gty) => match nbe.conv(&rty, &gty) {
                Ok(true) => ctx.count("edited:types-equal-to-reference"),
                Ok(false) => {
                    viol(ctx, "reported-type-differs-from-reference", &format!("gram reports type `{}` but the reference checker infers a type with head `{}`", clip(&obs.ty_text, 300), nbe.head(&rty)), src);
                    return;
                }
                Err(_) => ctx.inconclusive("reference-fuel"),
            },
            Err(crate::core::Fail::Fuel) => ctx.inconclusive("reference-fuel"),
            Err(e) => {
                viol(ctx, "reported-type-not-evaluable", &format!("the reported type `{}` is not well formed: {e:?}", clip(&obs.ty_text, 300)), src);
                return;
            }
        }
    }
    check_elaboration(ctx, &obs, src);
}

pub fn check_explicit(ctx: &mut Ctx, p: &Program, src: &str) {
    ctx.eval();
    let verdict = judge_source(&p.h);
    let (nbe, rty) = match verdict {
        SourceVerdict::WellTyped(n, t) => (n, t),
        SourceVerdict::Unknown => {
            ctx.inconclusive("reference-fuel");
            return;
        }
        SourceVerdict::IllTyped(m) | SourceVerdict::IllScoped(m) => {
            // the generator, not gram, is at fault: nothing to judge
            ctx.inconclusive("generator-produced-ill-typed-program");
            ctx.sample(Json::obj().set("generator_fault", Json::s(&m)).set("source", Json::s(&clip(src, 400))));
            return;
        }
    };
    for f in &p.features {
        ctx.count(&format!("feature:{f}"));
    }
    let obs = observe(src, &[], &Opts::check_only());
    match &obs.front {
        Front::Accepted => {}
        Front::Panic(stage, m) => {
            viol(ctx, &format!("explicit-program-crashes@{}", crate::fw::panic_site(m)), &format!("{stage} panicked on a fully annotated well-typed program: {m}"), src);
            return;
        }
        Front::ParseErr(m) if !m.is_empty() && m.iter().all(|x| x.contains("will not be available in time")) => {
            // The generator places every reference under the definition-order rule (a computed
            // definition mentions earlier definitions and later function definitions only, see
            // gen_prog.rs) and the reference interpreter runs such programs without ever needing
            // a definition that is not available: a definition-order diagnostic on a generated,
            // unedited program is a false rejection of a well-typed fully annotated program.
            let runs = crate::typed::ref_run(&p.h, 3_000).is_some_and(|rr| !matches!(rr.outcome, Err(crate::reval::Stop::NotAvailable(_))));
            if runs {
                viol(ctx, "rejects-explicit-well-typed:definition-order", &format!("a fully annotated well-typed program is turned away by the definition-order check although no definition is needed before it is available: {}", clip(&m.join(" | "), 600)), src);
            } else {
                ctx.inconclusive("generator-violates-definition-order");
            }
            return;
        }
        Front::TokenizeErr(m) | Front::ParseErr(m) => {
            // printer/grammar trouble is not this property's subject
            ctx.inconclusive("printed-program-rejected-syntactically");
            ctx.sample(Json::obj().set("syntactic_rejection", Json::s(&clip(&m.join(" | "), 300))).set("source", Json::s(&clip(src, 500))));
            return;
        }
        Front::TypeErr(m) => {
            viol(ctx, "rejects-explicit-well-typed", &format!("type_check rejected a fully annotated program that the reference checker accepts: {}", clip(&m.join(" | "), 600)), src);
            return;
        }
    }
    ctx.count("explicit-programs-accepted");
    ctx.nontrivial(hash_str(src));
    // reported type against the reference's and the generator's
    if let Some(ty) = &obs.ty {
        match rcore_eval_closed(&nbe, ty) {
            Ok(gty) => {
                match nbe.conv(&rty, &gty) {
                    Ok(true) => ctx.count("types-equal-to-reference"),
                    Ok(false) => {
                        viol(ctx, "reported-type-differs-from-reference", &format!("gram reports type `{}` but the reference checker infers a type with head `{}`", clip(&obs.ty_text, 300), nbe.head(&rty)), src);
                        return;
                    }
                    Err(_) => ctx.inconclusive("reference-fuel"),
                }
                if let Ok(ie) = resolve(&type_to_h(&p.ty), &[]) {
                    if let Ok(ity) = rcore_eval_closed(&nbe, &ie) {
                        match nbe.conv(&ity, &gty) {
                            Ok(true) => ctx.count("types-equal-to-intended"),
                            Ok(false) => {
                                viol(ctx, "reported-type-differs-from-intended", &format!("gram reports type `{}` but the program was built to have type {:?}", clip(&obs.ty_text, 300), p.ty), src);
                                return;
                            }
                            Err(_) => ctx.inconclusive("reference-fuel"),
                        }
                    }
                }
            }
            Err(crate::core::Fail::Fuel) => ctx.inconclusive("reference-fuel"),
            Err(e) => {
                viol(ctx, "reported-type-not-evaluable", &format!("the reported type `{}` is not well formed: {e:?}", clip(&obs.ty_text, 300)), src);
                return;
            }
        }
    }
    check_elaboration(ctx, &obs, src);
    if ctx.idx % 199 == 0 {
        ctx.sample(Json::obj().set("source", Json::s(&clip(src, 240))).set("type", Json::s(&clip(&obs.ty_text, 100))));
    }
}

impl Prop for C05P {
    fn id(&self) -> &'static str {
        "C05"
    }
    fn plan(&self, tier: Tier, _seed: u64) -> Plan {
        let mut p = Plan::new(
            vec![sec("pinned", 200), sec("explicit-programs", tier.pick(40_000, 400_000)), sec("elaboration-of-accepted-programs", tier.pick(30_000, 300_000)), sec("edited-explicit-programs", tier.pick(40_000, 400_000)), sec("near-miss-coercions", tier.pick(40_000, 400_000)), crate::fw::sec_ex("small-explicit-programs-exhaustive", crate::gen_small::total_upto(tier.pick(5, 6)).div_ceil(256))],
            "type-directed generation of fully annotated well-typed programs (polymorphic, higher-order, dependent function types, recursive and mutually recursive groups of 1-5 definitions, forward type aliases, type-level redexes/conditionals/definitions in annotations, integers beyond 64 bits), printed with varied parenthesisation and layout; each must be accepted with a type convertible to the reference checker's and to the intended one; every fully annotated source program of at most 5 (quick) / 6 (thorough) nodes that the reference accepts must be accepted too; for every accepted program of any generator (explicit, inferred, syntactic) the elaborated term is compared with the parse output, holes of the source being the only wildcard; scope-aware edits of explicit programs (another variable in scope, a neighbouring literal, another operator of its class, mirrored comparisons, swapped branches, a definition or an applied binder put around a node, an annotation or a domain named by an alias of its own group; 1-3 edits) that the reference checker still accepts must be accepted with a type convertible to the reference's, and so must every near-miss coercion (a value passed from a type with type-level computation in it to an edited copy of that type) that the reference accepts; non-trivial = distinct accepted program",
        );
        p.assumptions = vec![
            "R-core (harness/src/core.rs) implements the typing rules of DESIGN.md A.5/A.6; programs it cannot judge within its fuel are inconclusive".into(),
            "a worker death (stack overflow) on a fully annotated well-typed program counts as a false rejection".into(),
        ];
        p.floor_evaluations = 5_000;
        p.floor_nontrivial = 3_000;
        p.death_is_violation = true;
        p.death_sections = vec!["explicit-programs", "pinned", "small-explicit-programs-exhaustive"];
        p.case_timeout_s = 10;
        p
    }
    fn run_case(&self, ctx: &mut Ctx, section: &str, idx: u64) {
        match section {
            "pinned" => {
                let mut progs = crate::corpus::witnesses(&ctx.known_witnesses());
                progs.extend(crate::corpus::all());
                if let Some(p) = progs.get(idx as usize) {
                    if p.contains("omega") {
                        return; // Girard's paradox: the checker is not expected to terminate quickly
                    }
                    ctx.eval();
                    let obs = observe(p, &[], &Opts::check_only());
                    ctx.count(&format!("corpus:{}", crate::typed::front_name(&obs.front)));
                    if let Front::Panic(stage, m) = &obs.front {
                        viol(ctx, &format!("corpus-program-crashes@{}", crate::fw::panic_site(m)), &format!("{stage} panicked: {m}"), p);
                    }
                    check_elaboration(ctx, &obs, p);
                }
            }
            "explicit-programs" => {
                let mut r = Rng::for_case(ctx.seed, 1, idx);
                let p = gen_program(&mut r, Mode::Explicit);
                let style = Style::varied(&mut r);
                let src = print(&p.h, &style, idx).text;
                ctx.max("max_program_bytes", src.len() as u64);
                check_explicit(ctx, &p, &src);
            }
            "small-explicit-programs-exhaustive" => {
                let maxn = ctx.tier.pick(5, 6);
                let total = crate::gen_small::total_upto(maxn);
                let lo = idx * 256;
                let hi = (lo + 256).min(total);
                for i in lo..hi {
                    let h = crate::gen_small::nth(maxn, i);
                    if crate::typed::has_source_holes(&h) {
                        continue;
                    }
                    let SourceVerdict::WellTyped(nbe, rty) = judge_source(&h) else { continue };
                    ctx.eval();
                    let src = print(&h, &Style::plain(), 0).text;
                    let obs = observe(&src, &[], &Opts::check_only());
                    match &obs.front {
                        Front::Accepted => {
                            ctx.count("small-explicit-accepted");
                            ctx.nontrivial(hash_str(&src));
                            if let Some(ty) = &obs.ty {
                                if let Ok(gty) = rcore_eval_closed(&nbe, ty) {
                                    if let Ok(false) = nbe.conv(&rty, &gty) {
                                        viol(ctx, "reported-type-differs-from-reference", &format!("gram reports type `{}` but the reference checker infers a type with head `{}`", clip(&obs.ty_text, 300), nbe.head(&rty)), &src);
                                    }
                                }
                            }
                            check_elaboration(ctx, &obs, &src);
                        }
                        Front::TypeErr(m) => viol(ctx, "rejects-explicit-well-typed", &format!("type_check rejected a small fully annotated program that the reference checker accepts: {}", clip(&m.join(" | "), 400)), &src),
                        Front::Panic(stage, m) => viol(ctx, &format!("explicit-program-crashes@{}", crate::fw::panic_site(m)), &format!("{stage} panicked: {m}"), &src),
                        _ => ctx.count("small-explicit-rejected-before-type-checking"),
                    }
                }
            }
            "near-miss-coercions" => {
                let mut r = Rng::for_case(ctx.seed, 6, idx);
                let c = crate::coerce::gen_any(&mut r, false);
                let src = print(&c.h, &Style::varied(&mut r), idx).text;
                check_edited(ctx, &c.h, c.shape, &src);
            }
            "edited-explicit-programs" => {
                let mut r = Rng::for_case(ctx.seed, 5, idx);
                let Some((m, kind, src)) = edited_program(&mut r, idx) else { return };
                check_edited(ctx, &m, kind, &src);
            }
            "elaboration-of-accepted-programs" => {
                let mut r = Rng::for_case(ctx.seed, 2, idx);
                let src = if idx % 3 == 0 {
                    // single-point perturbations of explicit programs (whatever is still accepted)
                    let p = gen_program(&mut r, Mode::Explicit);
                    let m = crate::perturb::perturb_or_edit(&p.h, &mut r).map_or(p.h.clone(), |x| x.0);
                    print(&m, &Style::varied(&mut r), idx).text
                } else {
                    let p = gen_program(&mut r, Mode::Inferred);
                    print(&p.h, &Style::varied(&mut r), idx).text
                };
                ctx.eval();
                let obs = observe(&src, &[], &Opts::check_only());
                ctx.count(&format!("any:{}", crate::typed::front_name(&obs.front)));
                if matches!(obs.front, Front::Accepted) {
                    ctx.nontrivial(hash_str(&src));
                    check_elaboration(ctx, &obs, &src);
                }
            }
            _ => {}
        }
    }
    fn describe(&self, _tier: Tier, seed: u64, section: &str, idx: u64) -> String {
        match section {
            "explicit-programs" => {
                let mut r = Rng::for_case(seed, 1, idx);
                let p = gen_program(&mut r, Mode::Explicit);
                let style = Style::varied(&mut r);
                print(&p.h, &style, idx).text
            }
            "near-miss-coercions" => {
                let mut r = Rng::for_case(seed, 6, idx);
                let c = crate::coerce::gen_any(&mut r, false);
                print(&c.h, &Style::varied(&mut r), idx).text
            }
            "edited-explicit-programs" => {
                let mut r = Rng::for_case(seed, 5, idx);
                edited_program(&mut r, idx).map_or(String::new(), |x| x.2)
            }
            "elaboration-of-accepted-programs" => {
                let mut r = Rng::for_case(seed, 2, idx);
                if idx % 3 == 0 {
                    let p = gen_program(&mut r, Mode::Explicit);
                    let m = crate::perturb::perturb_or_edit(&p.h, &mut r).map_or(p.h.clone(), |x| x.0);
                    print(&m, &Style::varied(&mut r), idx).text
                } else {
                    let p = gen_program(&mut r, Mode::Inferred);
                    print(&p.h, &Style::varied(&mut r), idx).text
                }
            }
            _ => String::new(),
        }
    }
}
