// C03 - the type checker never accepts an ill-typed program.
// Oracle: R-core judges every elaborated (term, type) pair gram returns; consequence form: every
// explicit program that R-core judges ill-typed as source must be rejected.
use crate::fw::{Ctx, Plan, Prop, Tier, panic_site, sec};
use crate::gen_prog::{Mode, gen_program};
use crate::hast::H;
use crate::perturb::perturb_or_edit as perturb;
use crate::pipe::{Front, Obs, Opts, observe};
use crate::printer::{Style, print};
use crate::typed::{C03Verdict, D3_KEY, NBE_FUEL, SourceVerdict, d3_applicable, front_name, has_source_holes, judge_elaborated, judge_source, rules_of};
use crate::util::{Json, Rng, clip, hash_str};

pub const SMALL_BLOCK: u64 = 256;

pub struct C03P;
pub static C03: C03P = C03P;

fn viol(ctx: &mut Ctx, key: &str, what: &str, src: &str, obs: &Obs) {
    ctx.violation(
        key,
        what,
        Json::obj()
            .set("source", Json::s(&clip(src, 3000)))
            .set("elaborated", Json::s(&clip(&obs.elab_text, 1500)))
            .set("reported_type", Json::s(&clip(&obs.ty_text, 600)))
            .set("hook_open_unresolved", Json::Int(obs.hooks.open_unresolved as i64))
            .set("hook_shift_unresolved_below_cutoff", Json::Int(obs.hooks.shift_unresolved_below_cutoff as i64)),
    );
}

// Judge what gram accepted. `holes`: the source has holes or omitted annotations.
pub fn check_accepted(ctx: &mut Ctx, obs: &Obs, src: &str, holes: bool, tag: &str) {
    let (Some(elab), Some(ty)) = (&obs.elab, &obs.ty) else { return };
    ctx.count(&format!("{tag}:elaborated-terms-judged"));
    ctx.nontrivial(hash_str(src));
    if elab.has_unsolved_hole() {
        ctx.count("elaborated-terms-with-residual-holes");
    }
    match judge_elaborated(elab, ty) {
        C03Verdict::Held => {
            ctx.count("reference-agrees");
            if ctx.idx % 37 == 0 {
                let nbe = crate::core::Nbe::new(NBE_FUEL);
                for r in rules_of(&nbe, elab) {
                    ctx.count(&format!("rule:{r}"));
                }
            }
        }
        C03Verdict::Inconclusive(why) => ctx.inconclusive(why),
        C03Verdict::Violated(kind, msg) => {
            // The recorded finding is about how unresolved holes travel through substitution. If
            // gram accepts the *same elaborated term with every hole replaced by its solution*
            // (no hole left to lose), the finding cannot be what let the program through.
            let mut key = if d3_applicable(holes, obs) { D3_KEY.to_owned() } else { kind.to_owned() };
            if key == D3_KEY && kind == "elaborated-term-ill-typed" {
                let z = elab.zonk();
                if !z.has_hole() {
                    let again = crate::fw::guard(|| {
                        let g = crate::eterm::to_gram(&z);
                        let (mut tc, mut dc) = (vec![], vec![]);
                        crate::type_checker::type_check(None, "", &g, &mut tc, &mut dc).is_ok()
                    });
                    match again {
                        Ok(true) => {
                            ctx.count("d3-attribution-refused:accepted-again-without-holes");
                            key = format!("{kind}:also-without-holes");
                        }
                        Ok(false) => ctx.count("d3-attribution-confirmed:rejected-without-holes"),
                        Err(_) => ctx.count("d3-attribution-kept:check-without-holes-panicked"),
                    }
                } else {
                    ctx.count("d3-attribution-kept:residual-holes");
                }
            }
            viol(ctx, &key, &format!("gram accepted this program but the reference checker rejects what it elaborated ({kind}): {msg}"), src, obs);
        }
    }
}

pub fn check_text(ctx: &mut Ctx, src: &str, holes: bool, tag: &str) -> Obs {
    ctx.eval();
    let obs = observe(src, &[], &Opts::check_only());
    ctx.count(&format!("{tag}:{}", front_name(&obs.front)));
    match &obs.front {
        Front::Accepted => check_accepted(ctx, &obs, src, holes, tag),
        Front::Panic(stage, m) => {
            // an index-out-of-range panic inside the checker on a program with holes is the
            // recorded finding about holes; everything else is new
            let key = if d3_applicable(holes, &obs) && stage == &"type_check" { D3_KEY.to_owned() } else { format!("checker-panic@{}", panic_site(m)) };
            viol(ctx, &key, &format!("{stage} panicked: {m}"), src, &obs);
        }
        _ => {}
    }
    obs
}


// ---- polymorphic instantiation matrix ----
// `h ti tj LAM` under k type binders, where h : (a : type) -> (c : type) -> F a c -> int, for
// every shape F, every lambda LAM of matching arity that returns one of its parameters (binder
// annotations written or omitted), and every pair of type arguments among the binders and `int`.
// Most cells are ill-typed; the elaborated term of whatever gram accepts is judged by R-core.
const SHAPES: [(&str, usize); 5] = [("a -> int -> c", 2), ("a -> c", 1), ("(a -> c) -> a -> c", 2), ("int -> a -> c", 2), ("a -> a -> c", 2)];

fn matrix_total() -> u64 {
    // k in 1..=4, spacer 0..2, shape 0..5, lambda variant 0..12, (i, j) in (k+1)^2
    (1..=4u64).map(|k| 2 * 5 * 12 * (k + 1) * (k + 1)).sum()
}

fn matrix_program(mut i: u64) -> String {
    let mut k = 1u64;
    loop {
        let block = 2 * 5 * 12 * (k + 1) * (k + 1);
        if i < block {
            break;
        }
        i -= block;
        k += 1;
    }
    let spacer = i % 2;
    i /= 2;
    let (shape, arity) = SHAPES[(i % 5) as usize];
    i /= 5;
    let variant = i % 12;
    i /= 12;
    let (ti, tj) = (i / (k + 1), i % (k + 1));
    let tname = |x: u64| if x == k { "int".to_owned() } else { format!("t{x}") };
    let mut binders = String::new();
    for b in 0..k {
        binders.push_str(&format!("(t{b} : type) => "));
        if spacer == 1 {
            binders.push_str(&format!("(n{b} : int) => "));
        }
    }
    // lambda: which parameter is returned, and which binders carry their annotation
    let ret = variant % 3; // 0: first parameter, 1: last parameter, 2: first applied/unused mix
    let ann = variant / 3; // 0: none, 1: first only, 2: last only, 3: all
    let dom = |pos: usize| -> String {
        // the domain the shape prescribes at that position, instantiated
        let d = match (shape, pos) {
            ("a -> int -> c", 0) | ("a -> c", 0) | ("a -> a -> c", 0) | ("a -> a -> c", 1) | ("(a -> c) -> a -> c", 1) | ("int -> a -> c", 1) => tname(ti),
            ("(a -> c) -> a -> c", 0) => format!("{} -> {}", tname(ti), tname(tj)),
            _ => "int".to_owned(),
        };
        d
    };
    let p = |pos: usize| format!("p{pos}");
    let binder = |pos: usize| -> String {
        let annotated = match ann {
            0 => false,
            1 => pos == 0,
            2 => pos + 1 == arity,
            _ => true,
        };
        if annotated { format!("({} : {}) => ", p(pos), dom(pos)) } else { format!("{} => ", p(pos)) }
    };
    let mut lam = String::new();
    for pos in 0..arity {
        lam.push_str(&binder(pos));
    }
    let body = match (ret, shape) {
        (2, "(a -> c) -> a -> c") => "p0 p1".to_owned(),
        (0, _) => p(0),
        (1, _) => p(arity - 1),
        _ => p(0),
    };
    lam.push_str(&body);
    format!("(h : (a : type) -> (c : type) -> ({shape}) -> int) => {binders}h {} {} ({lam})", tname(ti), tname(tj))
}

// An explicit program whose verdict comes from the reference: ill-typed must be rejected with a
// diagnostic; whatever is accepted has its elaborated term judged as well.
pub fn judge_against_reference(ctx: &mut Ctx, m: &H, kind: &str, src: &str, tag: &str) {
        // gram first: what it turns away before type checking (scoping, definition order -
        // a perturbation can make a definition refer to itself) needs no reference verdict,
        // and R-core may not terminate on it
        let obs = check_text(ctx, src, false, tag);
        if !matches!(obs.front, Front::Accepted | Front::TypeErr(_)) {
            return;
        }
        let verdict = judge_source(m);
        match (&verdict, &obs.front) {
            (SourceVerdict::IllTyped(why), Front::Accepted) => {
                viol(ctx, &format!("accepts-ill-typed:{kind}"), &format!("the reference checker rejects this explicit program ({why}) but gram accepts it"), src, &obs);
            }
            (SourceVerdict::IllScoped(_), Front::Accepted) => {
                viol(ctx, "accepts-ill-scoped", "gram accepts an ill-scoped program", src, &obs);
            }
            (SourceVerdict::IllTyped(_), Front::TypeErr(m)) => {
                ctx.count(&format!("rejected-as-expected:{kind}"));
                ctx.nontrivial(hash_str(src));
                if m.is_empty() {
                    viol(ctx, "rejection-without-diagnostic", "type_check returned Err with no diagnostics", src, &obs);
                }
            }
            (SourceVerdict::WellTyped(..), Front::Accepted) => ctx.count(&format!("still-well-typed:{kind}")),
            (SourceVerdict::WellTyped(..), Front::TypeErr(_)) => ctx.count("perturbed-well-typed-but-rejected(C05)"),
            (SourceVerdict::Unknown, _) => ctx.inconclusive("reference-fuel"),
            _ => {}
        }
}

impl Prop for C03P {
    fn id(&self) -> &'static str {
        "C03"
    }
    fn plan(&self, tier: Tier, _seed: u64) -> Plan {
        let mut p = Plan::new(
            vec![
                sec("pinned", 200),
                sec("explicit-programs", tier.pick(10_000, 200_000)),
                sec("inferred-programs", tier.pick(10_000, 200_000)),
                sec("perturbed-explicit-programs", tier.pick(50_000, 500_000)),
                sec("perturbed-inferred-programs", tier.pick(50_000, 500_000)),
                sec("near-miss-coercions", tier.pick(40_000, 400_000)),
                crate::fw::sec_ex("polymorphic-instantiation-matrix", matrix_total().div_ceil(64)),
                crate::fw::sec_ex("small-programs-exhaustive", crate::gen_small::total_upto(tier.pick(5, 6)).div_ceil(SMALL_BLOCK)),
            ],
            "every (elaborated term, reported type) pair returned by type_check on generated explicit and inferred programs, on the corpus, on single-point perturbations of explicit and of inferred programs (18 perturbation kinds aimed at the side conditions of each typing rule and at the definition-order check) and on every source program of at most 5 (quick) / 6 (thorough) nodes over the full syntax is judged by an independent NbE checker; every perturbed explicit program the reference judges ill-typed as source must be rejected with at least one diagnostic; so must every ill-typed near-miss coercion (a value passed from a type with type-level computation in it - conditionals on closed or stuck comparisons with boundary-equal operands, redexes, groups of 1-3 aliases, calls of type families incl. constant ones - to that type after one or two edits; closed, through a function, or under an integer parameter instantiated afterwards); a matrix of 6 360 calls `h ti tj (lambda)` of a higher-order polymorphic parameter under 1-4 type binders (5 shapes x 12 lambda variants with written or omitted binder annotations x every pair of type arguments, with and without spacer binders) is checked the same way; non-trivial = distinct accepted program judged, or distinct ill-typed program rejected",
        );
        p.assumptions = vec![
            "R-core (harness/src/core.rs) implements DESIGN.md A.5/A.6; an unsolved hole left in an elaborated term is an opaque constant of type `type`".into(),
            "type : type and general recursion make both checkers partial: reference fuel exhaustion is inconclusive".into(),
        ];
        p.floor_evaluations = 10_000;
        p.floor_nontrivial = 5_000;
        p.case_timeout_s = 15;
        p
    }
    fn run_case(&self, ctx: &mut Ctx, section: &str, idx: u64) {
        match section {
            "pinned" => {
                let mut progs = crate::corpus::witnesses(&ctx.known_witnesses());
                progs.extend(crate::corpus::all());
                if let Some(p) = progs.get(idx as usize) {
                    if p.contains("omega") {
                        return;
                    }
                    let holes = crate::props::c07::parse_to_h(p).map_or(true, |h| has_source_holes(&h));
                    check_text(ctx, p, holes, "corpus");
                }
            }
            "explicit-programs" | "inferred-programs" => {
                let explicit = section == "explicit-programs";
                let mut r = Rng::for_case(ctx.seed, if explicit { 1 } else { 2 }, idx);
                let p = gen_program(&mut r, if explicit { Mode::Explicit } else { Mode::Inferred });
                let src = print(&p.h, &Style::varied(&mut r), idx).text;
                let holes = has_source_holes(&p.h);
                check_text(ctx, &src, holes, if explicit { "explicit" } else { "inferred" });
            }
            "small-programs-exhaustive" => {
                let maxn = ctx.tier.pick(5, 6);
                let total = crate::gen_small::total_upto(maxn);
                let lo = idx * SMALL_BLOCK;
                let hi = (lo + SMALL_BLOCK).min(total);
                for i in lo..hi {
                    let h = crate::gen_small::nth(maxn, i);
                    let src = print(&h, &Style::plain(), 0).text;
                    let holes = has_source_holes(&h);
                    let obs = check_text(ctx, &src, holes, "small");
                    if !holes {
                        // explicit: the reference's verdict on the source decides
                        if let (SourceVerdict::IllTyped(why), Front::Accepted) = (judge_source(&h), &obs.front) {
                            viol(ctx, "accepts-ill-typed:small-program", &format!("the reference checker rejects this explicit program ({why}) but gram accepts it"), &src, &obs);
                        }
                    }
                }
                ctx.max("small_programs_max_nodes", maxn as u64);
            }
            "polymorphic-instantiation-matrix" => {
                for i in idx * 64..((idx + 1) * 64).min(matrix_total()) {
                    let src = matrix_program(i);
                    check_text(ctx, &src, true, "matrix");
                }
            }
            "near-miss-coercions" => {
                let mut r = Rng::for_case(ctx.seed, 6, idx);
                let c = crate::coerce::gen_any(&mut r, idx % 3 == 2);
                let src = print(&c.h, &Style::varied(&mut r), idx).text;
                ctx.count(&format!("coercion:{}", c.shape));
                judge_against_reference(ctx, &c.h, "near-miss-coercion", &src, "coercion");
            }
            "perturbed-inferred-programs" => {
                // ill-typed programs with omitted annotations: whatever gram lets through has its
                // elaborated term judged by the reference (no verdict on the source: R-core does
                // not infer)
                let mut r = Rng::for_case(ctx.seed, 4, idx);
                let p = if idx % 4 == 3 { crate::gen_prog::gen_trap_program(&mut r, Mode::Inferred) } else { Some(gen_program(&mut r, Mode::Inferred)) };
                let Some(p) = p else { return };
                let m = if idx % 4 == 3 { p.h.clone() } else { perturb(&p.h, &mut r).map_or(p.h.clone(), |x| x.0) };
                let src = print(&m, &Style::varied(&mut r), idx).text;
                check_text(ctx, &src, true, "perturbed-inferred");
            }
            "perturbed-explicit-programs" => {
                let mut r = Rng::for_case(ctx.seed, 3, idx);
                let p = gen_program(&mut r, Mode::Explicit);
                let Some((m, kind)) = perturb(&p.h, &mut r) else { return };
                let src = print(&m, &Style::varied(&mut r), idx).text;
                judge_against_reference(ctx, &m, kind, &src, "perturbed");
            }
            _ => {}
        }
    }
    fn describe(&self, _tier: Tier, seed: u64, section: &str, idx: u64) -> String {
        match section {
            "explicit-programs" | "inferred-programs" => {
                let explicit = section == "explicit-programs";
                let mut r = Rng::for_case(seed, if explicit { 1 } else { 2 }, idx);
                let p = gen_program(&mut r, if explicit { Mode::Explicit } else { Mode::Inferred });
                print(&p.h, &Style::varied(&mut r), idx).text
            }
            "near-miss-coercions" => {
                let mut r = Rng::for_case(seed, 6, idx);
                let c = crate::coerce::gen_any(&mut r, idx % 3 == 2);
                print(&c.h, &Style::varied(&mut r), idx).text
            }
            "perturbed-explicit-programs" => {
                let mut r = Rng::for_case(seed, 3, idx);
                let p = gen_program(&mut r, Mode::Explicit);
                match perturb(&p.h, &mut r) {
                    Some((m, _)) => print(&m, &Style::varied(&mut r), idx).text,
                    None => String::new(),
                }
            }
            "perturbed-inferred-programs" => {
                let mut r = Rng::for_case(seed, 4, idx);
                let p = if idx % 4 == 3 { crate::gen_prog::gen_trap_program(&mut r, Mode::Inferred) } else { Some(gen_program(&mut r, Mode::Inferred)) };
                let Some(p) = p else { return String::new() };
                let m = if idx % 4 == 3 { p.h.clone() } else { perturb(&p.h, &mut r).map_or(p.h.clone(), |x| x.0) };
                print(&m, &Style::varied(&mut r), idx).text
            }
            _ => String::new(),
        }
    }
}
