// C13 - output is a deterministic function of the input file.
// Oracle: byte comparison of (stdout, stderr, exit status) across N independent launches of the
// real binary (each launch draws fresh hash seeds) and of Vec<Error> texts across in-process
// repetitions of tokenize+parse (each HashSet::new() draws a new key).
use crate::cli::{run_gram, write_input};
use crate::fw::{Ctx, Plan, Prop, Tier, guard, sec};
use crate::parser::parse;
use crate::tokenizer::tokenize;
use crate::util::{Json, Rng, clip, hash_str};
use std::time::Duration;

pub struct C13P;
pub static C13: C13P = C13P;

// Process launches are the expensive resource in this sandbox (about 100 launches per second for
// the whole machine, whatever the parallelism), so the launch budget is spent on a subset of the
// files and the in-process repetitions cover the rest.
fn launches(tier: Tier, cmd: &str) -> usize {
    if cmd == "check" { tier.pick(6, 24) } else { tier.pick(3, 8) }
}

// Inputs built to produce several diagnostics whose relative order could depend on iteration order.
pub fn multi_diagnostic_program(r: &mut Rng) -> String {
    let arm = r.below(13);
    multi_diagnostic_program_arm(r, arm)
}

// The files that go through the CLI take the kinds of input in turn (launches are scarce).
pub fn multi_diagnostic_program_cli(r: &mut Rng, idx: u64) -> String {
    let _ = r.below(13);
    multi_diagnostic_program_arm(r, idx % 13)
}

pub fn multi_diagnostic_program_arm(r: &mut Rng, arm: u64) -> String {
    match arm {
        10 | 11 => {
            // several *distinct* unexpected symbols, some repeated (what a de-duplicating or
            // grouping report would iterate over), between valid tokens and line breaks
            let syms = ["$", "@", "%", "&", "~", "^", "|", "[", "]", "\"", "?", "!", "\u{d7}", "\u{2264}", "\u{2013}", "\u{201c}", "\u{201d}", "\u{b2}", "`", "\\"];
            let k = 2 + r.usize(6);
            let chosen: Vec<&str> = (0..k).map(|_| syms[r.usize(syms.len())]).collect();
            let n = k + r.usize(8);
            let mut s = String::new();
            for i in 0..n {
                s.push_str(["x", "1", "+", "(", ")", "=", "if", "é"][r.usize(8)]);
                s.push_str([" ", "", "\n", " "][r.usize(4)]);
                s.push_str(chosen[if i < k { i } else { r.usize(k) }]);
                s.push_str([" ", "", "\n", "\r\n"][r.usize(4)]);
            }
            s
        }
        12 => {
            // syntax errors reported "at the end of this line" on lines that end in blanks, tabs,
            // a comment or CRLF, and at the end of a file without a final line break
            let k = 1 + r.usize(4);
            let mut s = String::new();
            for i in 0..k {
                s.push_str(["if 1 then 2", "x = (1 +", "y : int", "if true", "(a b", "f = (x : int) =>", "if 1 then 2 else", "z ="][r.usize(8)]);
                s.push_str(["   ", "\t", " # note", "", " \u{a0}", "  \t "][r.usize(6)]);
                if i + 1 < k || r.chance(2, 3) {
                    s.push_str(["\n", "\r\n", "\r\n", "\n\n"][r.usize(4)]);
                }
            }
            s
        }
        0 | 1 | 2 => {
            // definition-order violations with several independent forward references
            let n = 3 + r.usize(6);
            let names: Vec<String> = (0..n).map(|i| format!("{}{}", ["v", "w", "def", "x", "é"][r.usize(5)], i)).collect();
            let mut s = String::new();
            for i in 0..n {
                let k = 1 + r.usize(4);
                let mut parts = vec![];
                for _ in 0..k {
                    let j = r.usize(n);
                    parts.push(if r.chance(1, 5) { "1".to_owned() } else { names[j].clone() });
                }
                let rhs = parts.join([" + ", " * ", " - "][r.usize(3)]);
                let rhs = if r.chance(1, 6) { format!("(q : int) => {rhs}") } else if r.chance(1, 6) { format!("if {} == 0 then {rhs} else 2", names[r.usize(n)]) } else { rhs };
                s.push_str(&format!("{} = {rhs}{}", names[i], if r.chance(1, 2) { "; " } else { "\n" }));
            }
            s.push_str(&names[0]);
            s
        }
        3 => {
            // several unbound names and shadowings
            let k = 3 + r.usize(5);
            let mut parts = vec![];
            for i in 0..k {
                parts.push(match r.below(4) {
                    0 => format!("u{i}"),
                    1 => format!("((x : int) => (x : int) => u{i})"),
                    2 => format!("(y{i} = 1; y{i} = 2; zz{i})"),
                    _ => format!("f{i} a{i}"),
                });
            }
            parts.join(" + ")
        }
        4 => {
            // several type errors
            let k = 3 + r.usize(4);
            let parts: Vec<String> = (0..k)
                .map(|i| match r.below(5) {
                    0 => "true".to_owned(),
                    1 => format!("(if {i} then 1 else false)"),
                    2 => format!("({i} {i})"),
                    3 => "(type + 1)".to_owned(),
                    _ => "((x : 3) => x)".to_owned(),
                })
                .collect();
            parts.join(" + ")
        }
        5 => {
            // several parse errors
            let k = 2 + r.usize(4);
            let parts: Vec<&str> = (0..k).map(|_| ["(1 + ", "if 1 then", "x = ", ") )", "(a b", "{x : } => 1", "1 +* 2"][r.usize(7)]).collect();
            parts.join(["\n", "; ", " "][r.usize(3)])
        }
        6 | 7 => {
            // names that differ only in case, by an underscore or by a digit, defined in one group
            // and in nested binders, and unbound look-alikes used several times (what a "did you
            // mean" or a sorted report would iterate over)
            let stem = ["nat", "elem", "é", "x"][r.usize(4)];
            let variants = |st: &str| -> Vec<String> {
                let up = st.to_uppercase();
                let mut cap = st.to_owned();
                if let Some(c) = st.chars().next() {
                    cap = format!("{}{}", c.to_uppercase(), &st[c.len_utf8()..]);
                }
                vec![st.to_owned(), up, cap, format!("{st}_"), format!("_{st}"), format!("{st}1"), format!("{st}2")]
            };
            let vs = variants(stem);
            let defined: Vec<String> = vs.iter().filter(|_| r.chance(2, 3)).cloned().collect();
            let mut s = String::new();
            for (i, d) in defined.iter().enumerate() {
                s.push_str(&format!("{d} = {i}{}", if r.chance(1, 2) { "; " } else { "\n" }));
            }
            let k = 2 + r.usize(4);
            let mut uses = vec![];
            for _ in 0..k {
                uses.push(match r.below(3) {
                    0 => vs[r.usize(vs.len())].clone(),
                    1 => format!("(({} : int) => {})", vs[r.usize(vs.len())], vs[r.usize(vs.len())]),
                    _ => format!("{}{}", stem.to_uppercase(), ["", "S", "_"][r.usize(3)]),
                });
            }
            s.push_str(&uses.join(" + "));
            s
        }
        8 => {
            // a generated program, usually with one planted fault (realistic type diagnostics)
            let mode = if r.chance(1, 2) { crate::gen_prog::Mode::Explicit } else { crate::gen_prog::Mode::Inferred };
            let p = crate::gen_prog::gen_program_with(r, mode, &crate::gen_prog::GT::Int, false);
            let h = if r.chance(2, 3) { crate::perturb::perturb_or_edit(&p.h, r).map_or(p.h.clone(), |x| x.0) } else { p.h.clone() };
            crate::printer::print(&h, &crate::printer::Style::plain(), 0).text
        }
        _ => {
            let c = crate::corpus::all();
            c[r.usize(c.len())].clone()
        }
    }
}

// Programs that evaluate for a noticeable time (seconds): anything that depends on elapsed time,
// on the scheduler or on memory addresses has its chance to show.
pub fn slow_program(i: u64) -> String {
    match i % 3 {
        0 => "fib : (int -> int) = (n : int) => if n < 2 then n else fib (n - 1) + fib (n - 2)\nfib 24".to_owned(),
        1 => "even : (int -> bool) = (n : int) => if n == 0 then true else odd (n - 1)\nodd : (int -> bool) = (n : int) => if n == 0 then false else even (n - 1)\ncount : (int -> int) = (n : int) => if n <= 0 then 0 else (if even 600 then 1 else 0) + count (n - 1)\ncount 300".to_owned(),
        _ => "ack : (int -> int -> int) = (m : int) => (n : int) => if m == 0 then n + 1 else if n == 0 then ack (m - 1) 1 else ack (m - 1) (ack m (n - 1))\nack 2 300".to_owned(),
    }
}

fn check_file(ctx: &mut Ctx, content: &str, cli: bool, type_check_in_process: bool) {
    ctx.eval();
    let path = write_input(&ctx.tmp_dir, "c13.g", content.as_bytes());
    let mut diag_count = 0usize;
    for cmd in if cli { vec!["check", "run"] } else { vec![] } {
        let n = launches(ctx.tier, cmd);
        let slow = ctx.section == "slow-runs";
        let first = run_gram(&ctx.gram_bin, cmd, &path, Duration::from_secs(if slow { 120 } else { 3 }));
        if first.timed_out || first.stack_overflow() {
            ctx.inconclusive("diverging-input");
            continue;
        }
        if cmd == "check" {
            diag_count = first.err_str().matches("[Error]").count();
        }
        let mut distinct = 1;
        for i in 1..n {
            let o = run_gram(&ctx.gram_bin, cmd, &path, Duration::from_secs(if slow { 120 } else { 10 }));
            ctx.count("launches");
            if o.timed_out {
                ctx.inconclusive("timeout");
                continue;
            }
            if o != first {
                distinct += 1;
                ctx.violation(
                    &format!("launches-differ:{cmd}"),
                    &format!("launch {i} of `gram {cmd}` differs from launch 0 on the same file: {} VERSUS {}", first.summary(), o.summary()),
                    Json::obj().set("input", Json::s(&clip(content, 2000))),
                );
                break;
            }
        }
        ctx.max("distinct_outputs_per_file", distinct);
    }
    // in-process repetitions of parse(): Vec<Error> texts must be identical
    let reps = 20;
    let mut first: Option<Vec<String>> = None;
    for i in 0..reps {
        let res = guard(|| match tokenize(None, content) {
            Ok(ts) => match parse(None, content, &ts[..], &[]) {
                Ok(t) => {
                    if type_check_in_process {
                        let (mut tc, mut dc) = (vec![], vec![]);
                        match crate::type_checker::type_check(None, content, &t, &mut tc, &mut dc) {
                            Ok((e, ty)) => vec![format!("OK {e} : {ty}")],
                            Err(es) => es.iter().map(|e| e.message.clone()).collect(),
                        }
                    } else {
                        vec![format!("OK {t}")]
                    }
                }
                Err(es) => es.iter().map(|e| e.message.clone()).collect(),
            },
            Err(es) => es.iter().map(|e| e.message.clone()).collect(),
        });
        let Ok(res) = res else {
            ctx.inconclusive("panic-in-parse");
            break;
        };
        ctx.count("in-process-repetitions");
        match &first {
            None => first = Some(res),
            Some(f) => {
                if *f != res {
                    ctx.violation(
                        "parse-repetitions-differ",
                        &format!("repetition {i} of tokenize+parse returned different diagnostics: {:?} VERSUS {:?}", clip(&f.join(" | "), 400), clip(&res.join(" | "), 400)),
                        Json::obj().set("input", Json::s(&clip(content, 2000))),
                    );
                    break;
                }
            }
        }
    }
    if !cli {
        diag_count = first.as_ref().map_or(0, |f| if f.first().is_some_and(|x| x.starts_with("OK ")) { 0 } else { f.len() });
    }
    ctx.count(if cli { "files-through-cli" } else { "files-in-process-only" });
    ctx.max("max_diagnostics_in_one_file", diag_count as u64);
    if diag_count >= 3 {
        ctx.count("files-with-3-or-more-diagnostics");
        ctx.nontrivial(hash_str(content));
    } else if diag_count == 0 {
        ctx.count("files-accepted");
    } else {
        ctx.count("files-with-1-2-diagnostics");
    }
    if ctx.idx % 29 == 0 {
        ctx.sample(Json::obj().set("input", Json::s(&clip(content, 200))).set("diagnostics", Json::Int(diag_count as i64)));
    }
}

impl Prop for C13P {
    fn id(&self) -> &'static str {
        "C13"
    }
    fn plan(&self, tier: Tier, _seed: u64) -> Plan {
        let mut p = Plan::new(
            vec![sec("pinned", 160), sec("cli-files", tier.pick(60, 1200)), sec("in-process-files", tier.pick(4000, 80_000)), sec("slow-runs", tier.pick(1, 6))],
            "files built to produce several diagnostics at once (definition-order violations with 3-8 interdependent definitions, several unbound names/shadowings, several type errors, several parse errors, look-alike names - case, underscore and digit variants - defined and unbound, generated programs with a planted fault) plus the corpus; slow-runs: programs that evaluate for seconds (naive Fibonacci, mutual recursion, Ackermann) through `gram run` and `gram check`; cli-files are launched through `gram check` (6 quick / 24 thorough launches) and `gram run` (3 / 8) and compared byte for byte; every file is also run 20 times through tokenize+parse(+type_check) in-process, each repetition with fresh hash keys; non-trivial = distinct file with at least 3 diagnostics",
        );
        p.assumptions = vec!["each process launch and each HashSet::new() draws a fresh hash key (std RandomState)".into()];
        p.floor_evaluations = 100;
        p.floor_nontrivial = 30;
        p.case_timeout_s = 300;
        p.max_workers = 8;
        p
    }
    fn run_case(&self, ctx: &mut Ctx, section: &str, idx: u64) {
        match section {
            "pinned" => {
                let mut progs = crate::corpus::witnesses(&ctx.known_witnesses());
                progs.extend(crate::corpus::all());
                if let Some(p) = progs.get(idx as usize) {
                    // the witnesses come first and go through the CLI; the rest of the corpus is
                    // checked in-process (without type checking: some corpus programs diverge there)
                    let nw = crate::corpus::witnesses(&ctx.known_witnesses()).len();
                    check_file(ctx, p, (idx as usize) < nw || idx % 8 == 0, false);
                }
            }
            "slow-runs" => {
                let p = slow_program(idx);
                ctx.count("slow-programs");
                check_file(ctx, &p, true, false);
            }
            "cli-files" => {
                let mut r = Rng::for_case(ctx.seed, 1, idx);
                let p = multi_diagnostic_program_cli(&mut r, idx);
                check_file(ctx, &p, true, false);
            }
            _ => {
                let mut r = Rng::for_case(ctx.seed, 2, idx);
                let p = multi_diagnostic_program(&mut r);
                let corpus_like = !p.contains("v0") && !p.contains("u0") && !p.contains(" + ");
                check_file(ctx, &p, false, !corpus_like && !p.contains("loop") && !p.contains("infinite"));
            }
        }
    }
    fn describe(&self, _tier: Tier, seed: u64, section: &str, idx: u64) -> String {
        match section {
            "cli-files" => multi_diagnostic_program_cli(&mut Rng::for_case(seed, 1, idx), idx),
            "in-process-files" => multi_diagnostic_program(&mut Rng::for_case(seed, 2, idx)),
            _ => String::new(),
        }
    }
}
