// C19 - meaning-preserving rewrites change neither acceptance nor result.
// Metamorphic relation between two runs of gram's full pipeline; no reference model.
use crate::eterm::{E, Op};
use crate::fw::{Ctx, Plan, Prop, Tier, sec};
use crate::gen_prog::{GT, Mode, Program, gen_program_without_rec_families, type_to_h};
use crate::hast::{H, hb};
use crate::pipe::{Front, Obs, Opts, Run, StuckClass, observe};
use crate::printer::{Style, print};
use crate::props::c08::{map_h, walk};
use crate::typed::{D3_KEY, d3_applicable, front_name, has_source_holes, run_name};
use crate::util::{Json, Rng, clip, hash_str};

pub struct C19P;
pub static C19: C19P = C19P;

pub const REWRITES: [&str; 12] = [
    "name-group-body",
    "name-type-in-enclosing-group",
    "unused-definition-inside-group",
    "rename-binders",
    "redundant-parentheses",
    "unused-definition-in-front",
    "unused-definition-at-site",
    "name-subexpression-in-place",
    "identity-function-wrap",
    "if-true-wrap",
    "swap-adjacent-function-definitions",
    "hoist-literal-arithmetic",
];

fn nodes(h: &H) -> usize {
    let mut n = 0;
    walk(h, &mut |_| n += 1);
    n
}

// Type known syntactically at a node (conservative): int / bool sites.
fn site_type(h: &H) -> Option<&'static str> {
    match h {
        H::Lit(_) | H::Neg(_) => Some("int"),
        H::Bin(op, ..) if op.is_arith() => Some("int"),
        H::Bin(..) | H::True | H::False => Some("bool"),
        _ => None,
    }
}

fn fresh_names(h: &H) -> impl FnMut(&str) -> String {
    let mut used = vec![];
    walk(h, &mut |x| {
        if let H::Lam(n, ..) | H::Pi(n, ..) | H::Let(n, ..) | H::Var(n) = x {
            used.push(n.clone());
        }
    });
    let mut k = 0;
    move |hint: &str| loop {
        k += 1;
        let n = format!("{hint}_{k}");
        if !used.contains(&n) {
            used.push(n.clone());
            return n;
        }
    }
}

// Apply `f` at the n-th node (pre-order) if it returns Some. `f` is told whether the node sits
// directly in the definition position of a group: turning a definition that is a syntactic value
// into something that needs evaluation changes which definitions are available to the others, so
// value-ness-changing rewrites are not meaning-preserving there.
fn at_node(h: &H, target: usize, f: &mut dyn FnMut(&H, bool) -> Option<H>) -> Option<H> {
    fn go(h: &H, target: usize, k: &mut usize, in_def: bool, done: &mut bool, f: &mut dyn FnMut(&H, bool) -> Option<H>) -> H {
        let here = *k == target;
        *k += 1;
        if here && !*done {
            if let Some(r) = f(h, in_def) {
                *done = true;
                return r;
            }
        }
        match h {
            H::Lam(n, i, d, b) => {
                let d2 = d.as_ref().map(|d| hb(go(d, target, k, false, done, f)));
                let b2 = go(b, target, k, false, done, f);
                H::Lam(n.clone(), *i, d2, hb(b2))
            }
            H::Pi(n, i, d, b) => {
                let d2 = go(d, target, k, false, done, f);
                let b2 = go(b, target, k, false, done, f);
                H::Pi(n.clone(), *i, hb(d2), hb(b2))
            }
            H::App(a, b) => {
                let a2 = go(a, target, k, false, done, f);
                let b2 = go(b, target, k, false, done, f);
                H::App(hb(a2), hb(b2))
            }
            H::Bin(op, a, b) => {
                let a2 = go(a, target, k, false, done, f);
                let b2 = go(b, target, k, false, done, f);
                H::Bin(*op, hb(a2), hb(b2))
            }
            H::Let(n, a, d, b) => {
                let a2 = a.as_ref().map(|a| hb(go(a, target, k, false, done, f)));
                let d2 = go(d, target, k, true, done, f);
                let b2 = go(b, target, k, false, done, f);
                H::Let(n.clone(), a2, hb(d2), hb(b2))
            }
            H::Neg(a) => H::Neg(hb(go(a, target, k, false, done, f))),
            // parentheses do not change what a definition is
            H::Paren(a) => H::Paren(hb(go(a, target, k, in_def, done, f))),
            H::If(a, b, c) => {
                let a2 = go(a, target, k, false, done, f);
                let b2 = go(b, target, k, false, done, f);
                let c2 = go(c, target, k, false, done, f);
                H::If(hb(a2), hb(b2), hb(c2))
            }
            other => other.clone(),
        }
    }
    let mut done = false;
    let out = go(h, target, &mut 0, false, &mut done, f);
    if done { Some(out) } else { None }
}

// Consistent renaming of all binders to fresh names.
fn rename_all(h: &H, fresh: &mut dyn FnMut(&str) -> String) -> H {
    fn go(h: &H, env: &mut Vec<(String, String)>, fresh: &mut dyn FnMut(&str) -> String) -> H {
        let look = |env: &Vec<(String, String)>, n: &str| env.iter().rev().find(|(a, _)| a == n).map_or(n.to_owned(), |(_, b)| b.clone());
        match h {
            H::Var(n) => H::Var(look(env, n)),
            H::Lam(n, im, d, b) => {
                let d2 = d.as_ref().map(|d| hb(go(d, env, fresh)));
                let nn = if n == "_" { n.clone() } else { fresh("r") };
                env.push((n.clone(), nn.clone()));
                let b2 = go(b, env, fresh);
                env.pop();
                H::Lam(nn, *im, d2, hb(b2))
            }
            H::Pi(n, im, d, b) => {
                let d2 = go(d, env, fresh);
                let nn = if n == "_" { n.clone() } else { fresh("r") };
                env.push((n.clone(), nn.clone()));
                let b2 = go(b, env, fresh);
                env.pop();
                H::Pi(nn, *im, hb(d2), hb(b2))
            }
            H::Let(..) => {
                // the whole flattened group is in scope everywhere in the group
                let mut defs = vec![];
                let mut cur = h;
                loop {
                    match cur.strip() {
                        H::Let(n, a, d, b) => {
                            defs.push((n.clone(), a.clone(), d.clone()));
                            cur = b;
                        }
                        _ => break,
                    }
                }
                let news: Vec<String> = defs.iter().map(|(n, _, _)| if n == "_" { n.clone() } else { fresh("r") }).collect();
                for ((n, _, _), nn) in defs.iter().zip(news.iter()) {
                    env.push((n.clone(), nn.clone()));
                }
                let mut out: Vec<(String, Option<Box<H>>, H)> = vec![];
                for ((_, a, d), nn) in defs.iter().zip(news.iter()) {
                    out.push((nn.clone(), a.as_ref().map(|a| hb(go(a, env, fresh))), go(d, env, fresh)));
                }
                let body = go(cur, env, fresh);
                for _ in &defs {
                    env.pop();
                }
                let mut r = body;
                for (n, a, d) in out.into_iter().rev() {
                    r = H::Let(n, a, hb(d), hb(r));
                }
                r
            }
            H::App(a, b) => H::App(hb(go(a, env, fresh)), hb(go(b, env, fresh))),
            H::Bin(op, a, b) => H::Bin(*op, hb(go(a, env, fresh)), hb(go(b, env, fresh))),
            H::Neg(a) => H::Neg(hb(go(a, env, fresh))),
            H::Paren(a) => H::Paren(hb(go(a, env, fresh))),
            H::If(a, b, c) => H::If(hb(go(a, env, fresh)), hb(go(b, env, fresh)), hb(go(c, env, fresh))),
            other => other.clone(),
        }
    }
    go(h, &mut vec![], fresh)
}

pub fn apply_rewrite(h: &H, kind: &str, r: &mut Rng, root_ty: &GT, explicit: bool) -> Option<H> {
    let n = nodes(h);
    let mut fresh = fresh_names(h);
    match kind {
        "rename-binders" => {
            // several naming schemes: ascending, lexicographically descending, very long,
            // non-ASCII, keyword-like prefixes
            let scheme = r.below(5);
            let mut named = |hint: &str| -> String {
                let base = fresh(hint);
                let k: usize = base.rsplit('_').next().and_then(|x| x.parse().ok()).unwrap_or(0);
                match scheme {
                    0 => base,
                    1 => format!("z{:06}", 999_999 - k.min(999_999)),
                    2 => format!("a_rather_long_name_for_a_bound_variable_number_{k}_of_this_program"),
                    3 => format!("\u{e9}\u{540d}{k}"),
                    _ => format!("{}{k}", ["iff", "int", "typed", "thenn", "elsee", "boolean", "truee"][k % 7]),
                }
            };
            Some(rename_all(h, &mut named))
        }
        "redundant-parentheses" => {
            for _ in 0..10 {
                let t = r.usize(n);
                // never parenthesise a group sitting in body position (gram would merge it): the
                // rewrite skips Let nodes altogether
                if let Some(x) = at_node(h, t, &mut |x, _| if matches!(x, H::Let(..) | H::Paren(_)) { None } else { Some(H::Paren(hb(x.clone()))) }) {
                    return Some(x);
                }
            }
            None
        }
        "name-group-body" => {
            // the body of some group becomes the last definition of that group (no parentheses:
            // the new definition joins the group), and the body is its name
            let name = fresh("result");
            for _ in 0..10 {
                let t = r.usize(n);
                if let Some(x) = at_node(h, t, &mut |x, _| match x {
                    H::Let(nm, a, d, b) if !matches!(b.strip(), H::Let(..)) && !matches!(**b, H::Paren(_)) => {
                        // explicit programs keep every definition annotated: only bodies whose
                        // type is evident from their syntax
                        let ann = match (explicit, site_type(b)) {
                            (false, _) => None,
                            (true, Some("int")) => Some(hb(H::Int)),
                            (true, Some(_)) => Some(hb(H::Bool)),
                            (true, None) => return None,
                        };
                        Some(H::Let(nm.clone(), a.clone(), d.clone(), hb(H::Let(name.clone(), ann, b.clone(), hb(H::Var(name.clone()))))))
                    }
                    _ => None,
                }) {
                    return Some(x);
                }
            }
            None
        }
        "unused-definition-in-front" => {
            let name = if r.chance(1, 4) { "_".to_owned() } else { fresh("unused") };
            let ann = if explicit { Some(hb(H::Int)) } else { None };
            // in front of a group the definition joins the group; elsewhere it forms its own
            Some(H::Let(name, ann, hb(H::lit(0)), hb(h.clone())))
        }
        "unused-definition-inside-group" => {
            // directly after some definition of some group, anywhere in the program: in the middle
            // or at the end of that group; a literal or a function (both are values: nothing about
            // evaluation order or availability changes)
            let name = if r.chance(1, 4) { "_".to_owned() } else { fresh("unused") };
            let fun = r.chance(1, 2);
            let (ann, def) = if fun {
                let y = fresh("uy");
                (if explicit { Some(hb(H::Pi("_".into(), false, hb(H::Int), hb(H::Int)))) } else { None }, H::Lam(y.clone(), false, Some(hb(H::Int)), hb(H::Var(y))))
            } else {
                (if explicit { Some(hb(H::Int)) } else { None }, H::lit(0))
            };
            for _ in 0..10 {
                let t = r.usize(n);
                if let Some(x) = at_node(h, t, &mut |x, _| match x {
                    H::Let(nm, a, d, b) => Some(H::Let(nm.clone(), a.clone(), d.clone(), hb(H::Let(name.clone(), ann.clone(), hb(def.clone()), b.clone())))),
                    _ => None,
                }) {
                    return Some(x);
                }
            }
            None
        }
        "unused-definition-at-site" => {
            let name = fresh("unused");
            let ann = if explicit { Some(hb(H::Int)) } else { None };
            for _ in 0..10 {
                let t = r.usize(n);
                if let Some(x) = at_node(h, t, &mut |x, in_def| if in_def || matches!(x, H::Let(..)) { None } else { Some(H::Paren(hb(H::Let(name.clone(), ann.clone(), hb(H::lit(0)), hb(x.clone()))))) }) {
                    if !creates_body_group(&x) {
                        return Some(x);
                    }
                }
            }
            None
        }
        "name-subexpression-in-place" => {
            let name = fresh("named");
            for _ in 0..10 {
                let t = r.usize(n);
                let res = at_node(h, t, &mut |x, in_def| {
                    if in_def {
                        return None;
                    }
                    let ty = site_type(x)?;
                    let ann = if explicit { Some(hb(if ty == "int" { H::Int } else { H::Bool })) } else { None };
                    Some(H::Paren(hb(H::Let(name.clone(), ann, hb(x.clone()), hb(H::Var(name.clone()))))))
                });
                if let Some(x) = res {
                    if !creates_body_group(&x) {
                        return Some(x);
                    }
                }
            }
            None
        }
        "identity-function-wrap" => {
            let name = fresh("same");
            if r.chance(1, 3) {
                // at the root, with the program's own type
                let ty = type_to_h(root_ty);
                return Some(H::App(hb(H::Lam(name.clone(), false, Some(hb(ty)), hb(H::Var(name)))), hb(h.clone())));
            }
            for _ in 0..10 {
                let t = r.usize(n);
                let res = at_node(h, t, &mut |x, in_def| {
                    if in_def {
                        return None;
                    }
                    let ty = site_type(x)?;
                    Some(H::App(hb(H::Lam(name.clone(), false, Some(hb(if ty == "int" { H::Int } else { H::Bool })), hb(H::Var(name.clone())))), hb(x.clone())))
                });
                if res.is_some() {
                    return res;
                }
            }
            None
        }
        "if-true-wrap" => {
            for _ in 0..10 {
                let t = r.usize(n);
                let which = r.below(3);
                let res = at_node(h, t, &mut |x, in_def| {
                    if in_def {
                        return None;
                    }
                    let ty = site_type(x)?;
                    let other = match (ty, which) {
                        ("int", 0) => H::lit(12345),
                        ("int", 1) => H::Bin(Op::Div, hb(H::lit(1)), hb(H::lit(0))),
                        ("int", _) => H::Neg(hb(H::lit(3))),
                        (_, 0) => H::True,
                        (_, 1) => H::Bin(Op::Lt, hb(H::Bin(Op::Div, hb(H::lit(1)), hb(H::lit(0)))), hb(H::lit(1))),
                        _ => H::False,
                    };
                    Some(H::If(hb(H::True), hb(x.clone()), hb(other)))
                });
                if res.is_some() {
                    return res;
                }
            }
            None
        }
        "swap-adjacent-function-definitions" => {
            for _ in 0..10 {
                let t = r.usize(n);
                let res = at_node(h, t, &mut |x, _| {
                    if let H::Let(n1, a1, d1, b1) = x {
                        if let H::Let(n2, a2, d2, b2) = &**b1 {
                            if matches!(**d1, H::Lam(..)) && matches!(**d2, H::Lam(..)) {
                                return Some(H::Let(n2.clone(), a2.clone(), d2.clone(), hb(H::Let(n1.clone(), a1.clone(), d1.clone(), b2.clone()))));
                            }
                        }
                    }
                    None
                });
                if res.is_some() {
                    return res;
                }
            }
            None
        }
        "name-type-in-enclosing-group" => {
            // a type former occurring anywhere below a definition of a group (in an annotation,
            // a definition or the body) gets a name in that same group, provided it mentions no
            // binder introduced between the group and its own position
            let name = fresh("tyname");
            let ann = if explicit || r.chance(1, 2) { Some(hb(H::Type)) } else { None };
            for _ in 0..10 {
                let t = r.usize(n);
                let pick = r.usize(64);
                if let Some(x) = at_node(h, t, &mut |x, _| match x {
                    H::Let(..) => hoist_type_into(x, &name, &ann, pick),
                    _ => None,
                }) {
                    return Some(x);
                }
            }
            None
        }
        "hoist-literal-arithmetic" => {
            // a closed, division-free literal computation is named in a new enclosing group
            let name = fresh("hoisted");
            for _ in 0..10 {
                let t = r.usize(n);
                let mut taken: Option<H> = None;
                let res = at_node(h, t, &mut |x, in_def| {
                    if !in_def && is_literal_arith(x) && !matches!(x, H::Lit(_)) {
                        taken = Some(x.clone());
                        Some(H::Var(name.clone()))
                    } else {
                        None
                    }
                });
                if let (Some(body), Some(def)) = (res, taken) {
                    let ann = if explicit { Some(hb(H::Int)) } else { None };
                    return Some(H::Let(name, ann, hb(def), hb(body)));
                }
            }
            None
        }
        _ => None,
    }
}

fn free_names(h: &H, bound: &mut Vec<String>, out: &mut Vec<String>) {
    match h {
        H::Var(n) => {
            if !bound.contains(n) && !out.contains(n) {
                out.push(n.clone());
            }
        }
        H::Lam(n, _, d, b) => {
            if let Some(d) = d {
                free_names(d, bound, out);
            }
            bound.push(n.clone());
            free_names(b, bound, out);
            bound.pop();
        }
        H::Pi(n, _, d, b) => {
            free_names(d, bound, out);
            bound.push(n.clone());
            free_names(b, bound, out);
            bound.pop();
        }
        H::Let(..) => {
            let mut names = vec![];
            let mut cur = h;
            while let H::Let(n, _, _, b) = cur.strip() {
                names.push(n.clone());
                cur = b;
            }
            let k = names.len();
            bound.extend(names);
            let mut cur = h;
            while let H::Let(_, a, d, b) = cur.strip() {
                if let Some(a) = a {
                    free_names(a, bound, out);
                }
                free_names(d, bound, out);
                cur = b;
            }
            free_names(cur, bound, out);
            bound.truncate(bound.len() - k);
        }
        H::App(a, b) | H::Bin(_, a, b) => {
            free_names(a, bound, out);
            free_names(b, bound, out);
        }
        H::Neg(a) | H::Paren(a) => free_names(a, bound, out),
        H::If(a, b, c) => {
            free_names(a, bound, out);
            free_names(b, bound, out);
            free_names(c, bound, out);
        }
        _ => {}
    }
}

// `group` is a Let node. Replace the `pick`-th eligible type former below it by `name` and put
// `name : ann = <that type>` in front of the node (it joins the group the node belongs to).
fn hoist_type_into(group: &H, name: &str, ann: &Option<Box<H>>, pick: usize) -> Option<H> {
    // pass 1: count eligible sites; pass 2: replace the chosen one
    // `is_def`: the node is the whole right-hand side of a definition; turning that into a
    // variable would turn a value definition into a computed one (availability changes)
    fn go(h: &H, between: &mut Vec<String>, same_group: bool, k: &mut usize, target: Option<usize>, name: &str, taken: &mut Option<H>) -> H {
        go2(h, between, same_group, false, k, target, name, taken)
    }
    #[allow(clippy::too_many_arguments)]
    fn go2(h: &H, between: &mut Vec<String>, same_group: bool, is_def: bool, k: &mut usize, target: Option<usize>, name: &str, taken: &mut Option<H>) -> H {
        let eligible = !is_def && matches!(h, H::Pi(..)) && {
            let mut fv = vec![];
            free_names(h, &mut vec![], &mut fv);
            fv.iter().all(|v| !between.contains(v)) && !fv.iter().any(|v| v == "_")
        };
        if eligible {
            let me = *k;
            *k += 1;
            if target == Some(me) && taken.is_none() {
                *taken = Some(h.clone());
                return H::Var(name.to_owned());
            }
        }
        match h {
            H::Lam(n, i, d, b) => {
                let d2 = d.as_ref().map(|d| hb(go(d, between, false, k, target, name, taken)));
                between.push(n.clone());
                let b2 = go(b, between, false, k, target, name, taken);
                between.pop();
                H::Lam(n.clone(), *i, d2, hb(b2))
            }
            H::Pi(n, i, d, b) => {
                let d2 = go(d, between, false, k, target, name, taken);
                between.push(n.clone());
                let b2 = go(b, between, false, k, target, name, taken);
                between.pop();
                H::Pi(n.clone(), *i, hb(d2), hb(b2))
            }
            H::Let(n, a, d, b) => {
                // a nested group binds its names for everything below; the chain we started in does not
                let mut pushed = 0;
                if !same_group {
                    let mut cur = h;
                    while let H::Let(nm, _, _, bb) = cur.strip() {
                        between.push(nm.clone());
                        pushed += 1;
                        cur = bb;
                    }
                }
                let a2 = a.as_ref().map(|a| hb(go(a, between, false, k, target, name, taken)));
                let d2 = go2(d, between, false, true, k, target, name, taken);
                // the continuation of a chain: same group as this node (names already accounted for)
                let b2 = go(b, between, true, k, target, name, taken);
                between.truncate(between.len() - pushed);
                H::Let(n.clone(), a2, hb(d2), hb(b2))
            }
            H::App(a, b) => {
                let a2 = go(a, between, false, k, target, name, taken);
                let b2 = go(b, between, false, k, target, name, taken);
                H::App(hb(a2), hb(b2))
            }
            H::Bin(op, a, b) => {
                let a2 = go(a, between, false, k, target, name, taken);
                let b2 = go(b, between, false, k, target, name, taken);
                H::Bin(*op, hb(a2), hb(b2))
            }
            H::Neg(a) => H::Neg(hb(go(a, between, false, k, target, name, taken))),
            H::Paren(a) => H::Paren(hb(go2(a, between, false, is_def, k, target, name, taken))),
            H::If(a, b, c) => {
                let a2 = go(a, between, false, k, target, name, taken);
                let b2 = go(b, between, false, k, target, name, taken);
                let c2 = go(c, between, false, k, target, name, taken);
                H::If(hb(a2), hb(b2), hb(c2))
            }
            other => other.clone(),
        }
    }
    let mut count = 0;
    go(group, &mut vec![], true, &mut count, None, name, &mut None);
    if count == 0 {
        return None;
    }
    let mut taken = None;
    let mut k = 0;
    let rewritten = go(group, &mut vec![], true, &mut k, Some(pick % count), name, &mut taken);
    let ty = taken?;
    Some(H::Let(name.to_owned(), ann.clone(), hb(ty), hb(rewritten)))
}

fn is_literal_arith(h: &H) -> bool {
    match h {
        H::Lit(_) => true,
        H::Neg(a) => is_literal_arith(a),
        H::Paren(a) => is_literal_arith(a),
        H::Bin(Op::Add | Op::Sub | Op::Mul, a, b) => is_literal_arith(a) && is_literal_arith(b),
        _ => false,
    }
}

// Does some Let have a parenthesised group directly as its body? (gram merges those)
fn creates_body_group(h: &H) -> bool {
    let mut bad = false;
    walk(h, &mut |x| {
        if let H::Let(_, _, _, b) = x {
            if let H::Paren(p) = &**b {
                if matches!(p.strip(), H::Let(..)) {
                    bad = true;
                }
            }
        }
    });
    bad
}

#[derive(Debug, PartialEq)]
enum Outcome {
    Rejected(&'static str),
    Ground(String),
    Function(bool),
    TypeValue(String),
    DivByZero,
    Running,
    Stuck(String),
    Panic,
}

fn outcome_of(obs: &Obs) -> Outcome {
    match &obs.front {
        Front::Accepted => {}
        f => return Outcome::Rejected(front_name(f)),
    }
    match &obs.run {
        Run::Value { value, text, .. } => match value.zonk() {
            E::Lit(_) | E::True | E::False => Outcome::Ground(text.clone()),
            E::Lam(_, im, ..) => Outcome::Function(im),
            E::Type | E::Int | E::Bool => Outcome::TypeValue(text.clone()),
            E::Pi(_, im, ..) => Outcome::Function(im),
            _ => Outcome::TypeValue(text.clone()),
        },
        Run::StillRunning { .. } => Outcome::Running,
        Run::Stuck { class: StuckClass::DivByZero, .. } => Outcome::DivByZero,
        Run::Stuck { class, .. } => Outcome::Stuck(crate::typed::stuck_name(class).to_owned()),
        Run::Panic(_) => Outcome::Panic,
        Run::NotRun => Outcome::Running,
    }
}

fn check(ctx: &mut Ctx, p: &Program, idx: u64, r: &mut Rng) {
    let explicit = p.mode == Mode::Explicit;
    let style = Style::varied(r);
    let src0 = print(&p.h, &style, idx).text;
    let steps = 3000;
    let obs0 = observe(&src0, &[], &Opts::run(steps));
    let out0 = outcome_of(&obs0);
    ctx.count(&format!("original:{}", match &out0 { Outcome::Rejected(_) => "rejected", Outcome::Running => "running", _ => "accepted" }));
    if matches!(out0, Outcome::Rejected(_)) {
        // the property is about accepted programs (a rewrite may well repair a rejected one:
        // renaming removes a shadowing, for instance)
        return;
    }
    for seq in 0..10u64 {
        let len = 1 + r.usize(5);
        let mut h = p.h.clone();
        let mut applied = vec![];
        for _ in 0..len {
            let kind = REWRITES[r.usize(REWRITES.len())];
            if let Some(x) = apply_rewrite(&h, kind, r, &p.ty, explicit) {
                h = x;
                applied.push(kind);
            }
        }
        if applied.is_empty() {
            continue;
        }
        ctx.eval();
        for k in &applied {
            ctx.count(&format!("rewrite:{k}"));
        }
        ctx.max("max_rewrites_in_sequence", applied.len() as u64);
        let src1 = print(&h, &style, idx + seq).text;
        let obs1 = observe(&src1, &[], &Opts::run(steps * 2 + 200));
        let out1 = outcome_of(&obs1);
        ctx.nontrivial(hash_str(&src1));
        let same = match (&out0, &out1) {
            (Outcome::Rejected(_), Outcome::Rejected(_)) => true,
            (Outcome::Running, _) | (_, Outcome::Running) => {
                // not both terminated within their budgets: no verdict on the value
                !matches!((&out0, &out1), (Outcome::Rejected(_), _) | (_, Outcome::Rejected(_)))
            }
            (a, b) => a == b,
        };
        if same {
            ctx.count("pairs-agree");
            continue;
        }
        let holes = has_source_holes(&h) || has_source_holes(&p.h);
        let lost = !matches!(out0, Outcome::Rejected(_)) && matches!(&out1, Outcome::Rejected(why) if *why == "type-check-rejected");
        let key = if (d3_applicable(holes, &obs0) || d3_applicable(holes, &obs1)) && !explicit {
            D3_KEY.to_owned()
        } else if lost
            && holes
            && !explicit
            && applied.iter().any(|k| k.starts_with("name-") || k.starts_with("unused-definition") || *k == "hoist-literal-arithmetic")
            && matches!(&obs1.front, Front::TypeErr(ms) if ms.first().is_some_and(|m| {
                // the type of an unannotated definition came out wrapped in the definitions of
                // an inner group (`(t : type = ...; f : ... = ...; t) -> int`)
                let head = m.lines().next().unwrap_or("");
                head.contains("but it was expected to have type `_`") && head.split("This has type `").nth(1).is_some_and(|t| t.contains(" = ") && t.contains("; "))
            }))
        {
            crate::typed::D20_KEY.to_owned()
        } else if lost && holes && !explicit && obs1.hooks.shift_unresolved_refused > obs0.hooks.shift_unresolved_refused {
            // the rewrite made unification move a term that still contains an unresolved hole to
            // an outer scope, which `signed_shift` refuses
            crate::typed::D16_KEY.to_owned()
        } else if matches!(out0, Outcome::Rejected(_)) != matches!(out1, Outcome::Rejected(_)) {
            format!("acceptance-changes:{}", if applied.len() == 1 { applied[0] } else { "sequence" })
        } else {
            format!("result-changes:{}", if applied.len() == 1 { applied[0] } else { "sequence" })
        };
        ctx.violation(
            &key,
            &format!("after [{}] the outcome changed from {out0:?} to {out1:?}", applied.join(", ")),
            Json::obj()
                .set("original", Json::s(&clip(&src0, 30000)))
                .set("rewritten", Json::s(&clip(&src1, 30000)))
                .set("hooks_original", Json::s(&format!("{:?}", obs0.hooks)))
                .set("hooks_rewritten", Json::s(&format!("{:?}", obs1.hooks))),
        );
        return;
    }
    if idx % 97 == 0 {
        ctx.sample(Json::obj().set("original", Json::s(&clip(&src0, 200))).set("outcome", Json::s(&format!("{out0:?}"))));
    }
}

impl Prop for C19P {
    fn id(&self) -> &'static str {
        "C19"
    }
    fn plan(&self, tier: Tier, _seed: u64) -> Plan {
        let mut p = Plan::new(
            vec![sec("explicit-programs", tier.pick(20_000, 60_000)), sec("inferred-programs", tier.pick(8_000, 25_000))],
            "generated programs x 10 sequences of 1-5 rewrites drawn from: consistent renaming of all binders, redundant parentheses, an unused definition (named, or bound to `_`) in front, at a site or directly after any definition of any group (a literal or a function), turning the body of a group into its last definition, naming a subexpression in place, wrapping in an immediately applied annotated identity function (at the root with the program's type, at int/bool sites), wrapping in `if true then .. else ..` with an other branch that may divide by zero, swapping adjacent function definitions, hoisting closed division-free literal arithmetic into an enclosing definition, giving a function type that occurs below a definition a name in that definition's own group; acceptance and printed value of original and rewritten program must agree (functions by head and implicit flag); non-trivial = distinct rewritten program",
        );
        p.assumptions = vec![
            "each rewrite carries the side condition that makes it meaning-preserving in a call-by-value language with division by zero and divergence; a parenthesised group is never placed directly in the body position of a group".into(),
            "pairs where either side is still running at its step budget give no verdict on the value".into(),
        ];
        p.floor_evaluations = 5_000;
        p.floor_nontrivial = 3_000;
        p.case_timeout_s = 8;
        p
    }
    fn run_case(&self, ctx: &mut Ctx, section: &str, idx: u64) {
        let explicit = section == "explicit-programs";
        let mut r = Rng::for_case(ctx.seed, if explicit { 1 } else { 2 }, idx);
        let p = gen_program_without_rec_families(&mut r, if explicit { Mode::Explicit } else { Mode::Inferred });
        check(ctx, &p, idx, &mut r);
    }
    fn describe(&self, _tier: Tier, seed: u64, section: &str, idx: u64) -> String {
        let explicit = section == "explicit-programs";
        let mut r = Rng::for_case(seed, if explicit { 1 } else { 2 }, idx);
        let p = gen_program_without_rec_families(&mut r, if explicit { Mode::Explicit } else { Mode::Inferred });
        crate::printer::print_plain(&p.h)
    }
}
