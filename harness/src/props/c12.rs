// C12 - unification succeeds only with a consistent, well-scoped solution.
// The harness builds each (pattern, instance) pair itself, so it knows every hole's cell, depth
// and shift; after unify() returns true it inspects the cells: (a) the two terms with solutions
// filled in must be convertible for R-core, (b) every solution is closed with respect to the
// scope in which its hole was written, (c) no cell is reachable from its own content.
use crate::core::Nbe;
use crate::eterm::{E, Mirror, ToGram, bx, e_shift};
use crate::fw::{Ctx, Plan, Prop, Tier, guard, panic_site, sec};
use crate::gen_prog::{GT, Mode, gen_program_with};
use crate::pipe::{Front, Opts, observe};
use crate::printer::{Style, print};
use crate::term::{Term, Variant};
use crate::typed::{D3_KEY, NBE_FUEL};
use crate::unifier::unify;
use crate::util::{Json, Rng, clip, hash_str};
use crate::verif_hooks;
use std::cell::RefCell;
use std::collections::HashSet;
use std::rc::Rc;

pub struct C12P;
pub static C12: C12P = C12P;

// A hole written by the harness: identity, binder depth of the occurrence, shift.
#[derive(Clone, Debug)]
struct HoleInfo {
    id: u32,
    home_depth: usize, // depth - shift: number of binders in scope where the hole "lives"
}

fn subterm_count(e: &E) -> usize {
    e.size()
}

// Replace the n-th node (pre-order) by a hole; returns the replaced subterm and its depth.
fn punch(e: &E, target: usize, hole: &dyn Fn(usize) -> E, counter: &mut usize, depth: usize, taken: &mut Option<(E, usize)>) -> E {
    let me = *counter;
    *counter += 1;
    if me == target {
        *taken = Some((e.clone(), depth));
        return hole(depth);
    }
    match e {
        E::Lam(n, im, d, b) => {
            let d2 = punch(d, target, hole, counter, depth, taken);
            let b2 = punch(b, target, hole, counter, depth + 1, taken);
            E::Lam(n.clone(), *im, bx(d2), bx(b2))
        }
        E::Pi(n, im, d, b) => {
            let d2 = punch(d, target, hole, counter, depth, taken);
            let b2 = punch(b, target, hole, counter, depth + 1, taken);
            E::Pi(n.clone(), *im, bx(d2), bx(b2))
        }
        E::App(a, b) => {
            let a2 = punch(a, target, hole, counter, depth, taken);
            let b2 = punch(b, target, hole, counter, depth, taken);
            E::App(bx(a2), bx(b2))
        }
        E::Let(defs, body) => {
            let n = defs.len();
            let mut nd = vec![];
            for (x, a, d) in defs {
                let a2 = punch(a, target, hole, counter, depth + n, taken);
                let d2 = punch(d, target, hole, counter, depth + n, taken);
                nd.push((x.clone(), a2, d2));
            }
            let b2 = punch(body, target, hole, counter, depth + n, taken);
            E::Let(nd, bx(b2))
        }
        E::Neg(a) => E::Neg(bx(punch(a, target, hole, counter, depth, taken))),
        E::Bin(op, a, b) => {
            let a2 = punch(a, target, hole, counter, depth, taken);
            let b2 = punch(b, target, hole, counter, depth, taken);
            E::Bin(*op, bx(a2), bx(b2))
        }
        E::If(c, t, f) => {
            let c2 = punch(c, target, hole, counter, depth, taken);
            let t2 = punch(t, target, hole, counter, depth, taken);
            let f2 = punch(f, target, hole, counter, depth, taken);
            E::If(bx(c2), bx(t2), bx(f2))
        }
        other => other.clone(),
    }
}

// Is a cell reachable from its own content? (pointer walk with a visited set)
fn has_cycle<'a>(t: &Term<'a>, on_path: &mut Vec<usize>, seen_ok: &mut HashSet<usize>) -> bool {
    match &t.variant {
        Variant::Unifier(c, _) => {
            let addr = Rc::as_ptr(c) as *const u8 as usize;
            if on_path.contains(&addr) {
                return true;
            }
            if seen_ok.contains(&addr) {
                return false;
            }
            let content = { c.borrow().clone() };
            if let Some(x) = content {
                on_path.push(addr);
                let r = has_cycle(&x, on_path, seen_ok);
                on_path.pop();
                if r {
                    return true;
                }
            }
            seen_ok.insert(addr);
            false
        }
        Variant::Lambda(_, _, a, b) | Variant::Pi(_, _, a, b) | Variant::Application(a, b) => has_cycle(a, on_path, seen_ok) || has_cycle(b, on_path, seen_ok),
        Variant::Sum(a, b)
        | Variant::Difference(a, b)
        | Variant::Product(a, b)
        | Variant::Quotient(a, b)
        | Variant::LessThan(a, b)
        | Variant::LessThanOrEqualTo(a, b)
        | Variant::EqualTo(a, b)
        | Variant::GreaterThan(a, b)
        | Variant::GreaterThanOrEqualTo(a, b) => has_cycle(a, on_path, seen_ok) || has_cycle(b, on_path, seen_ok),
        Variant::Let(defs, body) => defs.iter().any(|(_, a, d)| has_cycle(a, on_path, seen_ok) || has_cycle(d, on_path, seen_ok)) || has_cycle(body, on_path, seen_ok),
        Variant::Negation(a) => has_cycle(a, on_path, seen_ok),
        Variant::If(a, b, c) => has_cycle(a, on_path, seen_ok) || has_cycle(b, on_path, seen_ok) || has_cycle(c, on_path, seen_ok),
        _ => false,
    }
}

fn max_free(e: &E, depth: usize) -> Option<usize> {
    // largest free index relative to the root of `e` (None if closed); solved holes followed
    match e {
        E::Var(_, i) => {
            if *i >= depth {
                Some(i - depth)
            } else {
                None
            }
        }
        E::Hole(_, sh, Some(c)) => {
            // content lives `sh` binders further out
            let inner = max_free(c, 0)?;
            let idx = inner + sh;
            if idx >= depth { Some(idx - depth) } else { None }
        }
        E::Hole(_, _, None) | E::Type | E::Int | E::Bool | E::True | E::False | E::Lit(_) => None,
        E::Lam(_, _, d, b) | E::Pi(_, _, d, b) => max_free(d, depth).max(max_free(b, depth + 1)),
        E::App(a, b) | E::Bin(_, a, b) => max_free(a, depth).max(max_free(b, depth)),
        E::Let(defs, body) => {
            let n = defs.len();
            let mut m = max_free(body, depth + n);
            for (_, a, d) in defs {
                m = m.max(max_free(a, depth + n)).max(max_free(d, depth + n));
            }
            m
        }
        E::Neg(a) => max_free(a, depth),
        E::If(c, t, f) => max_free(c, depth).max(max_free(t, depth)).max(max_free(f, depth)),
    }
}

// Visit unresolved hole occurrences: (id, binder depth relative to the root, shift).
fn hole_occurrences(e: &E, depth: usize, f: &mut dyn FnMut(u32, usize, usize)) {
    match e {
        E::Hole(id, sh, None) => f(*id, depth, *sh),
        E::Hole(_, sh, Some(c)) => {
            if depth >= *sh {
                hole_occurrences(c, depth - *sh, f);
            }
        }
        E::Lam(_, _, d, b) | E::Pi(_, _, d, b) => {
            hole_occurrences(d, depth, f);
            hole_occurrences(b, depth + 1, f);
        }
        E::App(a, b) | E::Bin(_, a, b) => {
            hole_occurrences(a, depth, f);
            hole_occurrences(b, depth, f);
        }
        E::Let(defs, body) => {
            let n = defs.len();
            for (_, a, d) in defs {
                hole_occurrences(a, depth + n, f);
                hole_occurrences(d, depth + n, f);
            }
            hole_occurrences(body, depth + n, f);
        }
        E::Neg(a) => hole_occurrences(a, depth, f),
        E::If(c, t, e2) => {
            hole_occurrences(c, depth, f);
            hole_occurrences(t, depth, f);
            hole_occurrences(e2, depth, f);
        }
        _ => {}
    }
}

struct Case {
    pattern: E,
    instance: E,
    holes: Vec<HoleInfo>,
    nctx: usize, // plain parameters in the context
    kind: &'static str,
    // definitions in the context (after the parameters): each is valid in the context that
    // contains the parameters and all the definitions (offset 1 for the last one, and so on)
    ctx_defs: Vec<E>,
}

fn viol(ctx: &mut Ctx, key: &str, what: &str, c: &Case) {
    ctx.violation(key, what, Json::obj().set("pattern", Json::s(&clip(&c.pattern.show(), 1500))).set("instance", Json::s(&clip(&c.instance.show(), 1500))).set("kind", Json::s(c.kind)).set("context_parameters", Json::Int(c.nctx as i64)));
}

fn run_case_inner(ctx: &mut Ctx, c: &Case) {
    ctx.eval();
    ctx.count(&format!("kind:{}", c.kind));
    // build gram terms sharing cells between pattern and instance (same ids => same cells)
    let mut tg = ToGram::new();
    let p = tg.go(&c.pattern);
    let q = tg.go(&c.instance);
    let ctx_def_terms: Vec<Term<'static>> = c.ctx_defs.iter().map(|d| tg.go(d)).collect();
    let cells: Vec<(u32, Rc<RefCell<Option<Term<'static>>>>)> = tg.cells.iter().map(|(k, v)| (*k, v.clone())).collect();
    verif_hooks::reset();
    let res = guard(|| {
        let mut dc: Vec<Option<(Rc<Term<'static>>, usize)>> = vec![None; c.nctx];
        let nd = ctx_def_terms.len();
        for (i, d) in ctx_def_terms.iter().enumerate() {
            dc.push(Some((Rc::new(d.clone()), nd - i)));
        }
        let r = unify(&p, &q, &mut dc);
        (r, dc.len())
    });
    let hooks = verif_hooks::snapshot();
    let (ok, dclen) = match res {
        Ok(x) => x,
        Err(m) => {
            viol(ctx, &format!("unify-panic@{}", panic_site(&m)), &format!("unify panicked: {m}"), c);
            return;
        }
    };
    if dclen != c.nctx + c.ctx_defs.len() {
        viol(ctx, "context-not-restored", &format!("the definitions context has {dclen} entries after unify, {} before", c.nctx), c);
        return;
    }
    ctx.count(if ok { "unify-succeeded" } else { "unify-failed" });
    if !ok {
        return;
    }
    ctx.nontrivial(hash_str(&format!("{}|{}", c.pattern.show(), c.instance.show())));
    // (c) no cell reachable from its own content
    let mut seen = HashSet::new();
    if has_cycle(&p, &mut vec![], &mut seen) || has_cycle(&q, &mut vec![], &mut seen) || ctx_def_terms.iter().any(|d| has_cycle(d, &mut vec![], &mut seen)) {
        viol(ctx, "cyclic-solution", "a hole was solved by a term that contains the hole itself", c);
        return;
    }
    // mirrors with solutions (safe now: no cycles)
    let known: Vec<(usize, u32)> = cells.iter().map(|(id, c)| (Rc::as_ptr(c) as *const u8 as usize, *id)).collect();
    let mut m = Mirror::with_ids(&known);
    let pe = m.go(&p);
    let qe = m.go(&q);
    // (b) scope of each recorded solution
    let mut solved = 0;
    for (id, cell) in &cells {
        let content = { cell.borrow().clone() };
        let Some(content) = content else { continue };
        solved += 1;
        let Some(info) = c.holes.iter().find(|h| h.id == *id) else { continue };
        let ce = Mirror::with_ids(&known).go(&content);
        if let Some(mx) = max_free(&ce, 0) {
            let limit = info.home_depth + c.nctx;
            if mx >= limit {
                viol(ctx, "solution-escapes-scope", &format!("hole ?{id} was written where {limit} variables are in scope but its solution {} mentions variable index {mx}", clip(&ce.show(), 300)), c);
                return;
            }
        }
        // an unresolved hole inside a solution must still live in the scope it was written in
        let mut bad: Option<String> = None;
        hole_occurrences(&ce, 0, &mut |hid, depth, shift| {
            if let Some(other) = c.holes.iter().find(|h| h.id == hid) {
                let implied = (info.home_depth + depth) as i64 - shift as i64;
                if implied != other.home_depth as i64 && bad.is_none() {
                    bad = Some(format!("inside the solution of ?{id}, hole ?{hid} occurs with shift {shift} under {depth} binders, which places it in a scope of {implied} variables; it was written in a scope of {}", other.home_depth));
                }
            }
        });
        if let Some(b) = bad {
            // signed_shift leaving an unresolved hole below the cutoff untouched is one of the two
            // call sites of the recorded finding about holes carried through substitution
            let key = if hooks.open_unresolved > 0 || hooks.shift_unresolved_below_cutoff > 0 { D3_KEY.to_owned() } else { "hole-rescoped-inside-solution".to_owned() };
            viol(ctx, &key, &b, c);
            return;
        }
        ctx.count("solutions-scope-checked");
    }
    ctx.max("max_holes_solved_in_one_call", solved);
    // (a) with the solutions filled in, the two terms are definitionally equal for the reference
    let nbe = Nbe::new(NBE_FUEL);
    let mut conv = crate::core::Conv::new();
    let mut stack: Vec<u32> = (0..c.nctx).map(|i| conv.fresh(&format!("ctx{i}"))).collect();
    // context definitions become a transparent group around both terms
    let wrap = |body: &E, m: &mut Mirror| -> E {
        if ctx_def_terms.is_empty() {
            body.clone()
        } else {
            E::Let(ctx_def_terms.iter().enumerate().map(|(i, d)| (format!("cd{i}"), E::Type, m.go(d))).collect(), bx(body.clone()))
        }
    };
    let (pe, qe) = (wrap(&pe, &mut m), wrap(&qe, &mut m));
    let (cp, cq) = match (conv.go(&pe, &mut stack), conv.go(&qe, &mut stack)) {
        (Ok(a), Ok(b)) => (a, b),
        (Err(e), _) | (_, Err(e)) => {
            let key = if hooks.open_unresolved > 0 || hooks.shift_unresolved_below_cutoff > 0 { D3_KEY.to_owned() } else { "solution-ill-scoped".to_owned() };
            viol(ctx, &key, &format!("after a successful unification a term is ill scoped: {e:?}"), c);
            return;
        }
    };
    let env = crate::core::Env::empty();
    match (nbe.eval(&cp, &env), nbe.eval(&cq, &env)) {
        (Ok(a), Ok(b)) => match nbe.conv(&a, &b) {
            Ok(true) => {
                ctx.count("solutions-make-terms-equal");
                // A sound result stays an equality under every further instantiation of the holes
                // that are still open: give each of them the innermost variable of the scope it
                // was written in (a literal where that scope is empty) and compare again.
                let mut assigned = 0;
                for (id, cell) in &cells {
                    if cell.borrow().is_some() {
                        continue;
                    }
                    let Some(info) = c.holes.iter().find(|h| h.id == *id) else { continue };
                    let value = if info.home_depth + c.nctx > 0 {
                        Term { source_range: None, variant: Variant::Variable("inst", 0) }
                    } else {
                        Term { source_range: None, variant: Variant::IntegerLiteral(424_242.into()) }
                    };
                    *cell.borrow_mut() = Some(value);
                    assigned += 1;
                }
                if assigned > 0 {
                    let mut m2 = Mirror::with_ids(&known);
                    let (pe2, qe2) = (m2.go(&p), m2.go(&q));
                    let mut conv2 = crate::core::Conv::new();
                    let mut stack2: Vec<u32> = (0..c.nctx).map(|i| conv2.fresh(&format!("ctx{i}"))).collect();
                    if let (Ok(a2), Ok(b2)) = (conv2.go(&pe2, &mut stack2), conv2.go(&qe2, &mut stack2)) {
                        let nbe2 = Nbe::new(NBE_FUEL);
                        if let (Ok(x), Ok(y)) = (nbe2.eval(&a2, &env), nbe2.eval(&b2, &env)) {
                            match nbe2.conv(&x, &y) {
                                Ok(true) => ctx.count("instantiations-keep-terms-equal"),
                                Ok(false) => {
                                    let key = if hooks.open_unresolved > 0 || hooks.shift_unresolved_below_cutoff > 0 { D3_KEY.to_owned() } else { "instantiation-breaks-equality".to_owned() };
                                    viol(ctx, &key, &format!("unify returned true, but once the remaining holes are given the innermost variable of their own scope the terms become {} and {}", clip(&pe2.zonk().show(), 400), clip(&qe2.zonk().show(), 400)), c);
                                }
                                Err(_) => ctx.inconclusive("reference-fuel"),
                            }
                        }
                    } else {
                        let key = if hooks.open_unresolved > 0 || hooks.shift_unresolved_below_cutoff > 0 { D3_KEY.to_owned() } else { "instantiation-ill-scoped".to_owned() };
                        viol(ctx, &key, "after instantiating the remaining holes with variables of their own scope a term is ill scoped", c);
                    }
                }
            }
            Ok(false) => {
                let key = if hooks.open_unresolved > 0 || hooks.shift_unresolved_below_cutoff > 0 { D3_KEY.to_owned() } else { "solution-does-not-equate".to_owned() };
                viol(ctx, &key, &format!("unify returned true but with the recorded solutions the terms are {} and {}, which are not definitionally equal", clip(&pe.zonk().show(), 400), clip(&qe.zonk().show(), 400)), c);
            }
            Err(_) => ctx.inconclusive("reference-fuel"),
        },
        _ => ctx.inconclusive("reference-fuel"),
    }
}

// A hole-free well-typed closed term from the typed generator.
fn base_term(r: &mut Rng) -> Option<E> {
    let ty = match r.below(5) {
        0 | 1 => GT::Int,
        2 => GT::Bool,
        3 => GT::Type,
        _ => GT::arrow(GT::Int, GT::Int),
    };
    // no recursive definitions: with a hole in the way of the syntactic-equality shortcut, unify
    // unfolds a recursive function under its own neutral parameter for ever (divergence that is
    // written in the pair, not a fault)
    let rec = false;
    let p = gen_program_with(r, Mode::Explicit, &ty, rec);
    let src = print(&p.h, &Style::plain(), 0).text;
    let obs = observe(&src, &[], &Opts::check_only());
    if !matches!(obs.front, Front::Accepted) {
        return None;
    }
    let t = obs.elab?.zonk();
    if t.has_hole() || t.size() > 400 { None } else { Some(t) }
}

fn punched_case(r: &mut Rng, t: &E, variant: u64) -> Case {
    let mut pattern = t.clone();
    let mut holes = vec![];
    let k = 1 + r.usize(4);
    let shared = r.chance(1, 6);
    for i in 0..k {
        let n = subterm_count(&pattern);
        let target = r.usize(n);
        let id = if shared && i > 0 { 0 } else { i as u32 };
        let mut taken = None;
        let mut counter = 0;
        let want_shift = r.below(4) as usize;
        let home = RefCell::new(0usize);
        let newp = punch(
            &pattern,
            target,
            &|depth| {
                let sh = want_shift.min(depth);
                *home.borrow_mut() = depth - sh;
                E::Hole(id, sh, None)
            },
            &mut counter,
            0,
            &mut taken,
        );
        if let Some((sub, _)) = &taken {
            if sub.has_hole() {
                continue; // do not swallow an earlier hole
            }
        }
        if holes.iter().any(|h: &HoleInfo| h.id == id && h.home_depth != *home.borrow()) {
            continue; // a shared cell must have one home scope
        }
        pattern = newp;
        holes.push(HoleInfo { id, home_depth: *home.borrow() });
    }
    let instance = match variant % 3 {
        0 => t.clone(),
        1 => E::App(bx(E::Lam("w".into(), false, bx(E::Int), bx(e_shift(t, 0, 1).unwrap_or_else(|| t.clone())))), bx(E::Lit(0.into()))),
        _ => E::Let(vec![("w".into(), E::Int, E::Lit(0.into()))], bx(e_shift(t, 0, 1).unwrap_or_else(|| t.clone()))),
    };
    // sometimes the instance carries holes of its own (different cells)
    let mut instance = instance;
    let mut both_sides = false;
    if variant % 3 == 0 && r.chance(1, 3) {
        for i in 0..1 + r.usize(2) {
            let n = subterm_count(&instance);
            let target = r.usize(n);
            let id = 100 + i as u32;
            let mut taken = None;
            let mut counter = 0;
            let want_shift = r.below(3) as usize;
            let home = RefCell::new(0usize);
            let newi = punch(
                &instance,
                target,
                &|depth| {
                    let sh = want_shift.min(depth);
                    *home.borrow_mut() = depth - sh;
                    E::Hole(id, sh, None)
                },
                &mut counter,
                0,
                &mut taken,
            );
            if let Some((sub, _)) = &taken {
                if sub.has_hole() {
                    continue;
                }
            }
            instance = newi;
            holes.push(HoleInfo { id, home_depth: *home.borrow() });
            both_sides = true;
        }
    }
    // sometimes hole-free parts of either side sit behind holes that are already solved (shift
    // 0-3): they denote the same terms, so nothing about the expected outcome changes
    let (pattern, instance) = if r.chance(1, 3) {
        let kp = r.usize(3);
        let ki = r.usize(3);
        (crate::emut::wrap_solved(&pattern, r, kp, 7000, 0), crate::emut::wrap_solved(&instance, r, ki, 7100, 0))
    } else {
        (pattern, instance)
    };
    let (pattern, instance) = if r.chance(1, 2) { (pattern, instance) } else { (instance, pattern) };
    if both_sides {
        return Case { pattern, instance, holes, nctx: 0, kind: "holes-on-both-sides", ctx_defs: vec![] };
    }
    Case { pattern, instance, holes, nctx: 0, kind: ["punched-vs-original", "punched-vs-beta-expanded", "punched-vs-definition-wrapped"][(variant % 3) as usize], ctx_defs: vec![] }
}

fn handmade(idx: u64) -> Option<Case> {
    let h = |id: u32, sh: usize| E::Hole(id, sh, None);
    let v = |n: &str, i: usize| E::Var(n.into(), i);
    let lam = |b: E| E::Lam("x".into(), false, bx(E::Int), bx(b));
    let app = |a: E, b: E| E::App(bx(a), bx(b));
    let hi = |id: u32, home: usize| HoleInfo { id, home_depth: home };
    let c = |p: E, q: E, holes: Vec<HoleInfo>, nctx: usize, kind: &'static str| Some(Case { pattern: p, instance: q, holes, nctx, kind, ctx_defs: vec![] });
    let cd = |p: E, q: E, holes: Vec<HoleInfo>, defs: Vec<E>, kind: &'static str| Some(Case { pattern: p, instance: q, holes, nctx: 0, kind, ctx_defs: defs });
    match idx {
        // occurs check: ?a against f ?a
        0 => c(h(0, 0), app(v("f", 0), h(0, 0)), vec![hi(0, 0)], 1, "occurs-check"),
        1 => c(app(v("f", 0), h(0, 0)), h(0, 0), vec![hi(0, 0)], 1, "occurs-check"),
        // through a chain of holes
        2 => c(app(h(0, 0), h(1, 0)), app(h(1, 0), app(v("f", 0), h(0, 0))), vec![hi(0, 0), hi(1, 0)], 1, "occurs-check-through-chain"),
        // under a binder
        3 => c(h(0, 0), lam(h(0, 1)), vec![hi(0, 0)], 0, "occurs-check-under-binder"),
        // scope escape: hole written outside the binder, instance mentions the bound variable
        4 => c(lam(h(0, 1)), lam(v("x", 0)), vec![hi(0, 0)], 0, "scope-escape"),
        5 => c(lam(h(0, 0)), lam(v("x", 0)), vec![hi(0, 1)], 0, "scope-inside-binder"),
        6 => c(lam(lam(h(0, 1))), lam(lam(v("x", 0))), vec![hi(0, 1)], 0, "scope-escape"),
        7 => c(lam(lam(h(0, 1))), lam(lam(v("x", 1))), vec![hi(0, 1)], 0, "scope-outer-variable"),
        8 => c(lam(lam(h(0, 2))), lam(lam(v("c", 2))), vec![hi(0, 0)], 1, "scope-context-variable"),
        // shared cell at different shifts
        9 => c(app(h(0, 0), lam(h(0, 1))), app(v("c", 0), lam(v("c", 1))), vec![hi(0, 0)], 1, "shared-cell-two-shifts"),
        10 => c(app(h(0, 0), lam(h(0, 1))), app(v("c", 0), lam(v("x", 0))), vec![hi(0, 0)], 1, "shared-cell-two-shifts-inconsistent"),
        // hole against hole
        11 => c(h(0, 0), h(1, 0), vec![hi(0, 0), hi(1, 0)], 0, "hole-vs-hole"),
        12 => c(lam(h(0, 1)), lam(h(1, 0)), vec![hi(0, 0), hi(1, 1)], 0, "hole-vs-hole-different-scopes"),
        13 => c(h(0, 0), h(0, 0), vec![hi(0, 0)], 0, "same-hole"),
        // the recorded two-call scenario is exercised by the pinned sequence below
        14 => c(app(lam(h(0, 1)), E::Lit(1.into())), E::Lit(7.into()), vec![hi(0, 0)], 0, "hole-under-redex"),
        15 => c(E::If(bx(E::True), bx(h(0, 0)), bx(E::Lit(2.into()))), E::Lit(5.into()), vec![hi(0, 0)], 0, "hole-in-chosen-branch"),
        16 => c(E::Bin(crate::eterm::Op::Add, bx(h(0, 0)), bx(E::Lit(2.into()))), E::Lit(5.into()), vec![hi(0, 0)], 0, "hole-in-arithmetic"),
        17 => c(E::Pi("x".into(), false, bx(h(0, 0)), bx(h(1, 1))), E::Pi("y".into(), false, bx(E::Int), bx(E::Bool)), vec![hi(0, 0), hi(1, 0)], 0, "pi-domain-and-codomain"),
        18 => c(E::Pi("x".into(), false, bx(E::Type), bx(h(0, 1))), E::Pi("y".into(), false, bx(E::Type), bx(v("y", 0))), vec![hi(0, 0)], 0, "scope-escape-dependent-codomain"),
        // a hole written outside a binder against a term whose hole lives outside that binder too
        19 => c(lam(h(0, 1)), lam(lam(h(1, 2))), vec![hi(0, 0), hi(1, 0)], 0, "hole-vs-binder-with-outer-hole"),
        20 => c(lam(h(0, 1)), lam(lam(h(1, 1))), vec![hi(0, 0), hi(1, 1)], 0, "hole-vs-binder-with-inner-hole"),
        21 => c(h(0, 0), lam(h(1, 1)), vec![hi(0, 0), hi(1, 0)], 0, "hole-vs-binder-with-outer-hole"),
        22 => c(h(0, 0), lam(h(1, 0)), vec![hi(0, 0), hi(1, 1)], 0, "hole-vs-binder-with-inner-hole"),
        // ?a written outside x, against a binder whose hole lives inside x but outside y
        23 => c(lam(h(0, 1)), lam(lam(h(1, 1))), vec![hi(0, 0), hi(1, 1)], 0, "hole-would-leave-its-scope"),
        24 => c(lam(lam(h(0, 1))), lam(lam(lam(h(1, 1)))), vec![hi(0, 1), hi(1, 2)], 0, "hole-would-leave-its-scope"),
        // occurs check through a definition of the context: t = ?0 -> int; ?0 against t
        25 => cd(h(0, 1), v("t", 0), vec![hi(0, 0)], vec![E::Pi("_".into(), false, bx(h(0, 1)), bx(E::Int))], "occurs-check-through-context-definition"),
        26 => cd(v("t", 0), h(0, 1), vec![hi(0, 0)], vec![E::Pi("_".into(), false, bx(h(0, 1)), bx(E::Int))], "occurs-check-through-context-definition"),
        // two definitions: u = t -> t; t = ?0; ?0 against u
        27 => cd(h(0, 2), v("u", 1), vec![hi(0, 0)], vec![E::Pi("_".into(), false, bx(v("t", 0)), bx(v("t", 1))), h(0, 2)], "occurs-check-through-two-context-definitions"),
        // a definition that solves nothing: t = int; ?0 against t, and ?0 -> ?0 against t -> int
        28 => cd(h(0, 1), v("t", 0), vec![hi(0, 0)], vec![E::Int], "hole-against-defined-variable"),
        29 => cd(E::Pi("_".into(), false, bx(h(0, 1)), bx(h(0, 2))), E::Pi("_".into(), false, bx(v("t", 0)), bx(E::Int)), vec![hi(0, 0)], vec![E::Int], "hole-against-defined-variable"),
        // the instance contains, under binders of its own, holes that are already solved by open
        // terms (written 1-2 binders further out): the recorded solution must inline them at the
        // right indices
        30 => c(h(0, 0), E::Pi("y".into(), false, bx(E::Int), bx(E::Hole(50, 1, Some(bx(v("a", 0)))))), vec![hi(0, 0)], 1, "solved-hole-under-binder-in-instance"),
        31 => c(h(0, 0), lam(lam(E::Hole(50, 2, Some(bx(v("a", 0)))))), vec![hi(0, 0)], 1, "solved-hole-under-binder-in-instance"),
        32 => c(app(v("f", 1), h(0, 0)), app(v("f", 1), lam(app(E::Hole(50, 1, Some(bx(v("c", 0)))), v("x", 0)))), vec![hi(0, 0)], 2, "solved-hole-under-binder-in-instance"),
        33 => c(lam(h(0, 1)), lam(lam(E::Hole(50, 1, Some(bx(lam(v("c", 2))))))), vec![hi(0, 0)], 1, "solved-hole-under-binder-in-instance"),
        34 => c(E::Pi("y".into(), false, bx(E::Int), bx(E::Hole(50, 1, Some(bx(v("a", 0)))))), h(0, 0), vec![hi(0, 0)], 1, "solved-hole-under-binder-in-instance"),
        // implicit against explicit binders: never equal, with or without holes around
        35 => c(E::Pi("a".into(), true, bx(E::Type), bx(app(v("f", 1), v("a", 0)))), E::Pi("a".into(), false, bx(E::Type), bx(app(v("f", 1), v("a", 0)))), vec![], 1, "implicit-vs-explicit"),
        36 => c(E::Pi("a".into(), true, bx(E::Type), bx(h(0, 1))), E::Pi("a".into(), false, bx(E::Type), bx(v("c", 1))), vec![hi(0, 0)], 1, "implicit-vs-explicit"),
        37 => c(E::Lam("x".into(), true, bx(E::Int), bx(h(0, 1))), E::Lam("x".into(), false, bx(E::Int), bx(E::Lit(3.into()))), vec![hi(0, 0)], 0, "implicit-vs-explicit"),
        38 => c(app(v("g", 0), E::Pi("a".into(), false, bx(h(0, 0)), bx(E::Int))), app(v("g", 0), E::Pi("a".into(), true, bx(E::Int), bx(E::Int))), vec![hi(0, 0)], 1, "implicit-vs-explicit"),
        _ => None,
    }
}

impl Prop for C12P {
    fn id(&self) -> &'static str {
        "C12"
    }
    fn plan(&self, tier: Tier, _seed: u64) -> Plan {
        let mut p = Plan::new(
            vec![sec("handmade-configurations", 39), sec("punched-terms", tier.pick(80_000, 400_000)), sec("unrelated-pairs", tier.pick(16_000, 80_000))],
            "1-4 holes (fresh or shared cells, shift 0..3 bounded by the binder depth) punched at arbitrary positions into hole-free well-typed terms from the typed generator, unified against the original, a beta-expanded and a definition-wrapped variant, in both argument orders; pairs of unrelated terms and of a term with a structurally edited copy of itself; hole-free parts behind already solved holes; hand-made occurs-check, scope-escape and shared-cell configurations with and without context parameters; after every successful call the cells are inspected for cycles, scope and consistency; non-trivial = distinct pair on which unify succeeded",
        );
        p.assumptions = vec![
            "the statement is about success: partial solutions left by a failed unification are not judged".into(),
            "consistency is judged by R-core with unsolved holes as opaque constants".into(),
        ];
        p.floor_evaluations = 8_000;
        p.floor_nontrivial = 3_000;
        p.case_timeout_s = 10;
        p
    }
    fn run_case(&self, ctx: &mut Ctx, section: &str, idx: u64) {
        match section {
            "handmade-configurations" => {
                if let Some(c) = handmade(idx) {
                    run_case_inner(ctx, &c);
                }
            }
            "punched-terms" => {
                let mut r = Rng::for_case(ctx.seed, 1, idx);
                let Some(t) = base_term(&mut r) else { return };
                for v in 0..3 {
                    let c = punched_case(&mut r, &t, idx + v);
                    ctx.max("max_holes_per_pattern", c.holes.len() as u64);
                    for hinfo in &c.holes {
                        ctx.count(&format!("hole-home-depth:{}", hinfo.home_depth.min(6)));
                    }
                    run_case_inner(ctx, &c);
                }
            }
            "unrelated-pairs" => {
                let mut r = Rng::for_case(ctx.seed, 2, idx);
                let (Some(a), Some(b)) = (base_term(&mut r), base_term(&mut r)) else { return };
                if idx % 2 == 1 {
                    // near misses: the term against a structurally edited copy of itself (a
                    // definition dropped, duplicated or swapped, operands or branches swapped, an
                    // operator or literal changed), with and without holes on the first side
                    let Some((edited, _)) = crate::emut::edit(&a, &mut r) else { return };
                    // only closed copies that the reference accepts at the same type (an edit may
                    // leave a dangling index or an ill-typed term: not unify's business)
                    if crate::emut::max_free(&edited, 0).is_some() {
                        ctx.count("edit-discarded:not-closed");
                        return;
                    }
                    let nbe = crate::core::Nbe::new(crate::typed::NBE_FUEL);
                    match (crate::typed::rcore_infer(&nbe, &a), crate::typed::rcore_infer(&nbe, &edited)) {
                        (Ok(x), Ok(y)) if matches!(nbe.conv(&x.ty, &y.ty), Ok(true)) => {}
                        _ => {
                            ctx.count("edit-discarded:ill-typed-or-other-type");
                            return;
                        }
                    }
                    let mut c = if r.chance(1, 2) { punched_case(&mut r, &a, 0) } else { Case { pattern: a.clone(), instance: a.clone(), holes: vec![], nctx: 0, kind: "edited", ctx_defs: vec![] } };
                    if r.chance(1, 2) {
                        c.instance = edited;
                    } else {
                        c.instance = c.pattern.clone();
                        c.pattern = edited;
                    }
                    c.kind = "edited-copy";
                    run_case_inner(ctx, &c);
                    return;
                }
                let mut c = punched_case(&mut r, &a, 0);
                c.instance = b;
                c.kind = "unrelated";
                run_case_inner(ctx, &c);
            }
            _ => {}
        }
    }
}

// Miri workload: the hand-made configurations plus holes punched into small hole-free terms
// (no type checking involved, so it stays cheap under the interpreter). An Rc cycle left behind
// by a missing occurs check shows up as a leak report.
pub fn miri_cases(ctx: &mut Ctx, seed: u64, shard: u64, nshards: u64, count: u64) -> u64 {
    for i in 0..count {
        let idx = shard + i * nshards;
        if let Some(c) = handmade(idx % 39) {
            run_case_inner(ctx, &c);
        }
        let mut r = Rng::for_case(seed, 79, idx);
        let mut budget = 6 + r.usize(10);
        let t = crate::props::c11::random_db_term(&mut r, 4, &mut budget, 0);
        if crate::emut::max_free(&t, 0).is_none() {
            let c = punched_case(&mut r, &t, idx);
            run_case_inner(ctx, &c);
        }
    }
    ctx.violations
}
