// C18 - checking under a context matches the closed program; contexts are restored.
// Closed generated programs are peeled: outer lambda parameters and definition groups become the
// context, the rest is the open term. Oracles: differential between type_check(open term, context)
// and type_check(closed program) with R-core comparing the types, normalize_weak_head and unify
// under the context against their closed counterparts, and a deep snapshot of both contexts
// (length, offsets, Rc identity, structure) taken before every call.
use crate::core::{Conv, Env, Id, Nbe, V, var_val};
use crate::eterm::{E, Mirror, bx, mirror, to_gram};
use crate::fw::{Ctx, Plan, Prop, Tier, guard, panic_site, sec};
use crate::gen_prog::{GT, Mode, gen_program_with};
use crate::hast::{H, hb};
use crate::normalizer::normalize_weak_head;
use crate::parser::parse;
use crate::perturb::perturb_or_edit as perturb;
use crate::printer::{Style, print};
use crate::term::{Term, Variant};
use crate::tokenizer::tokenize;
use crate::type_checker::type_check;
use crate::typed::NBE_FUEL;
use crate::unifier::unify;
use crate::util::{Json, Rng, clip, hash_str};
use std::rc::Rc;

pub struct C18P;
pub static C18: C18P = C18P;

enum FrameH {
    Param(String, H),
    Group(Vec<(String, Option<Box<H>>, H)>),
}

fn peel_h(h: &H, max: usize) -> (Vec<FrameH>, H) {
    let mut frames = vec![];
    let mut cur = h.clone();
    while frames.len() < max {
        match cur {
            H::Lam(n, false, Some(d), b) => {
                frames.push(FrameH::Param(n, *d));
                cur = *b;
            }
            H::Let(..) => {
                let mut defs = vec![];
                loop {
                    match cur.strip().clone() {
                        H::Let(n, a, d, b) => {
                            defs.push((n, a, *d));
                            cur = *b;
                        }
                        _ => break,
                    }
                }
                frames.push(FrameH::Group(defs));
            }
            _ => break,
        }
    }
    (frames, cur)
}

fn wrap_h(frames: &[FrameH], body: H) -> H {
    let mut h = body;
    for f in frames.iter().rev() {
        h = match f {
            FrameH::Param(n, d) => H::Lam(n.clone(), false, Some(hb(d.clone())), hb(h)),
            FrameH::Group(defs) => {
                let mut x = h;
                for (n, a, d) in defs.iter().rev() {
                    x = H::Let(n.clone(), a.clone(), hb(d.clone()), hb(x));
                }
                x
            }
        };
    }
    h
}

type TCx<'a> = Vec<(Rc<Term<'a>>, usize)>;
type DCx<'a> = Vec<Option<(Rc<Term<'a>>, usize)>>;

struct Snapshot {
    t: Vec<(usize, usize, E)>,
    d: Vec<Option<(usize, usize, E)>>,
}

fn snapshot(tc: &TCx, dc: &DCx) -> Snapshot {
    Snapshot {
        t: tc.iter().map(|(r, o)| (Rc::as_ptr(r) as *const u8 as usize, *o, mirror(r))).collect(),
        d: dc.iter().map(|e| e.as_ref().map(|(r, o)| (Rc::as_ptr(r) as *const u8 as usize, *o, mirror(r)))).collect(),
    }
}

fn compare_snapshot(before: &Snapshot, tc: &TCx, dc: &DCx) -> Option<String> {
    let after = snapshot(tc, dc);
    if before.t.len() != after.t.len() || before.d.len() != after.d.len() {
        return Some(format!("context lengths changed from ({}, {}) to ({}, {})", before.t.len(), before.d.len(), after.t.len(), after.d.len()));
    }
    for (i, (a, b)) in before.t.iter().zip(after.t.iter()).enumerate() {
        if a.0 != b.0 || a.1 != b.1 || a.2 != b.2 {
            return Some(format!("typing context entry {i} changed (identity {}, offset {} -> {}, structure {})", a.0 == b.0, a.1, b.1, a.2 == b.2));
        }
    }
    for (i, (a, b)) in before.d.iter().zip(after.d.iter()).enumerate() {
        match (a, b) {
            (None, None) => {}
            (Some(x), Some(y)) if x.0 == y.0 && x.1 == y.1 && x.2 == y.2 => {}
            _ => return Some(format!("definitions context entry {i} changed")),
        }
    }
    None
}

fn viol(ctx: &mut Ctx, key: &str, what: &str, src: &str, nframes: usize) {
    ctx.violation(key, what, Json::obj().set("closed_program", Json::s(&clip(src, 3000))).set("frames_peeled", Json::Int(nframes as i64)));
}

// Reference environment for the context: parameters are rigid variables, groups are transparent.
struct RefCtx {
    stack: Vec<Id>,
    env: Env,
    param_ids: Vec<Option<Id>>, // per frame: Some(id) for a parameter
}

pub fn check_program(ctx: &mut Ctx, h: &H, want_frames: usize, perturb_body: Option<&mut Rng>, style: &Style) {
    ctx.eval();
    let (frames_h, body_h) = peel_h(h, want_frames);
    if frames_h.is_empty() {
        ctx.count("no-frames-to-peel");
        return;
    }
    let body_h = match perturb_body {
        Some(r) => match perturb(&body_h, r) {
            Some((m, _)) => m,
            None => body_h,
        },
        None => body_h,
    };
    let closed_h = wrap_h(&frames_h, body_h);
    let src = print(&closed_h, style, ctx.idx).text;
    let nframes = frames_h.len();
    let outcome = guard(|| {
        let toks = tokenize(None, &src).ok()?;
        let closed = parse(None, &src, &toks[..], &[]).ok()?;
        // peel the parsed term the same way
        let mut tc: TCx = vec![];
        let mut dc: DCx = vec![];
        let mut frames_e: Vec<(bool, Vec<(String, E, E)>)> = vec![]; // (is_param, entries: (name, type/annotation, definition))
        let mut cur: Rc<Term> = Rc::new(closed.clone());
        for f in &frames_h {
            let next = match (&cur.variant, f) {
                (Variant::Lambda(n, false, d, b), FrameH::Param(..)) => {
                    tc.push((d.clone(), 0));
                    dc.push(None);
                    frames_e.push((true, vec![((*n).to_owned(), mirror(d), E::Type)]));
                    b.clone()
                }
                (Variant::Let(defs, b), FrameH::Group(gd)) if defs.len() == gd.len() => {
                    let n = defs.len();
                    let mut es = vec![];
                    for (i, (nm, a, d)) in defs.iter().enumerate() {
                        tc.push((a.clone(), n - i));
                        dc.push(Some((d.clone(), n - i)));
                        es.push(((*nm).to_owned(), mirror(a), mirror(d)));
                    }
                    frames_e.push((false, es));
                    b.clone()
                }
                _ => return Some(Err("the parsed program does not have the frames of the source".to_owned())),
            };
            cur = next;
        }
        let open = (*cur).clone();
        let mut report: Vec<(String, String)> = vec![];
        let mut notes: Vec<&'static str> = vec![];

        // (1) type_check under the context vs closed
        let snap = snapshot(&tc, &dc);
        let r_open = type_check(None, &src, &open, &mut tc, &mut dc);
        if let Some(d) = compare_snapshot(&snap, &tc, &dc) {
            report.push(("context-not-restored-by-type-check".into(), format!("{d} ({})", if r_open.is_ok() { "accepted term" } else { "rejected term" })));
        }
        let (mut tcc, mut dcc): (TCx, DCx) = (vec![], vec![]);
        let r_closed = type_check(None, &src, &closed, &mut tcc, &mut dcc);
        if !tcc.is_empty() || !dcc.is_empty() {
            report.push(("context-not-restored-by-type-check".into(), "the empty contexts of the closed check are not empty afterwards".into()));
        }
        notes.push(if r_open.is_ok() { "open-accepted" } else { "open-rejected" });
        match (&r_open, &r_closed) {
            (Ok(_), Err(es)) => {
                // the frames' own definitions are checked only in the closed run: if the reference
                // rejects the closed program too, the generator produced an ill-typed frame
                let reference_rejects = crate::props::c07::parse_to_h(&src).is_some_and(|h| matches!(crate::typed::judge_source(&h), crate::typed::SourceVerdict::IllTyped(_) | crate::typed::SourceVerdict::IllScoped(_)));
                if reference_rejects {
                    notes.push("generator-produced-ill-typed-frame");
                } else {
                    report.push(("verdict-differs".into(), format!("accepted under the context but the closed program is rejected: {}", clip(&es[0].message, 300))));
                }
            }
            (Err(es), Ok(_)) => report.push(("verdict-differs".into(), format!("the closed program is accepted but the open term is rejected under the context: {}", clip(&es[0].message, 300)))),
            (Err(_), Err(_)) => notes.push("both-rejected"),
            (Ok((eo, to)), Ok((_, tcl))) => {
                notes.push("both-accepted");
                // compare the types with the reference: evaluate the open type in the reference
                // context, instantiate the closed type with the same rigid parameters
                let nbe = Nbe::new(NBE_FUEL);
                let mut conv = Conv::new();
                let mut rc = RefCtx { stack: vec![], env: Env::empty(), param_ids: vec![] };
                let mut ok = true;
                for (is_param, es) in &frames_e {
                    if *is_param {
                        let id = conv.fresh(&es[0].0);
                        rc.stack.push(id);
                        rc.env = rc.env.with(id, var_val(id));
                        rc.param_ids.push(Some(id));
                    } else {
                        let ids: Vec<Id> = es.iter().map(|e| conv.fresh(&e.0)).collect();
                        for id in &ids {
                            rc.stack.push(*id);
                        }
                        let mut defs = vec![];
                        for ((_, a, d), id) in es.iter().zip(ids.iter()) {
                            match (conv.go(a, &mut rc.stack), conv.go(d, &mut rc.stack)) {
                                (Ok(a), Ok(d)) => defs.push((*id, a, d)),
                                _ => ok = false,
                            }
                        }
                        rc.env = nbe.let_env(&rc.env, &defs);
                        rc.param_ids.push(None);
                    }
                }
                let mut mm = Mirror::new();
                let to_e = mm.go(to);
                let tc_e = mm.go(tcl);
                let _ = eo;
                if ok {
                    let vo = conv.go(&to_e, &mut rc.stack).ok().and_then(|c| nbe.eval(&c, &rc.env).ok());
                    let vc = conv.go(&tc_e, &mut vec![]).ok().and_then(|c| nbe.eval(&c, &Env::empty()).ok());
                    if let (Some(vo), Some(mut vc)) = (vo, vc) {
                        let mut shape_ok = true;
                        for p in &rc.param_ids {
                            if let Some(id) = p {
                                match vc {
                                    V::Pi(false, _, ref clo) => match nbe.inst(clo, var_val(*id)) {
                                        Ok(v) => vc = v,
                                        Err(_) => {
                                            shape_ok = false;
                                            break;
                                        }
                                    },
                                    _ => {
                                        report.push(("closed-type-shape".into(), "the closed program's type is not a function type where a parameter was peeled".into()));
                                        shape_ok = false;
                                        break;
                                    }
                                }
                            }
                        }
                        if shape_ok {
                            match nbe.conv(&vo, &vc) {
                                Ok(true) => notes.push("types-convertible"),
                                Ok(false) => report.push(("type-differs".into(), format!("type under the context is `{to}` but the closed program has type `{tcl}`"))),
                                Err(_) => notes.push("reference-fuel"),
                            }
                        } else {
                            notes.push("reference-fuel");
                        }
                    } else {
                        notes.push("reference-fuel");
                    }
                    // (2) normalisation under the context preserves meaning, and restores the context
                    let snap = snapshot(&tc, &dc);
                    let w = normalize_weak_head(&open, &mut dc);
                    if let Some(d) = compare_snapshot(&snap, &tc, &dc) {
                        report.push(("context-not-restored-by-normalize".into(), d));
                    }
                    let (we, oe) = (mirror(&w), mirror(&open));
                    let vw = conv.go(&we, &mut rc.stack).ok().and_then(|c| nbe.eval(&c, &rc.env).ok());
                    let vopen = conv.go(&oe, &mut rc.stack).ok().and_then(|c| nbe.eval(&c, &rc.env).ok());
                    if let (Some(vw), Some(vopen)) = (vw, vopen) {
                        match nbe.conv(&vw, &vopen) {
                            Ok(true) => notes.push("whnf-preserves-meaning"),
                            Ok(false) => report.push(("whnf-under-context-differs".into(), format!("normalize_weak_head under the context gives `{w}`, which is not equal to the term in that context"))),
                            Err(_) => notes.push("reference-fuel"),
                        }
                    }
                    // (3) unify under the context vs the closed wrappers
                    let oz = oe.zonk();
                    let wz = we.zonk();
                    if !oz.has_hole() && !wz.has_hole() {
                        let variants: Vec<(E, &str)> = vec![(wz.clone(), "reduct"), (tweak_literal(&oz), "tweaked")];
                        for (b, what) in variants {
                            let snap = snapshot(&tc, &dc);
                            let (ga, gb) = (to_gram(&oz), to_gram(&b));
                            let mut dcs: Vec<Option<(Rc<Term<'static>>, usize)>> = frames_e
                                .iter()
                                .flat_map(|(is_param, es)| {
                                    let n = es.len();
                                    es.iter().enumerate().map(move |(i, e)| if *is_param { None } else { Some((Rc::new(to_gram(&e.2.zonk())), n - i)) }).collect::<Vec<_>>()
                                })
                                .collect();
                            let len_before = dcs.len();
                            let u_open = unify(&ga, &gb, &mut dcs);
                            if dcs.len() != len_before {
                                report.push(("context-not-restored-by-unify".into(), format!("{} entries before, {} after", len_before, dcs.len())));
                            }
                            let _ = snap;
                            let (ca, cb) = (wrap_e(&frames_e, &oz), wrap_e(&frames_e, &b));
                            if ca.has_hole() || cb.has_hole() {
                                continue;
                            }
                            let u_closed = unify(&to_gram(&ca), &to_gram(&cb), &mut vec![]);
                            if u_open != u_closed {
                                report.push(("unify-under-context-differs".into(), format!("unify(term, {what}) is {u_open} under the context but {u_closed} for the closed wrappers")));
                            } else {
                                notes.push(if u_open { "unify-agrees-true" } else { "unify-agrees-false" });
                            }
                        }
                        // (4) solved holes are transparent under the context too: the term with
                        // subterms behind holes that were written up to 3 binders further out -
                        // context entries included - and solved since, normalises and unifies
                        // like the plain term
                        let ctx_len: usize = frames_e.iter().map(|(_, es)| es.len()).sum();
                        let mut wr = crate::util::Rng::for_case(hash_str(&src), 11, 0);
                        for round in 0..3u32 {
                            let k = 1 + wr.usize(3);
                            let tw = crate::emut::wrap_solved(&oz, &mut wr, k, 6000 + 10 * round, ctx_len);
                            if tw == oz {
                                continue;
                            }
                            let gw = to_gram(&tw);
                            // the context rebuilt from the mirrored frames (terms that own their names)
                            let mut dcw: Vec<Option<(Rc<Term<'static>>, usize)>> = frames_e
                                .iter()
                                .flat_map(|(is_param, es)| {
                                    let n = es.len();
                                    es.iter().enumerate().map(move |(i, e)| if *is_param { None } else { Some((Rc::new(to_gram(&e.2.zonk())), n - i)) }).collect::<Vec<_>>()
                                })
                                .collect();
                            let before = dcw.len();
                            let w2 = normalize_weak_head(&gw, &mut dcw);
                            if dcw.len() != before {
                                report.push(("context-not-restored-by-normalize".into(), format!("{before} entries before, {} after", dcw.len())));
                            }
                            let w2e = mirror(&w2).zonk();
                            let v2 = conv.go(&w2e, &mut rc.stack).ok().and_then(|c| nbe.eval(&c, &rc.env).ok());
                            let v0 = conv.go(&oz, &mut rc.stack).ok().and_then(|c| nbe.eval(&c, &rc.env).ok());
                            if let (Some(v2), Some(v0)) = (v2, v0) {
                                match nbe.conv(&v2, &v0) {
                                    Ok(true) => notes.push("whnf-through-solved-holes-preserves-meaning"),
                                    Ok(false) => report.push(("whnf-through-solved-hole-under-context-differs".into(), format!("normalize_weak_head of the term with subterms behind solved holes gives `{w2}` under the context, which is not equal to the term: {}", clip(&tw.show(), 300)))),
                                    Err(_) => notes.push("reference-fuel"),
                                }
                            }
                            let mut dcs: Vec<Option<(Rc<Term<'static>>, usize)>> = frames_e
                                .iter()
                                .flat_map(|(is_param, es)| {
                                    let n = es.len();
                                    es.iter().enumerate().map(move |(i, e)| if *is_param { None } else { Some((Rc::new(to_gram(&e.2.zonk())), n - i)) }).collect::<Vec<_>>()
                                })
                                .collect();
                            for (x, y, dir) in [(&tw, &oz, "wrapped-vs-plain"), (&oz, &tw, "plain-vs-wrapped")] {
                                if !unify(&to_gram(x), &to_gram(y), &mut dcs) {
                                    report.push(("unify-through-solved-hole-under-context-fails".into(), format!("unify is false under the context for a term and the same term with subterms behind solved holes ({dir}): {}", clip(&tw.show(), 300))));
                                    break;
                                }
                                notes.push("unify-through-solved-holes-true");
                            }
                        }
                    }
                }
            }
        }
        Some(Ok((report, notes)))
    });
    match outcome {
        Err(p) => viol(ctx, &format!("panic@{}", panic_site(&p)), &format!("a call under a context panicked: {p}"), &src, nframes),
        Ok(None) => ctx.count("closed-program-not-parsed"),
        Ok(Some(Err(m))) => {
            ctx.inconclusive("frames-mismatch");
            let _ = m;
        }
        Ok(Some(Ok((report, notes)))) => {
            ctx.nontrivial(hash_str(&src));
            ctx.count(&format!("frames:{nframes}"));
            for f in &frames_h {
                ctx.count(match f {
                    FrameH::Param(..) => "frame-kind:parameter",
                    FrameH::Group(d) => {
                        if d.len() == 1 {
                            "frame-kind:definition"
                        } else {
                            "frame-kind:group"
                        }
                    }
                });
            }
            for n in notes {
                ctx.count(n);
            }
            if let Some((key, what)) = report.into_iter().next() {
                viol(ctx, &key, &what, &src, nframes);
            }
        }
    }
}

fn tweak_literal(e: &E) -> E {
    let mut done = false;
    fn go(e: &E, done: &mut bool) -> E {
        if *done {
            return e.clone();
        }
        match e {
            E::Lit(v) => {
                *done = true;
                E::Lit(v + 1)
            }
            E::True => {
                *done = true;
                E::False
            }
            other => other.map_children(&mut |c, _| go(c, done)),
        }
    }
    go(e, &mut done)
}

fn wrap_e(frames: &[(bool, Vec<(String, E, E)>)], body: &E) -> E {
    let mut e = body.clone();
    for (is_param, es) in frames.iter().rev() {
        e = if *is_param { E::Lam(es[0].0.clone(), false, bx(es[0].1.zonk()), bx(e)) } else { E::Let(es.iter().map(|(n, a, d)| (n.clone(), a.zonk(), d.zonk())).collect(), bx(e)) };
    }
    e
}

fn gen_peelable(r: &mut Rng) -> H {
    // programs whose outer structure is parameters and groups
    let depth = r.below(4);
    let mut ty = match r.below(3) {
        0 => GT::Int,
        1 => GT::Bool,
        _ => GT::arrow(GT::Int, GT::Int),
    };
    for _ in 0..depth {
        let d = match r.below(4) {
            0 => GT::Bool,
            1 => GT::arrow(GT::Int, GT::Int),
            2 => GT::Type,
            _ => GT::Int,
        };
        ty = GT::arrow(d, ty);
    }
    let rec = r.chance(1, 6);
    gen_program_with(r, Mode::Explicit, &ty, rec).h
}

impl Prop for C18P {
    fn id(&self) -> &'static str {
        "C18"
    }
    fn plan(&self, tier: Tier, _seed: u64) -> Plan {
        let mut p = Plan::new(
            vec![sec("accepted-terms", tier.pick(90_000, 300_000)), sec("rejected-terms", tier.pick(48_000, 160_000))],
            "closed explicit programs whose outer structure is parameters and definition groups are peeled (1-6 frames; groups of 1-5 definitions, so entries are looked up from scopes 0-10 deeper than where they were pushed); the inner term is type checked, normalised and unified under the resulting contexts and the results compared with the closed program (types by R-core); single-point perturbations inside the inner term give terms rejected part-way through nested scopes; both contexts are snapshotted (length, offsets, Rc identity, structure) before every call and compared afterwards; non-trivial = distinct closed program with at least one frame",
        );
        p.assumptions = vec!["hole-free contexts (explicit programs) so that 'unchanged' is unambiguous".into(), "types are compared by R-core with parameters as rigid variables and groups transparent".into()];
        p.floor_evaluations = 8_000;
        p.floor_nontrivial = 4_000;
        p.case_timeout_s = 10;
        p
    }
    fn run_case(&self, ctx: &mut Ctx, section: &str, idx: u64) {
        let rejected = section == "rejected-terms";
        let mut r = Rng::for_case(ctx.seed, if rejected { 2 } else { 1 }, idx);
        let h = gen_peelable(&mut r);
        let style = Style::varied(&mut r);
        let want = 1 + r.usize(6);
        if rejected {
            let mut r2 = Rng::for_case(ctx.seed, 3, idx);
            check_program(ctx, &h, want, Some(&mut r2), &style);
        } else {
            check_program(ctx, &h, want, None, &style);
        }
    }
    fn describe(&self, _tier: Tier, seed: u64, section: &str, idx: u64) -> String {
        let rejected = section == "rejected-terms";
        let mut r = Rng::for_case(seed, if rejected { 2 } else { 1 }, idx);
        crate::printer::print_plain(&gen_peelable(&mut r))
    }
}
