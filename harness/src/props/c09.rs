// C09 - tokens partition the source exactly.
// Oracles: (1) model-free invariants on tokenize() output; (2) equality with R-tok.
use crate::fw::{Ctx, Plan, Prop, Tier, guard, panic_site, sec, sec_ex};
use crate::rtok::{self, RTok, TK, kind_of};
use crate::token;
use crate::tokenizer::tokenize;
use crate::util::{Json, Rng, clip, hash_str};
use num_bigint::{BigInt, Sign};

pub struct C09P;
pub static C09: C09P = C09P;

pub const ALPHABET: [&str; 34] = [
    "a", "i", "f", "é", "\u{1d465}", "0", "9", "_", "*", ":", "(", ")", "{", "}", "+", "/", ";", "-", "<", "=", ">", "#", "\n", " ", "\t", "\r",
    "\u{a0}", "\u{3000}", "$", "€", "\u{301}", "\u{663}", "\u{feff}", "\u{1f1fa}",
];

// Symbols whose grapheme-cluster boundaries depend on what precedes them (regional indicators,
// zero-width joiner sequences, variation selectors and modifiers, a virama between consonants,
// conjoining Hangul jamo, a prepending mark, CR LF) plus a letter and an illegal symbol.
pub const CLUSTER: [&str; 14] = [
    "\u{1f1fa}", "\u{1f1f8}", "\u{200d}", "\u{1f468}", "\u{fe0f}", "\u{1f3fd}", "\u{915}", "\u{94d}", "\u{1100}", "\u{1161}", "\u{600}", "\r", "\n", "$",
];
const CLUSTER_PREFIXES: [&str; 5] = ["", "y = 2 ", "é", "# ", "\u{301}"];

const BLOCK: u64 = 4096;

pub fn enum_total(k: u64, l: u32) -> u64 {
    (0..=l).map(|i| k.pow(i)).sum()
}

// i-th string in length-then-lexicographic order over an alphabet.
pub fn enum_string(alpha: &[&str], mut i: u64, maxlen: u32) -> String {
    let k = alpha.len() as u64;
    let mut len = 0u32;
    loop {
        let c = k.pow(len);
        if i < c || len == maxlen {
            break;
        }
        i -= c;
        len += 1;
    }
    let mut idxs = vec![0usize; len as usize];
    for p in (0..len as usize).rev() {
        idxs[p] = (i % k) as usize;
        i /= k;
    }
    idxs.iter().map(|&j| alpha[j]).collect()
}

fn maxlen(tier: Tier) -> u32 {
    tier.pick(4, 5)
}

impl Prop for C09P {
    fn id(&self) -> &'static str {
        "C09"
    }
    fn plan(&self, tier: Tier, _seed: u64) -> Plan {
        let total = enum_total(ALPHABET.len() as u64, maxlen(tier));
        let mut p = Plan::new(
            vec![
                sec("pinned", 64),
                sec_ex("exhaustive-strings", total.div_ceil(BLOCK)),
                sec_ex("keyword-edits", 8),
                sec_ex("grapheme-sequences", enum_total(CLUSTER.len() as u64, tier.pick(3, 4)).div_ceil(BLOCK)),
                sec("random-texts", tier.pick(30_000, 600_000)),
                sec("long-literals", tier.pick(300, 3_000)),
            ],
            "every string of at most L symbols over a 34-symbol alphabet covering each token-forming character class, a byte order mark and a regional indicator (L=4 quick, 5 thorough; one case = a block of 4096 consecutive strings), every string of at most 3 (quick) / 4 (thorough) symbols over 14 symbols whose grapheme-cluster boundaries depend on their predecessors, after each of 5 prefixes, every keyword under every one-symbol insertion/substitution, random texts of 5-400 symbols, digit runs of 1-5000 digits; non-trivial = distinct text that produced at least two tokens or at least one diagnostic",
        );
        p.assumptions = vec![
            "Rust's char::is_alphabetic/is_alphanumeric/is_whitespace and unicode-segmentation's grapheme boundaries are trusted".into(),
            "num-bigint is trusted for big-integer comparison; literal values are recomputed from the digits with an independent base-10^9 accumulation".into(),
        ];
        p.floor_evaluations = 100_000;
        p.floor_nontrivial = 10_000;
        p
    }
    fn run_case(&self, ctx: &mut Ctx, section: &str, idx: u64) {
        match section {
            "pinned" => {
                let ws = pinned();
                if let Some(w) = ws.get(idx as usize) {
                    check_text(ctx, w);
                }
            }
            "exhaustive-strings" => {
                let l = maxlen(ctx.tier);
                let total = enum_total(ALPHABET.len() as u64, l);
                let lo = idx * BLOCK;
                let hi = (lo + BLOCK).min(total);
                for i in lo..hi {
                    let s = enum_string(&ALPHABET, i, l);
                    check_text(ctx, &s);
                }
                ctx.max("exhaustive_max_symbols", u64::from(l));
            }
            "grapheme-sequences" => {
                let l = ctx.tier.pick(3, 4);
                let total = enum_total(CLUSTER.len() as u64, l);
                let lo = idx * BLOCK;
                let hi = (lo + BLOCK).min(total);
                for i in lo..hi {
                    let s = enum_string(&CLUSTER, i, l);
                    for p in CLUSTER_PREFIXES {
                        check_text(ctx, &format!("{p}{s}"));
                        check_text(ctx, &format!("{p}{s} x"));
                    }
                }
            }
            "keyword-edits" => {
                let kw = ["bool", "else", "false", "if", "int", "then", "true", "type"][idx as usize];
                let chars: Vec<char> = kw.chars().collect();
                for a in ALPHABET.iter().chain(["b", "e", "t", "y", "n", "l", "s", "r", "u", "p", "h", "o", "A", "1"].iter()) {
                    for pos in 0..=chars.len() {
                        let mut s: String = chars[..pos].iter().collect();
                        s.push_str(a);
                        s.extend(chars[pos..].iter());
                        check_text(ctx, &s);
                        check_text(ctx, &format!("x {s} y"));
                        if pos < chars.len() {
                            let mut t: String = chars[..pos].iter().collect();
                            t.push_str(a);
                            t.extend(chars[pos + 1..].iter());
                            check_text(ctx, &t);
                        }
                    }
                }
                check_text(ctx, kw);
                ctx.count("keyword_edit_families");
            }
            "random-texts" => {
                let mut r = Rng::for_case(ctx.seed, 3, idx);
                let s = random_text(&mut r);
                check_text(ctx, &s);
            }
            "long-literals" => {
                let mut r = Rng::for_case(ctx.seed, 4, idx);
                let cap = if r.chance(1, 10) { 5000 } else { 120 };
                let n = 1 + r.usize(cap);
                let mut s = String::new();
                if r.chance(1, 3) {
                    let z = r.usize(4);
                    for _ in 0..z {
                        s.push('0');
                    }
                }
                for _ in 0..n {
                    s.push((b'0' + r.below(10) as u8) as char);
                }
                ctx.max("longest_literal_digits", s.len() as u64);
                let wrapped = match r.below(4) {
                    0 => s.clone(),
                    1 => format!("x{} {s}y", r.below(10)),
                    2 => format!("{s}\u{663}"),
                    _ => format!("({s}+{s})"),
                };
                check_text(ctx, &wrapped);
            }
            _ => {}
        }
    }
    fn describe(&self, tier: Tier, seed: u64, section: &str, idx: u64) -> String {
        match section {
            "random-texts" => random_text(&mut Rng::for_case(seed, 3, idx)),
            "exhaustive-strings" => format!("block {idx} of the enumeration up to {} symbols", maxlen(tier)),
            _ => String::new(),
        }
    }
}

fn pinned() -> Vec<String> {
    let mut v: Vec<String> = vec![
        "".into(),
        "x = 1 #\ny = 2\nx + y".into(),
        "x = 1 # é\ny".into(),
        "# only a comment".into(),
        "#".into(),
        "#\n".into(),
        "a->b=>c<=d>=e==f=g<h>i-j".into(),
        "if iff int2 type_ _x _ bool else then true false".into(),
        "x\u{301}".into(),
        "$\u{301}\u{301} y".into(),
        "a\r\nb\r\n".into(),
        "\u{feff}x".into(),
        "00012 9a a9".into(),
        "}\nx".into(),
        "x;\ny".into(),
        "1\n\n\n2".into(),
        "(\n1\n)".into(),
        "x\n-y".into(),
        "\u{1d465}\u{1d7d9} = 1".into(),
    ];
    for f in ["factorial.g", "identity.g", "girard_paradox.g", "propositional_equality.g", "infinite_recursion.g", "infinite_type.g"] {
        if let Ok(s) = std::fs::read_to_string(format!("{}/examples/{f}", crate::GRAM_REPO)) {
            v.push(s);
        }
    }
    v
}

pub fn random_text(r: &mut Rng) -> String {
    const PIECES: [&str; 70] = [
        "a", "x", "foo", "é", "\u{1d465}", "_", "_x", "x_1", "iff", "int2", "type_", "bool", "else", "false", "if", "int", "then", "true", "type",
        "0", "7", "42", "007", "*", ":", "(", ")", "{", "}", "+", "/", ";", "-", "->", "<", "<=", "=", "==", "=>", ">", ">=", "#", "# c", "#é",
        "#\u{1d465}", "\n", "\n\n", " ", "  ", "\t", "\r", "\r\n", "\u{a0}", "\u{3000}", "\u{2028}", "$", "€", "\u{301}", "\u{663}", "\u{1f600}",
        "\u{1f1fa}\u{1f1f8}", "\u{1f468}\u{200d}\u{1f469}", "\u{915}\u{94d}\u{937}", "\u{feff}", "\u{1100}\u{1161}", "\u{fe0f}", "\u{600}", "\u{b}", "\u{c}", "\u{85}",
    ];
    let cap = if r.chance(1, 8) { 396 } else { 40 };
    let n = 5 + r.usize(cap);
    let mut s = String::new();
    for _ in 0..n {
        match r.below(24) {
            0 => {
                let k = 1 + r.usize(30);
                for _ in 0..k {
                    s.push((b'0' + r.below(10) as u8) as char);
                }
            }
            1 => {
                // random scalar value
                let c = char::from_u32(r.below(0x11_0000) as u32).unwrap_or('x');
                s.push(c);
            }
            _ => s.push_str(PIECES[r.usize(PIECES.len())]),
        }
    }
    s
}

fn viol(ctx: &mut Ctx, key: &str, what: &str, src: &str) {
    ctx.violation(key, what, Json::obj().set("input", Json::s(&clip(src, 2000))).set("input_hex", Json::s(&crate::util::hex(&src.as_bytes()[..src.len().min(600)]))));
}

fn strip_curly_lb(v: &mut Vec<(TK, usize, usize)>) {
    // A terminator directly after `}` is a don't-care (DESIGN.md A.2).
    let mut i = 1;
    while i < v.len() {
        if v[i].0 == TK::LineBreak && v[i - 1].0 == TK::RightCurly {
            v.remove(i);
        } else {
            i += 1;
        }
    }
}

pub fn check_text(ctx: &mut Ctx, src: &str) {
    ctx.eval();
    let g = guard(|| tokenize(None, src).map_err(|es| es.iter().map(|e| e.message.clone()).collect::<Vec<String>>()));
    let r = rtok::rtok(src);
    let g = match g {
        Ok(g) => g,
        Err(p) => {
            viol(ctx, &format!("tokenize-panic@{}", panic_site(&p)), &format!("tokenize panicked: {p}"), src);
            return;
        }
    };
    match (g, r) {
        (Ok(ts), Ok(rs)) => {
            ctx.count("ok");
            if ts.len() >= 2 {
                ctx.nontrivial(hash_str(src));
            }
            ctx.max("max_tokens", ts.len() as u64);
            // (1) invariants that need no reference
            let mut prev_end = 0usize;
            for (i, t) in ts.iter().enumerate() {
                let (s, e) = (t.source_range.start, t.source_range.end);
                let k = kind_of(&t.variant);
                if !(s >= prev_end && s < e && e <= src.len()) {
                    viol(ctx, "range-order", &format!("token {i} ({k:?}) has range {s}..{e} after previous end {prev_end} in a text of {} bytes", src.len()), src);
                    return;
                }
                if !src.is_char_boundary(s) || !src.is_char_boundary(e) {
                    viol(ctx, "range-boundary", &format!("token {i} ({k:?}) range {s}..{e} is not on character boundaries"), src);
                    return;
                }
                let gap = &src[prev_end..s];
                if !gap_is_blank(gap) {
                    viol(ctx, "gap-content", &format!("text between tokens {} and {i} is not only whitespace and comments: {gap:?}", i as i64 - 1), src);
                    return;
                }
                let text = &src[s..e];
                match &t.variant {
                    token::Variant::Identifier(name) => {
                        let wordy = text.chars().next().is_some_and(|c| c.is_alphabetic() || c == '_') && text.chars().all(|c| c.is_alphanumeric() || c == '_');
                        if *name != text || !wordy || is_keyword(text) {
                            viol(ctx, "identifier-text", &format!("identifier token {name:?} has text {text:?}"), src);
                            return;
                        }
                    }
                    token::Variant::IntegerLiteral(v) => {
                        let digits = text.bytes().all(|b| b.is_ascii_digit()) && !text.is_empty();
                        if !digits {
                            viol(ctx, "literal-text", &format!("literal token has text {text:?}"), src);
                            return;
                        }
                        let expect = BigInt::from_biguint(if text.bytes().all(|b| b == b'0') { Sign::NoSign } else { Sign::Plus }, rtok::decimal_value(text));
                        if *v != expect || v.to_string().trim_start_matches('0') != text.trim_start_matches('0') {
                            viol(ctx, "literal-value", &format!("literal {text:?} has value {v}"), src);
                            return;
                        }
                        ctx.max("longest_literal_seen", text.len() as u64);
                    }
                    token::Variant::Terminator(token::TerminatorType::LineBreak) => {
                        if text != "\n" {
                            viol(ctx, "linebreak-text", &format!("line-break terminator has text {text:?}"), src);
                            return;
                        }
                    }
                    _ => {
                        if text != k.text() {
                            viol(ctx, "token-text", &format!("{k:?} token has text {text:?}"), src);
                            return;
                        }
                    }
                }
                // maximal munch
                if let Some(c) = src[e..].chars().next() {
                    let extends = match k {
                        TK::Identifier | TK::Boolean | TK::Else | TK::False | TK::If | TK::Integer | TK::Then | TK::True | TK::Type => c.is_alphanumeric() || c == '_',
                        TK::IntegerLiteral => c.is_ascii_digit(),
                        TK::Minus => c == '>',
                        TK::LessThan | TK::GreaterThan => c == '=',
                        TK::Equals => c == '=' || c == '>',
                        _ => false,
                    };
                    if extends {
                        viol(ctx, "maximal-munch", &format!("{k:?} token {text:?} is followed by {c:?} which would extend it"), src);
                        return;
                    }
                }
                prev_end = e;
            }
            if !gap_is_blank(&src[prev_end..]) {
                viol(ctx, "gap-content", "text after the last token is not only whitespace and comments", src);
                return;
            }
            // (2) reference equality
            let mut a: Vec<(TK, usize, usize)> = ts.iter().map(|t| (kind_of(&t.variant), t.source_range.start, t.source_range.end)).collect();
            let mut b: Vec<(TK, usize, usize)> = rs.iter().map(|t| (t.kind, t.start, t.end)).collect();
            strip_curly_lb(&mut a);
            strip_curly_lb(&mut b);
            let same = a.len() == b.len()
                && a.iter().zip(b.iter()).all(|(x, y)| x.0 == y.0 && (x.0 == TK::LineBreak || (x.1 == y.1 && x.2 == y.2)));
            if !same {
                let fa: Vec<String> = a.iter().map(|x| format!("{:?}@{}..{}", x.0, x.1, x.2)).collect();
                let fb: Vec<String> = b.iter().map(|x| format!("{:?}@{}..{}", x.0, x.1, x.2)).collect();
                let key = if src.contains('#') { "stream-mismatch:comment" } else if a.iter().map(|x| x.0).filter(|k| *k != TK::LineBreak).eq(b.iter().map(|x| x.0).filter(|k| *k != TK::LineBreak)) { "stream-mismatch:line-break" } else { "stream-mismatch" };
                viol(ctx, key, &format!("tokenize gives [{}] but the specification tokenizer gives [{}]", fa.join(" "), fb.join(" ")), src);
                return;
            }
            for x in &a {
                ctx.count(&format!("kind:{:?}", x.0));
            }
            if ctx.idx % 97 == 0 && ts.len() >= 3 {
                ctx.sample(Json::obj().set("text", Json::s(&clip(src, 120))).set("tokens", Json::Int(ts.len() as i64)));
            }
        }
        (Err(msgs), Err(u)) => {
            ctx.count("rejected");
            ctx.nontrivial(hash_str(src));
            if msgs.is_empty() {
                viol(ctx, "empty-error-list", "tokenize returned Err with no diagnostics", src);
                return;
            }
            // every diagnostic names text that starts at an unexpected scalar and stays within its cluster
            let mut covered = vec![false; u.unexpected.len()];
            for m in &msgs {
                let Some(q) = quoted(m) else {
                    viol(ctx, "diagnostic-shape", &format!("diagnostic is not an 'Unexpected symbol' message: {}", clip(m, 200)), src);
                    return;
                };
                let mut matched = false;
                for (ui, &at) in u.unexpected.iter().enumerate() {
                    let (_, ce) = rtok::cluster_at(src, at);
                    if src[at..].starts_with(q) && !q.is_empty() && at + q.len() <= ce {
                        matched = true;
                        // this diagnostic covers every unexpected scalar of that cluster
                        let (cs, ce) = rtok::cluster_at(src, at);
                        for (uj, &at2) in u.unexpected.iter().enumerate() {
                            if at2 >= cs && at2 < ce {
                                covered[uj] = true;
                            }
                        }
                        let _ = ui;
                    }
                }
                if !matched {
                    viol(ctx, "diagnostic-target", &format!("diagnostic names {q:?}, which is not an unexpected symbol of the text"), src);
                    return;
                }
            }
            if covered.iter().any(|c| !c) {
                viol(ctx, "unreported-symbol", &format!("{} unexpected symbols but only {} diagnostics; some cluster has none", u.unexpected.len(), msgs.len()), src);
                return;
            }
            ctx.max("max_diagnostics", msgs.len() as u64);
        }
        (Ok(ts), Err(u)) => {
            viol(ctx, "accepts-unexpected-symbol", &format!("tokenize returned {} tokens although the text has an unexpected symbol at byte {}", ts.len(), u.unexpected[0]), src);
        }
        (Err(msgs), Ok(_)) => {
            viol(ctx, "rejects-clean-text", &format!("tokenize failed on a text without unexpected symbols: {}", clip(&msgs.join(" | "), 300)), src);
        }
    }
}

fn is_keyword(s: &str) -> bool {
    matches!(s, "bool" | "else" | "false" | "if" | "int" | "then" | "true" | "type")
}

fn gap_is_blank(gap: &str) -> bool {
    let mut in_comment = false;
    for c in gap.chars() {
        if in_comment {
            if c == '\n' {
                in_comment = false;
            }
        } else if c == '#' {
            in_comment = true;
        } else if !c.is_whitespace() {
            return false;
        }
    }
    true
}

// Text between the first pair of back-ticks on the first line of a diagnostic ("Unexpected symbol
// `X`."). The symbol itself may be a back-tick or contain one, so the closing tick is the last
// one of the headline.
fn quoted(m: &str) -> Option<&str> {
    let head_end = m.find("\n\n").unwrap_or(m.len());
    let head = &m[..head_end];
    if !head.contains("[Error]") {
        return None;
    }
    let a = head.find('`')?;
    let b = head.rfind('`')?;
    if b <= a { None } else { Some(&head[a + 1..b]) }
}
