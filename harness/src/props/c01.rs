// C01 - accepted programs never get stuck at run time (progress).
// Oracle: invariant at the evaluation boundary. The harness drives evaluator::step itself under
// a step budget; a stuck term's redex is classified by walking the evaluation context; anything
// but an integer division by literal zero is a violation. No reference model involved.
use crate::cli::{run_gram, write_input};
use crate::fw::{Ctx, Plan, Prop, Tier, panic_site, sec};
use crate::gen_prog::{Mode, gen_program};
use crate::perturb::perturb_or_edit as perturb;
use crate::pipe::{Front, Obs, Opts, Run, StuckClass, observe};
use crate::printer::{Style, print};
use crate::typed::{D3_KEY, D4_KEY, d3_applicable, front_name, has_source_holes, run_name, stuck_name};
use crate::util::{Json, Rng, clip, hash_str};
use std::time::Duration;

pub struct C01P;
pub static C01: C01P = C01P;

pub fn max_steps(tier: Tier) -> u64 {
    tier.pick(4_000, 20_000)
}

fn viol(ctx: &mut Ctx, key: &str, what: &str, src: &str, obs: &Obs) {
    ctx.violation(
        key,
        what,
        Json::obj()
            .set("source", Json::s(&clip(src, 3000)))
            .set("elaborated", Json::s(&clip(&obs.elab_text, 1200)))
            .set("hook_open_unresolved", Json::Int(obs.hooks.open_unresolved as i64))
            .set("hook_shift_unresolved_below_cutoff", Json::Int(obs.hooks.shift_unresolved_below_cutoff as i64)),
    );
}

pub fn check_program(ctx: &mut Ctx, src: &str, holes: bool, tag: &str, cli: bool) -> Obs {
    ctx.eval();
    let mut opts = Opts::run(max_steps(ctx.tier));
    opts.confirm_evaluate = true;
    let obs = observe(src, &[], &opts);
    ctx.count(&format!("{tag}:{}", front_name(&obs.front)));
    if !matches!(obs.front, Front::Accepted) {
        return obs;
    }
    ctx.count(&format!("outcome:{}", run_name(&obs.run)));
    match &obs.run {
        Run::Value { steps, .. } | Run::StillRunning { steps } => {
            ctx.add("steps-executed", *steps);
            ctx.max("max_steps_in_one_run", *steps);
            if *steps >= 1 {
                ctx.nontrivial(hash_str(src));
            }
        }
        Run::Stuck { class, term, steps } => {
            ctx.add("steps-executed", *steps);
            ctx.nontrivial(hash_str(src));
            if *class != StuckClass::DivByZero {
                let key = match class {
                    StuckClass::SourceHole => D4_KEY.to_owned(),
                    // the same finding when the evaluator's own substitution copied the unfilled
                    // source hole before reaching it
                    StuckClass::CopiedHole if obs.unresolved_source_hole && obs.eval_open_unresolved > 0 && !d3_applicable(holes, &obs) => D4_KEY.to_owned(),
                    StuckClass::WrongOperand | StuckClass::IfNonBool | StuckClass::ApplyNonFunction | StuckClass::CopiedHole if d3_applicable(holes, &obs) => D3_KEY.to_owned(),
                    c => format!("stuck:{}", stuck_name(c)),
                };
                viol(ctx, &key, &format!("accepted program got stuck after {steps} steps ({}): {term}", stuck_name(class)), src, &obs);
            }
        }
        Run::Panic(m) => viol(ctx, &format!("evaluator-panic@{}", panic_site(m)), &format!("the evaluator panicked: {m}"), src, &obs),
        Run::NotRun => {}
    }
    if obs.evaluate_agrees == Some(false) {
        viol(ctx, "evaluate-disagrees-with-step-loop", "evaluate() and the driven step loop disagree on whether the program gets stuck", src, &obs);
    }
    if holes && (obs.hooks.open_unresolved > 0 || obs.hooks.shift_unresolved_below_cutoff > 0) {
        ctx.count("programs-with-hole-substitution-events");
    }
    if !holes && (obs.hooks.open_unresolved > 0) {
        // informational: explicit programs are not expected to reach that arm
        ctx.count("explicit-programs-reaching-open-unresolved-arm");
    }
    // the real binary must agree with the library loop
    if cli && matches!(obs.run, Run::Value { .. } | Run::Stuck { .. }) {
        let path = write_input(&ctx.tmp_dir, "c01.g", src.as_bytes());
        let o = run_gram(&ctx.gram_bin, "run", &path, Duration::from_secs(10));
        ctx.count("cli-runs");
        if !o.timed_out {
            let err = o.err_str();
            match &obs.run {
                Run::Value { text, .. } => {
                    if o.code != Some(0) || o.out_str().trim_end() != format!("`{text}`") {
                        viol(ctx, "cli-run-disagrees", &format!("library evaluation gives `{text}` but `gram run` gave {}", o.summary()), src, &obs);
                    }
                }
                Run::Stuck { .. } => {
                    if o.code != Some(1) || !err.contains("is stuck!") {
                        viol(ctx, "cli-run-disagrees", &format!("library evaluation gets stuck but `gram run` gave {}", o.summary()), src, &obs);
                    }
                }
                _ => {}
            }
        }
    }
    if ctx.idx % 173 == 0 {
        ctx.sample(Json::obj().set("source", Json::s(&clip(src, 200))).set("outcome", Json::s(run_name(&obs.run))));
    }
    obs
}

impl Prop for C01P {
    fn id(&self) -> &'static str {
        "C01"
    }
    fn plan(&self, tier: Tier, _seed: u64) -> Plan {
        let mut p = Plan::new(
            vec![
                sec("pinned", 200),
                sec("explicit-programs", tier.pick(24_000, 250_000)),
                sec("inferred-programs", tier.pick(24_000, 250_000)),
                sec("perturbed-programs", tier.pick(40_000, 400_000)),
                sec("near-miss-coercions", tier.pick(30_000, 300_000)),
                crate::fw::sec_ex("small-programs-exhaustive", crate::gen_small::total_upto(tier.pick(5, 6)).div_ceil(256)),
            ],
            "every program accepted by tokenize+parse+type_check among: generated explicit and inferred programs (recursive and mutually recursive groups, nested groups, forward references, higher-order and polymorphic functions, type-level computation, omitted annotations and `_`), single-point perturbations and scope-aware edits of them (whatever the checker lets through is evaluated), near-miss coercions (a value passed from a type with type-level computation in it to an edited copy of that type and then used at the other ground type), the corpus, and every source program of at most 5 (quick) / 6 (thorough) nodes over the full syntax (exhaustive); the elaborated term is stepped up to 4000 (quick) / 20000 (thorough) steps; non-trivial = distinct accepted program that performed at least one step",
        );
        p.assumptions = vec!["budget exhaustion means 'keeps running' and counts as held; evaluate() and `gram run` are cross-checked against the driven loop on short runs".into()];
        p.floor_evaluations = 10_000;
        p.floor_nontrivial = 5_000;
        p.case_timeout_s = 30;
        p
    }
    fn run_case(&self, ctx: &mut Ctx, section: &str, idx: u64) {
        match section {
            "pinned" => {
                let mut progs = crate::corpus::witnesses(&ctx.known_witnesses());
                progs.extend(crate::corpus::all());
                if let Some(p) = progs.get(idx as usize) {
                    if p.contains("omega") {
                        return;
                    }
                    let holes = crate::props::c07::parse_to_h(p).map_or(true, |h| has_source_holes(&h));
                    check_program(ctx, p, holes, "corpus", true);
                }
            }
            "explicit-programs" | "inferred-programs" => {
                let explicit = section == "explicit-programs";
                let mut r = Rng::for_case(ctx.seed, if explicit { 1 } else { 2 }, idx);
                let p = gen_program(&mut r, if explicit { Mode::Explicit } else { Mode::Inferred });
                let src = print(&p.h, &Style::varied(&mut r), idx).text;
                check_program(ctx, &src, has_source_holes(&p.h), if explicit { "explicit" } else { "inferred" }, idx % 400 == 0);
            }
            "small-programs-exhaustive" => {
                let maxn = ctx.tier.pick(5, 6);
                let total = crate::gen_small::total_upto(maxn);
                let lo = idx * 256;
                let hi = (lo + 256).min(total);
                for i in lo..hi {
                    let h = crate::gen_small::nth(maxn, i);
                    let src = print(&h, &Style::plain(), 0).text;
                    check_program(ctx, &src, has_source_holes(&h), "small", false);
                }
            }
            "near-miss-coercions" => {
                // a value passed to a near miss of its type and then used at the other ground
                // type (two cases in three): a checker that equates the two types lets a stuck
                // program through
                let mut r = Rng::for_case(ctx.seed, 6, idx);
                let c = crate::coerce::gen_any(&mut r, idx % 3 != 0);
                let src = print(&c.h, &Style::varied(&mut r), idx).text;
                check_program(ctx, &src, false, "coercion", false);
            }
            "perturbed-programs" => {
                let mut r = Rng::for_case(ctx.seed, 3, idx);
                let mode = if idx % 2 == 0 { Mode::Explicit } else { Mode::Inferred };
                if idx % 5 == 4 {
                    // a planted type error hidden behind decoy definitions
                    let Some(p) = crate::gen_prog::gen_trap_program(&mut r, mode) else { return };
                    let src = print(&p.h, &Style::varied(&mut r), idx).text;
                    check_program(ctx, &src, has_source_holes(&p.h), "trap", false);
                    return;
                }
                let p = gen_program(&mut r, mode);
                let Some((m, _)) = perturb(&p.h, &mut r) else { return };
                let src = print(&m, &Style::varied(&mut r), idx).text;
                check_program(ctx, &src, has_source_holes(&m), "perturbed", false);
            }
            _ => {}
        }
    }
    fn describe(&self, _tier: Tier, seed: u64, section: &str, idx: u64) -> String {
        match section {
            "explicit-programs" | "inferred-programs" => {
                let explicit = section == "explicit-programs";
                let mut r = Rng::for_case(seed, if explicit { 1 } else { 2 }, idx);
                let p = gen_program(&mut r, if explicit { Mode::Explicit } else { Mode::Inferred });
                print(&p.h, &Style::varied(&mut r), idx).text
            }
            "near-miss-coercions" => {
                let mut r = Rng::for_case(seed, 6, idx);
                let c = crate::coerce::gen_any(&mut r, idx % 3 != 0);
                print(&c.h, &Style::varied(&mut r), idx).text
            }
            "perturbed-programs" => {
                let mut r = Rng::for_case(seed, 3, idx);
                let mode = if idx % 2 == 0 { Mode::Explicit } else { Mode::Inferred };
                if idx % 5 == 4 {
                    return match crate::gen_prog::gen_trap_program(&mut r, mode) {
                        Some(p) => print(&p.h, &Style::varied(&mut r), idx).text,
                        None => String::new(),
                    };
                }
                let p = gen_program(&mut r, mode);
                match perturb(&p.h, &mut r) {
                    Some((m, _)) => print(&m, &Style::varied(&mut r), idx).text,
                    None => String::new(),
                }
            }
            _ => String::new(),
        }
    }
}
