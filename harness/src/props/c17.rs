// C17 - parsing time does not blow up with nesting or length.
// Primary oracle (deterministic): W(n) = number of parse-function invocations (hook counter in
// cache_check!) for input families of growing size; the hook's cap turns an exponential run into
// an immediate, attributable abort. Secondary: thread CPU time of tokenize+parse.
use crate::fw::{Ctx, Plan, Prop, Tier, guard, sec};
use crate::parser::parse;
use crate::tokenizer::tokenize;
use crate::util::{Json, clip, hash_str};
use crate::verif_hooks;

pub struct C17P;
pub static C17: C17P = C17P;

pub const FAMILIES: [&str; 34] = [
    "definitions-each-using-previous-two-functions",
    "definitions-each-using-all-previous",
    "definitions-forward-function-chain",
    "nested-groups-in-definitions",
    "nested-parens",
    "nested-parens-unclosed",
    "nested-parens-overclosed",
    "nested-lambdas",
    "nested-implicit-lambdas",
    "nested-pis",
    "nested-arrows",
    "nested-ifs",
    "else-if-chain",
    "if-missing-else",
    "application-chain",
    "application-parenthesised-arguments",
    "application-right-nested",
    "product-chain",
    "product-parenthesised-operands",
    "sum-chain",
    "difference-right-nested",
    "negation-chain",
    "comparison-long-operands",
    "definition-sequence",
    "annotated-definition-sequence",
    "definition-sequence-no-body",
    "binder-prefix-fails-late",
    "curly-paren-alternation",
    "group-junk-before-close",
    "comments-and-blank-lines",
    "nested-group-application",
    "let-in-let-definitions",
    "long-literals",
    "token-soup-repeated",
];

pub fn family(name: &str, n: usize) -> String {
    let rep = |s: &str, k: usize| s.repeat(k);
    match name {
        "definitions-each-using-previous-two-functions" => {
            let mut s = String::from("f0 = (x : int) => x\nf1 = (x : int) => f0 x\n");
            for i in 2..n.min(1500) {
                s.push_str(&format!("f{i} = (x : int) => f{} (f{} x)\n", i - 1, i - 2));
            }
            s.push_str(&format!("r = f{} 1\nr", n.min(1500).max(2) - 1));
            s
        }
        "definitions-each-using-all-previous" => {
            let m = n.min(160);
            let mut s = String::from("v0 = 1 + 1\n");
            for i in 1..m {
                let refs: Vec<String> = (0..i).map(|j| format!("v{j}")).collect();
                s.push_str(&format!("v{i} = {}\n", refs.join(" + ")));
            }
            s.push_str("v0");
            s
        }
        "definitions-forward-function-chain" => {
            let m = n.min(1500);
            let mut s = String::new();
            s.push_str("start = g0 1\n");
            for i in 0..m {
                s.push_str(&format!("g{i} = (x : int) => g{} x\n", i + 1));
            }
            s.push_str(&format!("g{m} = (x : int) => x\nstart"));
            s
        }
        "nested-groups-in-definitions" => format!("{}1{}", (0..n.min(400)).map(|i| format!("y{i} = (z{i} = 1; ")).collect::<String>(), (0..n.min(400)).rev().map(|i| format!("z{i}); y{i}")).collect::<String>()),
        "nested-parens" => format!("{}1{}", rep("(", n), rep(")", n)),
        "nested-parens-unclosed" => format!("{}1", rep("(", n)),
        "nested-parens-overclosed" => format!("{}1{}", rep("(", n / 2), rep(")", n)),
        "nested-lambdas" => format!("{}1", (0..n).map(|i| format!("(x{i} : int) => ")).collect::<String>()),
        "nested-implicit-lambdas" => format!("{}1", (0..n).map(|i| format!("{{x{i} : int}} => ")).collect::<String>()),
        "nested-pis" => format!("{}int", (0..n).map(|i| format!("(x{i} : int) -> ")).collect::<String>()),
        "nested-arrows" => format!("{}int", rep("int -> ", n)),
        "nested-ifs" => format!("{}1{}", rep("if true then ", n), rep(" else 0", n)),
        "else-if-chain" => format!("{}0", rep("if true then 1 else ", n)),
        "if-missing-else" => format!("{}1", rep("if true then ", n)),
        "application-chain" => format!("f{}", rep(" x", n)),
        "application-parenthesised-arguments" => format!("f{}", rep(" (g x)", n)),
        "application-right-nested" => format!("{}x{}", rep("f (", n), rep(")", n)),
        "product-chain" => format!("{}1", rep("1 * 2 / ", n / 2 + 1)),
        "product-parenthesised-operands" => format!("{}1", rep("(1 * 2) / ", n)),
        "sum-chain" => format!("{}1", rep("1 + 2 - ", n / 2 + 1)),
        "difference-right-nested" => format!("{}1{}", rep("1 - (", n), rep(")", n)),
        "negation-chain" => format!("{}1", rep("- ", n)),
        "comparison-long-operands" => format!("{}1 < {}1", rep("1 + ", n / 2), rep("2 * ", n / 2)),
        "definition-sequence" => format!("{}x0", (0..n).map(|i| format!("x{i} = {i}\n")).collect::<String>()),
        "annotated-definition-sequence" => format!("{}x0", (0..n).map(|i| format!("x{i} : int = {i}; ")).collect::<String>()),
        "definition-sequence-no-body" => (0..n).map(|i| format!("x{i} = {i}\n")).collect::<String>(),
        "binder-prefix-fails-late" => format!("{}int{}", rep("(x : ", n), rep(")", n)),
        "curly-paren-alternation" => format!("{}1", (0..n).map(|i| if i % 2 == 0 { "{x : int} => " } else { "(y : int) -> " }).collect::<String>()),
        "group-junk-before-close" => format!("({})", rep("1 else ", n)),
        "comments-and-blank-lines" => format!("{}1", rep("# a comment é\n\n   \t\n", n)),
        "nested-group-application" => format!("{}x{}", rep("(f (", n / 2), rep("))", n / 2)),
        "let-in-let-definitions" => format!("{}1{}", (0..n).map(|i| format!("y{i} = (")).collect::<String>(), (0..n).rev().map(|i| format!("); y{i}")).collect::<String>()),
        "long-literals" => format!("{} + 1", "1234567890".repeat(n)),
        _ => rep("x = ( 1 + if y then { z } else -> ; ", n / 4 + 1),
    }
}

fn thread_cpu_ms() -> f64 {
    // utime+stime of this thread in clock ticks (100 Hz on Linux).
    if let Ok(s) = std::fs::read_to_string("/proc/thread-self/stat") {
        if let Some(p) = s.rfind(')') {
            let f: Vec<&str> = s[p + 2..].split(' ').collect();
            if f.len() > 13 {
                let u: f64 = f[11].parse().unwrap_or(0.0);
                let k: f64 = f[12].parse().unwrap_or(0.0);
                return (u + k) * 10.0;
            }
        }
    }
    0.0
}

struct Meas {
    n: usize,
    tokens: u64,
    w: u64,
    oc: u64,
    pp: u64,
    ok: bool, // syntactically accepted: the passes after the packrat parser ran to the end
    cpu_ms: f64,
    capped: bool,
    panicked: Option<String>,
}

fn measure(src: &str, n: usize) -> Meas {
    // token count by a first (uncounted) tokenize
    let tokens = guard(|| tokenize(None, src).map(|t| t.len() as u64).unwrap_or(0)).unwrap_or(0);
    let cap = 200 * (tokens + 2) * (tokens + 2) + 50_000;
    let mut best = f64::MAX;
    let mut w = 0;
    let mut capped = false;
    let mut panicked = None;
    let mut oc = 0;
    let mut pp = 0;
    let mut ok = false;
    for _ in 0..2 {
        verif_hooks::reset();
        verif_hooks::set_parse_calls_cap(cap);
        verif_hooks::set_order_check_calls_cap(cap);
        verif_hooks::set_post_parse_calls_cap(cap);
        let t0 = thread_cpu_ms();
        // true = the text is a sentence: only scoping / definition-order complaints, if any
        let r = guard(|| match tokenize(None, src) {
            Ok(ts) => match parse(None, src, &ts[..], &[]) {
                Ok(_) => true,
                Err(es) => es.iter().all(|e| {
                    let m = e.to_string();
                    m.contains("not in scope") || m.contains("already exists") || m.contains("will not be available in time")
                }),
            },
            Err(_) => false,
        });
        let dt = thread_cpu_ms() - t0;
        w = verif_hooks::snapshot().parse_calls;
        oc = verif_hooks::snapshot().order_check_calls;
        pp = verif_hooks::snapshot().post_parse_calls;
        verif_hooks::set_post_parse_calls_cap(0);
        verif_hooks::set_parse_calls_cap(0);
        verif_hooks::set_order_check_calls_cap(0);
        ok = matches!(r, Ok(true));
        if let Err(p) = r {
            if p.contains("parse call cap") || p.contains("check call cap") || p.contains("pass call cap") {
                capped = true;
            } else {
                panicked = Some(p);
            }
            break;
        }
        best = best.min(dt);
    }
    Meas { n, tokens, w, oc, pp, ok, cpu_ms: if best == f64::MAX { 0.0 } else { best }, capped, panicked }
}

fn variants(text: &str) -> Vec<(&'static str, String)> {
    let cut = |num: usize| {
        let mut k = text.len() * num / 3;
        while k < text.len() && !text.is_char_boundary(k) {
            k += 1;
        }
        text[..k].to_owned()
    };
    vec![("well-formed", text.to_owned()), ("cut-1/3", cut(1)), ("cut-2/3", cut(2))]
}



// ---- nested templates ----
// One-hole contexts over the whole expression grammar; a template is one context or the
// composition of two, and its family member of depth k is the template applied k times to a leaf.
// `#` in a context is replaced by the nesting level, so binders do not clash.
pub const CONTEXTS: [&str; 41] = [
    "(@)",
    "f (@) y",
    "f (@)",
    "(@) y",
    "f y (@)",
    "f (@) (y)",
    "1 * (@) / 2",
    "(@) * 2",
    "2 / (@)",
    "1 * (@) / (2)",
    "1 + (@) - 2",
    "(@) + 1",
    "1 - (@)",
    "1 + x * (@) + (1)",
    "1 - (@) - (2)",
    "- (@)",
    "(@) < 1",
    "1 == (@)",
    "if @ then 1 else 2",
    "if true then @ else 2",
    "if true then 1 else @",
    "(x# : int) => @",
    "x# => @",
    "{x# : int} => @",
    "(x# : @) => 1",
    "(x# : int) -> @",
    "(@) -> int",
    "int -> @",
    "a# = @; a#",
    "a# = (@); a#",
    "a# : int = @; a#",
    "a# : (@) = 1; a#",
    "(a# = 1; @)",
    "f (a# = @; a#)",
    "f (@",
    "@) y",
    // groups of several definitions whose body goes on nesting through an operator, alone and
    // inside a definition that is not a value (the definition-order check computes the free
    // variables of such definitions)
    "(a# = 1; b# = 2; c# = 3; a# + (@))",
    "r# = 0 + (@); r#",
    "r# = 0 + (a# = 1; b# = 2; c# = 3; a# + (@)); r#",
    "r# = f (a# : int = 1; b# : int = a#; @); r#",
    "(a# : int = 1; b# : int = @; a# + b#)",
];

pub fn template_count(tier: Tier) -> u64 {
    let n = CONTEXTS.len() as u64;
    tier.pick(n + 400, n + n * n)
}

// singles first; then pairs: all of them in order (thorough) or a seed-dependent sample (quick)
fn template(tier: Tier, i: u64, seed: u64) -> (String, Vec<&'static str>) {
    let n = CONTEXTS.len() as u64;
    if i < n {
        return (CONTEXTS[i as usize].to_owned(), vec![CONTEXTS[i as usize]]);
    }
    let j = tier.pick(crate::util::Rng::for_case(seed, 17, i - n).below(n * n), i - n);
    let (a, b) = (CONTEXTS[(j / n) as usize], CONTEXTS[(j % n) as usize]);
    (format!("{a} o {b}"), vec![a, b])
}

fn nest(ctxs: &[&str], depth: usize) -> String {
    let mut s = String::from("1");
    for level in 0..depth {
        for c in ctxs.iter().rev() {
            s = c.replace('#', &level.to_string()).replace('@', &s);
        }
    }
    s
}

// ---- instruction counts (valgrind cachegrind, --cache-sim=no) ----
// CPU time on this machine depends on what else is running (cache and memory-bus contention made
// an 11x jump for 1.5x the tokens while the instruction count grew 1.8x), so the time-like oracle
// that decides is the number of guest instructions executed by `gv parse-only <file>` as counted
// by valgrind: deterministic up to hash seeds, and it sees the tokenizer, reassociation, variable
// resolution and the definition-order check, which W does not.

pub fn parse_only(path: &str) -> i32 {
    let Ok(src) = std::fs::read_to_string(path) else { return 2 };
    let h = std::thread::Builder::new().stack_size(1 << 30).spawn(move || {
        let tokens = tokenize(None, &src).map(|t| t.len() as u64).unwrap_or(0);
        let cap = 200 * (tokens + 2) * (tokens + 2) + 50_000;
        verif_hooks::reset();
        verif_hooks::set_parse_calls_cap(cap);
        verif_hooks::set_order_check_calls_cap(cap);
        verif_hooks::set_post_parse_calls_cap(cap);
        let ok = match tokenize(None, &src) {
            Ok(ts) => parse(None, &src, &ts[..], &[]).is_ok(),
            Err(_) => false,
        };
        println!("tokens={tokens} ok={ok}");
    });
    match h.map(|h| h.join()) {
        Ok(Ok(())) => 0,
        _ => 3,
    }
}

enum Ir {
    Count(u64),
    Died(i32),
    Timeout,
    Unavailable(String),
}

fn instructions(ctx: &Ctx, text: &str, timeout_s: u64) -> Ir {
    use std::io::Read;
    use std::process::{Command, Stdio};
    let _ = std::fs::create_dir_all(&ctx.tmp_dir);
    let path = format!("{}/c17-ir.g", ctx.tmp_dir);
    if std::fs::write(&path, text).is_err() {
        return Ir::Unavailable("cannot write input".into());
    }
    let Ok(exe) = std::env::current_exe() else { return Ir::Unavailable("no current_exe".into()) };
    let child = Command::new("valgrind")
        .args(["--tool=cachegrind", "--cache-sim=no", "--cachegrind-out-file=/dev/null", "--main-stacksize=8388608"])
        .arg(exe)
        .args(["parse-only", &path])
        .stdin(Stdio::null())
        .stdout(Stdio::null())
        .stderr(Stdio::piped())
        .spawn();
    let mut child = match child {
        Ok(c) => c,
        Err(e) => return Ir::Unavailable(format!("valgrind did not start: {e}")),
    };
    let mut err = child.stderr.take().unwrap();
    let reader = std::thread::spawn(move || {
        let mut s = String::new();
        let _ = err.read_to_string(&mut s);
        s
    });
    let t0 = std::time::Instant::now();
    let status = loop {
        match child.try_wait() {
            Ok(Some(st)) => break st,
            Ok(None) => {
                if t0.elapsed().as_secs() > timeout_s {
                    let _ = child.kill();
                    let _ = child.wait();
                    return Ir::Timeout;
                }
                std::thread::sleep(std::time::Duration::from_millis(20));
            }
            Err(e) => return Ir::Unavailable(format!("wait: {e}")),
        }
    };
    let out = reader.join().unwrap_or_default();
    let refs = out.lines().find_map(|l| l.split("I   refs:").nth(1).map(|x| x.replace(',', "").trim().parse::<u64>().ok())).flatten();
    match (status.code(), refs) {
        (Some(0), Some(n)) => Ir::Count(n),
        (Some(c), Some(_)) => Ir::Died(c),
        (c, None) => Ir::Unavailable(format!("no instruction count in valgrind's output (exit {c:?}): {}", clip(&out, 200))),
        (None, Some(_)) => Ir::Died(-1),
    }
}

fn ir_baseline(ctx: &Ctx) -> Option<u64> {
    static BASE: std::sync::OnceLock<Option<u64>> = std::sync::OnceLock::new();
    *BASE.get_or_init(|| match instructions(ctx, "1", 120) {
        Ir::Count(n) => Some(n),
        _ => None,
    })
}

fn tokens_of(src: &str) -> u64 {
    guard(|| tokenize(None, src).map(|t| t.len() as u64).unwrap_or(0)).unwrap_or(0)
}

fn exponent(y1: f64, y0: f64, t1: u64, t0: u64) -> f64 {
    (y1 / y0).log2() / ((t1.max(1) as f64) / (t0.max(1) as f64)).log2().max(0.5)
}

impl C17P {
    fn template_case(&self, ctx: &mut Ctx, idx: u64) {
        let (name, ctxs) = template(ctx.tier, idx, ctx.seed);
        let max_depth = ctx.tier.pick(32usize, 48) / ctxs.len();
        let mut prev: Option<Meas> = None;
        let mut prev_elapsed: Option<f64> = None;
        let mut depth = 4 / ctxs.len().min(2);
        let step = depth;
        while depth <= max_depth {
            let text = nest(&ctxs, depth);
            let started = std::time::Instant::now();
            let m = measure(&text, depth);
            let elapsed = started.elapsed().as_secs_f64();
            ctx.eval();
            // Backstop for work that no counter sees (a traversal outside the hooked functions):
            // one more nesting step multiplies the time by more than 30 and takes it beyond 8
            // seconds, for an input of a few hundred tokens that normally parses in milliseconds.
            // Four orders of magnitude of margin, and relative to a measurement taken a moment
            // before on the same machine - load does not produce that.
            if let Some(pe) = prev_elapsed {
                if elapsed > 8.0 && pe > 0.0005 && elapsed > 30.0 * pe {
                    ctx.violation(
                        "time-blowup:nested-template",
                        &format!("template `{name}`: parsing took {pe:.3} s at the previous depth and {elapsed:.1} s at depth {depth} ({} tokens) while every counter stayed within its cap", m.tokens),
                        Json::obj().set("template", Json::s(&name)).set("depth", Json::Int(depth as i64)).set("tokens", Json::Int(m.tokens as i64)).set("input", Json::s(&clip(&text, 400))),
                    );
                    return;
                }
            }
            prev_elapsed = Some(elapsed);
            ctx.max("templates_max_parse_ms", (elapsed * 1000.0) as u64);
            if m.tokens >= 32 {
                ctx.nontrivial(hash_str(&format!("tpl/{name}/{depth}")));
            }
            ctx.max("templates_max_tokens", m.tokens);
            ctx.max("templates_max_parse_calls", m.w);
            ctx.max("templates_max_post_parse_calls", m.pp);
            let detail = |m: &Meas| Json::obj().set("template", Json::s(&name)).set("depth", Json::Int(m.n as i64)).set("tokens", Json::Int(m.tokens as i64)).set("parse_calls", Json::Int(m.w as i64)).set("order_check_calls", Json::Int(m.oc as i64)).set("post_parse_calls", Json::Int(m.pp as i64)).set("input", Json::s(&clip(&text, 400)));
            if m.panicked.is_some() {
                ctx.inconclusive("panic-during-measurement");
                break;
            }
            if m.capped {
                ctx.violation("work-cap-exceeded:nested-template", &format!("template `{name}` nested {depth} times ({} tokens): more than 200*(tokens+2)^2+50000 invocations of the parse functions, of the definition-order check or of the post-parse passes", m.tokens), detail(&m));
                break;
            }
            if let Some(p) = &prev {
                if p.tokens >= 40 {
                    for (what, a, b) in [("parse-function", p.w, m.w), ("post-parse pass", p.pp, m.pp), ("definition-order check", p.oc, m.oc)] {
                        if what != "parse-function" && p.ok != m.ok {
                            continue;
                        }
                        if a >= 200 && b > 0 {
                            let e = exponent(b as f64, a as f64, m.tokens, p.tokens);
                            ctx.max("templates_max_exponent_x100", (e * 100.0).max(0.0) as u64);
                            if e > 2.5 {
                                ctx.violation("work-superquadratic:nested-template", &format!("template `{name}`: {what} invocations grow with local exponent {e:.2} between depth {} ({a}) and depth {depth} ({b})", p.n), detail(&m));
                                return;
                            }
                        }
                    }
                }
            }
            prev = Some(m);
            depth += step;
        }
        ctx.count("templates-measured");
    }
    fn ir_case(&self, ctx: &mut Ctx, idx: u64) {
        let nforms = ctx.tier.pick(1u64, 3);
        let fam = FAMILIES[(idx / nforms) as usize];
        let form = (idx % nforms) as usize;
        let max_n = ctx.tier.pick(512usize, 2048);
        let Some(base) = ir_baseline(ctx) else {
            ctx.inconclusive("valgrind-unavailable");
            return;
        };
        ctx.max("instruction_count_baseline", base);
        let mut prev: Option<(usize, u64, u64)> = None; // n, tokens, net instructions
        let mut table = vec![];
        let mut n = 64usize;
        while n <= max_n {
            let full = family(fam, n);
            let (form_name, text) = variants(&full).swap_remove(form);
            let tokens = tokens_of(&text);
            if let Some((_, pt, _)) = prev {
                if tokens == pt {
                    break; // the family is capped: same input again
                }
            }
            let ir = match instructions(ctx, &text, 300) {
                Ir::Count(c) => c.saturating_sub(base),
                Ir::Died(_) => {
                    // cap exceeded or a crash: the in-process section reports those
                    ctx.count("instruction-count:run-died");
                    break;
                }
                Ir::Timeout => {
                    ctx.inconclusive("instruction-count-timeout");
                    break;
                }
                Ir::Unavailable(why) => {
                    ctx.inconclusive("valgrind-unavailable");
                    let _ = why;
                    break;
                }
            };
            ctx.eval();
            ctx.count("instruction-count:runs");
            if tokens >= 64 {
                ctx.nontrivial(hash_str(&format!("ir/{fam}/{form_name}/{n}")));
            }
            ctx.max("max_instructions", ir);
            if tokens > 0 {
                ctx.max("max_instructions_per_token", ir / tokens);
            }
            table.push(Json::obj().set("n", Json::Int(n as i64)).set("tokens", Json::Int(tokens as i64)).set("instructions", Json::Int(ir as i64)));
            if let Some((pn, pt, pir)) = prev {
                if pt >= 100 && pir >= 2_000_000 && ir > 0 {
                    let e = exponent(ir as f64, pir as f64, tokens, pt);
                    ctx.count("instruction-count:judged-doublings");
                    ctx.max("max_instruction_exponent_x100", (e * 100.0).max(0.0) as u64);
                    if e > 2.5 {
                        ctx.violation(
                            "instruction-count-superquadratic",
                            &format!("family {fam} ({form_name}): instructions executed by tokenize+parse grow with local exponent {e:.2} between n={pn} ({pir} instructions, {pt} tokens) and n={n} ({ir} instructions, {tokens} tokens)"),
                            Json::obj().set("family", Json::s(fam)).set("form", Json::s(form_name)).set("n", Json::Int(n as i64)).set("tokens", Json::Int(tokens as i64)).set("instructions", Json::Int(ir as i64)).set("input_head", Json::s(&clip(&text, 120))),
                        );
                        break;
                    }
                }
            }
            prev = Some((n, tokens, ir));
            if ir > 4_000_000_000 {
                break;
            }
            n *= 2;
        }
        ctx.sample(Json::obj().set("family", Json::s(fam)).set("form", Json::Int(form as i64)).set("instruction_counts", Json::Arr(table)));
    }
}

impl Prop for C17P {
    fn id(&self) -> &'static str {
        "C17"
    }
    fn plan(&self, tier: Tier, _seed: u64) -> Plan {
        let mut p = Plan::new(
            vec![sec("families", FAMILIES.len() as u64 * 3), sec("instruction-counts", FAMILIES.len() as u64 * tier.pick(1, 3)), sec("nested-templates", template_count(tier))],
            "34 input families (nesting, chains, definition sequences, conditionals, malformed and junk-laden variants) x 3 forms (well-formed, truncated at 1/3 and at 2/3). Section families: sizes n = 16,32,...,2048 (quick) / 4096 (thorough), in-process; per size the parse-function invocation count W and the definition-order check invocation count (hook counters) and the thread CPU time are recorded; violation = W exceeds 200*(tokens+2)^2+50000 (cap, aborts the parse) or the local exponent log2(W(2n)/W(n))/log2(tokens ratio) exceeds 2.5 for tokens>=100 (same for the order-check count). Section instruction-counts: `gv parse-only` (tokenize+parse of one file) is run under valgrind cachegrind --cache-sim=no for n = 64,...,512 (quick, well-formed form) / 2048 (thorough, all forms) and the guest instruction count, net of the start-up baseline, is the time measure; violation = local exponent above 2.5 where the smaller run has >=100 tokens and >=2e6 instructions. A CPU-time exponent above 2.8 (both times >=300 ms) in the in-process section is only a trigger: the two inputs are re-measured by instruction count and the violation is raised if that exponent exceeds 2.5 too; non-trivial = distinct (family, form, size) input with at least 64 tokens",
        );
        p.assumptions = vec![
            "W counts invocations of the 36 memoised parse functions; tokenizing, reassociation, variable resolution and the definition-order check are only seen by the CPU-time measure".into(),
            "families, not all inputs: the bound is observational".into(),
        ];
        p.floor_evaluations = 300;
        p.floor_nontrivial = 200;
        p.case_timeout_s = 1500;
        p
    }
    fn run_case(&self, ctx: &mut Ctx, section: &str, idx: u64) {
        if section == "instruction-counts" {
            return self.ir_case(ctx, idx);
        }
        if section == "nested-templates" {
            return self.template_case(ctx, idx);
        }
        let fam = FAMILIES[(idx / 3) as usize];
        let form = (idx % 3) as usize;
        let max_n = ctx.tier.pick(2048usize, 4096);
        let mut prev: Option<Meas> = None;
        let mut n = 16usize;
        let mut table = vec![];
        while n <= max_n {
            let full = family(fam, n);
            let (form_name, text) = variants(&full).swap_remove(form);
            let m = measure(&text, n);
            ctx.eval();
            if m.tokens >= 64 {
                ctx.nontrivial(hash_str(&format!("{fam}/{form_name}/{n}")));
            }
            ctx.max("max_tokens", m.tokens);
            ctx.max("max_parse_calls", m.w);
            ctx.max("max_order_check_calls", m.oc);
            ctx.max("max_post_parse_calls", m.pp);
            if m.tokens > 0 {
                ctx.max("max_parse_calls_per_token_x100", m.w * 100 / m.tokens);
            }
            let detail = |m: &Meas| Json::obj().set("family", Json::s(fam)).set("form", Json::s(form_name)).set("n", Json::Int(m.n as i64)).set("tokens", Json::Int(m.tokens as i64)).set("parse_calls", Json::Int(m.w as i64)).set("order_check_calls", Json::Int(m.oc as i64)).set("post_parse_calls", Json::Int(m.pp as i64)).set("cpu_ms", Json::Num(m.cpu_ms)).set("input_head", Json::s(&clip(&text, 120)));
            if let Some(p) = &m.panicked {
                // a crash is C14's business; here the run tells us nothing about growth
                ctx.inconclusive("panic-during-measurement");
                let _ = p;
                break;
            }
            if m.capped {
                ctx.violation("parse-work-cap-exceeded", &format!("family {fam} ({form_name}) at n={n}: more than 200*(tokens+2)^2+50000 parse-function (or definition-order check, or post-parse pass) invocations for {} tokens", m.tokens), detail(&m));
                break;
            }
            if let Some(p) = &prev {
                if p.oc > 1000 && m.oc > 0 && p.tokens >= 100 {
                    let e = ((m.oc as f64) / (p.oc as f64)).log2() / ((m.tokens.max(1) as f64) / (p.tokens.max(1) as f64)).log2().max(0.5);
                    ctx.max("max_order_check_exponent_x100", (e * 100.0).max(0.0) as u64);
                    if e > 2.5 {
                        ctx.violation("order-check-work-superquadratic", &format!("family {fam} ({form_name}): definition-order check invocations grow with local exponent {e:.2} between n={} and n={n}", p.n), detail(&m));
                        break;
                    }
                }
                // the passes after the packrat parser stop at the first failing stage: compare like with like
                if p.pp > 1000 && m.pp > 0 && p.tokens >= 100 && p.ok == m.ok {
                    let e = exponent(m.pp as f64, p.pp as f64, m.tokens, p.tokens);
                    ctx.max("max_post_parse_exponent_x100", (e * 100.0).max(0.0) as u64);
                    if e > 2.5 {
                        ctx.violation("post-parse-work-superquadratic", &format!("family {fam} ({form_name}): invocations of the post-parse passes (error collection, re-association, resolution, definition traversal) grow with local exponent {e:.2} between n={} and n={n}", p.n), detail(&m));
                        break;
                    }
                }
                if p.w > 0 && m.w > 0 && p.tokens >= 100 {
                    let e = ((m.w as f64) / (p.w as f64)).log2() / ((m.tokens.max(1) as f64) / (p.tokens.max(1) as f64)).log2().max(0.5);
                    ctx.max("max_local_exponent_x100", (e * 100.0).max(0.0) as u64);
                    if e > 2.5 {
                        ctx.violation("parse-work-superquadratic", &format!("family {fam} ({form_name}): W grows with local exponent {e:.2} between n={} and n={n}", p.n), detail(&m));
                        break;
                    }
                }
                if p.cpu_ms >= 300.0 && m.cpu_ms >= 300.0 {
                    let e = exponent(m.cpu_ms, p.cpu_ms, m.tokens, p.tokens);
                    ctx.count("cpu-time-judged-doublings");
                    if e > 2.8 {
                        // CPU time is load-dependent here; the instruction count decides
                        let (_, ptext) = variants(&family(fam, p.n)).swap_remove(form);
                        let base = ir_baseline(ctx).unwrap_or(0);
                        match (instructions(ctx, &ptext, 600), instructions(ctx, &text, 600)) {
                            (Ir::Count(a), Ir::Count(b)) => {
                                let (a, b) = (a.saturating_sub(base).max(1), b.saturating_sub(base).max(1));
                                let ei = exponent(b as f64, a as f64, m.tokens, p.tokens);
                                if ei > 2.5 {
                                    ctx.violation("cpu-time-superquadratic", &format!("family {fam} ({form_name}): CPU time grows with exponent {e:.2} between n={} ({:.0} ms) and n={n} ({:.0} ms), and the instruction count with exponent {ei:.2} ({a} -> {b})", p.n, p.cpu_ms, m.cpu_ms), detail(&m));
                                    break;
                                }
                                ctx.count("cpu-time-excess-not-confirmed-by-instruction-count");
                            }
                            _ => ctx.inconclusive("cpu-time-excess-could-not-be-re-measured"),
                        }
                    }
                }
            }
            ctx.max("max_cpu_ms", m.cpu_ms as u64);
            table.push(Json::obj().set("n", Json::Int(n as i64)).set("tokens", Json::Int(m.tokens as i64)).set("W", Json::Int(m.w as i64)).set("cpu_ms", Json::Num(m.cpu_ms)));
            prev = Some(m);
            n *= 2;
        }
        ctx.count("families-x-forms-measured");
        ctx.sample(Json::obj().set("family", Json::s(fam)).set("form", Json::Int(form as i64)).set("measurements", Json::Arr(table)));
    }
    fn describe(&self, _tier: Tier, _seed: u64, _section: &str, idx: u64) -> String {
        format!("family {} form {}", FAMILIES[(idx / 3) as usize], idx % 3)
    }
}
