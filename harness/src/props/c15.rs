// C15 - diagnostics point at the offending source text.
// Oracles: (1) listing(src, range) against R-listing (DESIGN.md A.8) on generated (text, range)
// pairs; (2) fault injection with spans known from the printer: the excerpt in the diagnostic
// must be the R-listing of exactly the injected identifier / symbol / subexpression; (3) every
// node range of parse() output must re-parse, in the scope at that point, to the same subterm.
use crate::error::{SourceRange, listing};
use crate::eterm::{E, mirror};
use crate::fw::{Ctx, Plan, Prop, Tier, guard, panic_site, sec};
use crate::hast::{H, canon_holes, resolve, ScopeErr};
use crate::parser::parse;
use crate::printer::{Printed, Style, print};
use crate::props::c08::{count_binders, count_vars, gen_case, rename_nth_binder, rename_nth_var, walk};
use crate::term::{Term, Variant};
use crate::tokenizer::tokenize;
use crate::util::{Json, Rng, clip, hash_str};

pub struct C15P;
pub static C15: C15P = C15P;

pub const D15_KEY: &str = "range:starts-or-ends-inside-parentheses-of-reassociated-chain";

// R-listing: expected excerpt for a byte range on character boundaries (A.8).
pub fn rlisting(src: &str, s: usize, e: usize) -> Option<String> {
    if !(s <= e && e <= src.len() && src.is_char_boundary(s) && src.is_char_boundary(e)) {
        return None;
    }
    struct Shown {
        no: usize,
        text: String,
        pad: usize,
        marks: usize,
    }
    let mut shown: Vec<Shown> = vec![];
    let mut line_start = 0usize;
    let mut no = 0usize;
    let bytes = src.as_bytes();
    loop {
        no += 1;
        let mut line_end = line_start;
        while line_end < bytes.len() && bytes[line_end] != b'\n' {
            line_end += 1;
        }
        // the line occupies [line_start, line_end], its LF (if any) at line_end
        let intersects = if s == e { line_start < s && s <= line_end } else { line_start < e && line_end >= s };
        if intersects {
            let full = &src[line_start..line_end];
            let trimmed = full.trim_end();
            let tl = trimmed.len();
            let (a, b) = if s > line_start {
                ((s - line_start).min(tl), (e - line_start).min(tl))
            } else {
                let b = (e - line_start).min(tl);
                let a = trimmed.char_indices().find(|(_, c)| !c.is_whitespace()).map_or(b, |(i, _)| i);
                (a, b)
            };
            if a > b {
                return None; // a range ending inside leading indentation is outside the specified domain
            }
            shown.push(Shown { no, text: trimmed.to_owned(), pad: trimmed[..a].chars().count(), marks: trimmed[a..b].chars().count() });
        }
        if line_end >= bytes.len() || line_end + 1 > e {
            break;
        }
        line_start = line_end + 1;
    }
    if shown.is_empty() {
        return None; // e.g. an empty range at the very start of a line: outside the specified domain
    }
    let w = shown.iter().map(|x| x.no.to_string().len()).max().unwrap_or(0);
    let mut out = String::new();
    for (k, x) in shown.iter().enumerate() {
        if k > 0 {
            out.push('\n');
        }
        let last = k + 1 == shown.len();
        out.push_str(&format!("{:>w$} \u{2502} {}", x.no, x.text, w = w));
        out.push('\n');
        out.push_str(&" ".repeat(w));
        out.push(' ');
        out.push(if last { ' ' } else { '\u{250a}' });
        if x.marks > 0 {
            out.push(' ');
            out.push_str(&" ".repeat(x.pad));
            out.push_str(&"\u{203e}".repeat(x.marks));
        }
    }
    Some(out)
}

fn excerpt_of(message: &str) -> Option<&str> {
    message.find("\n\n").map(|i| &message[i + 2..])
}

fn viol(ctx: &mut Ctx, key: &str, what: &str, src: &str) {
    ctx.violation(key, what, Json::obj().set("source", Json::s(&clip(src, 2500))));
}

// (1) direct listing check
fn check_listing(ctx: &mut Ctx, src: &str, s: usize, e: usize) {
    ctx.eval();
    let Some(expect) = rlisting(src, s, e) else {
        ctx.count("listing-range-outside-domain");
        return;
    };
    match guard(|| listing(src, SourceRange { start: s, end: e })) {
        Err(p) => viol(ctx, &format!("listing-panic@{}", panic_site(&p)), &format!("listing panicked for range {s}..{e}: {p}"), src),
        Ok(got) => {
            if got != expect {
                let key = if src[..s].chars().any(|c| !c.is_ascii()) || !src[s..e].is_ascii() { "listing-mismatch:non-ascii" } else { "listing-mismatch" };
                viol(ctx, key, &format!("listing for range {s}..{e} is\n{got}\nbut the specification gives\n{expect}"), src);
            } else {
                ctx.count("listings-equal");
                ctx.nontrivial(hash_str(&format!("{s}:{e}:{src}")));
                let lines = expect.lines().count() / 2;
                ctx.max("max_lines_in_one_excerpt", lines as u64);
                ctx.max("max_line_number_shown", src[..e.min(src.len())].matches('\n').count() as u64 + 1);
            }
        }
    }
}

fn random_listing_text(r: &mut Rng) -> String {
    const P: [&str; 26] = ["x", "foo", " ", "  ", "\t", "é", "\u{1d465}", "€", "(", ")", "+", "=", "1", "42", "\n", "\n", "\r\n", " \n", "# c", "λ", "if", "then", "\u{3000}", "\n\u{3000}\u{3000}", "\n\u{a0}", "\u{2003}"];
    let pre_lines = if r.chance(1, 3) { r.usize(120) } else { r.usize(12) };
    let mut s = String::new();
    for i in 0..pre_lines {
        s.push_str(&format!("l{i} = {i}\n"));
    }
    let n = 3 + r.usize(40);
    for _ in 0..n {
        s.push_str(P[r.usize(P.len())]);
    }
    s
}

// (2) fault injection: scoping faults with spans from the printer
fn check_scope_fault(ctx: &mut Ctx, h: &H, context: &[&str], style: &Style, seed: u64) {
    let printed = print(h, style, seed);
    let src = &printed.text;
    let Err(errs) = resolve(h, context) else { return };
    ctx.eval();
    let res = guard(|| {
        let toks = tokenize(None, src).map_err(|e| e.iter().map(|x| x.message.clone()).collect::<Vec<_>>())?;
        match parse(None, src, &toks[..], context) {
            Ok(_) => Ok(()),
            Err(es) => Err(es.iter().map(|x| x.message.clone()).collect::<Vec<_>>()),
        }
    });
    let msgs = match res {
        Err(p) => {
            viol(ctx, &format!("parse-panic@{}", panic_site(&p)), &p, src);
            return;
        }
        Ok(Ok(())) => return, // C08's business
        Ok(Err(m)) => m,
    };
    // expected spans: occurrences of the unbound name / binder tokens of the re-bound name
    for e in &errs {
        match e {
            ScopeErr::NotInScope(name) => {
                // every occurrence of `name` as a variable is reported; find its spans among Var nodes
                // a parenthesised variable may be reported with or without its parentheses
                let mut spans: Vec<(usize, usize)> = vec![];
                for s in printed.spans.iter().filter(|s| s.kind == "Var" && strip_parens(src, s.start, s.end).2 == *name) {
                    let (mut a, mut b, _) = strip_parens(src, s.start, s.end);
                    loop {
                        spans.push((a, b));
                        let before = src[..a].trim_end();
                        let after = src[b..].trim_start();
                        if before.ends_with('(') && after.starts_with(')') {
                            a = before.len() - 1;
                            b = src.len() - after.len() + 1;
                        } else {
                            break;
                        }
                    }
                }
                let cat = format!("`{name}` not in scope");
                let relevant: Vec<&String> = msgs.iter().filter(|m| m.contains(&format!("`{name}`")) && m.contains("not in scope")).collect();
                if relevant.is_empty() {
                    continue; // C08 reports missing diagnostics
                }
                for m in relevant {
                    let Some(ex) = excerpt_of(m) else {
                        viol(ctx, "diagnostic-without-excerpt", &format!("scoping diagnostic carries no excerpt: {m}"), src);
                        return;
                    };
                    let ok = spans.iter().any(|(a, b)| rlisting(src, *a, *b).as_deref() == Some(ex));
                    if !ok {
                        viol(ctx, "scope-diagnostic-excerpt", &format!("the excerpt of `{cat}` does not mark an occurrence of `{name}`:\n{ex}"), src);
                        return;
                    }
                    ctx.count("fault:unbound-name-marked-exactly");
                    ctx.nontrivial(hash_str(m));
                }
            }
            ScopeErr::AlreadyExists(name) => {
                let cat = format!("`{name}` already exists");
                for m in msgs.iter().filter(|m| m.contains(&format!("`{name}`")) && m.contains("already exists")) {
                    let Some(ex) = excerpt_of(m) else {
                        viol(ctx, "diagnostic-without-excerpt", &format!("scoping diagnostic carries no excerpt: {m}"), src);
                        return;
                    };
                    let ok = printed.binders.iter().any(|(_, a, b)| &src[*a..*b] == name && rlisting(src, *a, *b).as_deref() == Some(ex));
                    if !ok {
                        viol(ctx, "scope-diagnostic-excerpt", &format!("the excerpt of `{cat}` does not mark a binder named `{name}`:\n{ex}"), src);
                        return;
                    }
                    ctx.count("fault:rebound-binder-marked-exactly");
                    ctx.nontrivial(hash_str(m));
                }
            }
        }
    }
}

// span of a node without the parentheses the printer put around it
fn strip_parens(src: &str, mut a: usize, mut b: usize) -> (usize, usize, &str) {
    loop {
        let t = src[a..b].trim();
        let off = src[a..b].find(t).unwrap_or(0);
        a += off;
        b = a + t.len();
        if t.starts_with('(') && t.ends_with(')') && t.len() >= 2 {
            a += 1;
            b -= 1;
        } else {
            return (a, b, &src[a..b]);
        }
    }
}

// (2c) diagnostics of programs with one planted fault (explicit programs, so every binder says
// what it is). Oracles, all on the rendered diagnostic alone:
//  - a type diagnostic's excerpt is the listing of the range of a subexpression - of the source
//    tree as the printer laid it out, or at least of a node of gram's own parse tree (whose
//    ranges are the node-slices section's business, recorded finding included);
//  - "This has type `X`": if the marked subexpression has an evident type (a literal, an
//    arithmetic or comparison node, a type former, a lambda, a variable whose binder is annotated
//    `int`, `bool` or `type`), X must be that type; "This is not a type" must not mark a type
//    former, "when a function was expected" must not mark a lambda;
//  - "The definition of `a` references `b` ...": the excerpt is the right-hand side of a
//    definition named `a`.
// Strip white space and parentheses around a span, but only parentheses that match each other
// (`(f x) (y)` keeps both).
fn strip_matching_parens(src: &str, mut a: usize, mut b: usize) -> (usize, usize) {
    loop {
        let t = src[a..b].trim();
        let off = src[a..b].find(t).unwrap_or(0);
        a += off;
        b = a + t.len();
        if !(t.starts_with('(') && t.ends_with(')') && t.len() >= 2) {
            return (a, b);
        }
        // does the first parenthesis close at the very end?
        let mut depth = 0i64;
        let mut closes_at_end = false;
        for (i, c) in t.char_indices() {
            match c {
                '(' => depth += 1,
                ')' => {
                    depth -= 1;
                    if depth == 0 {
                        closes_at_end = i + 1 == t.len();
                        break;
                    }
                }
                _ => {}
            }
        }
        if !closes_at_end {
            return (a, b);
        }
        a += 1;
        b -= 1;
    }
}

fn paren_variants(src: &str, a: usize, b: usize) -> Vec<(usize, usize)> {
    let (mut a, mut b) = strip_matching_parens(src, a, b);
    let mut v = vec![];
    loop {
        v.push((a, b));
        let before = src[..a].trim_end();
        let after = src[b..].trim_start();
        if before.ends_with('(') && after.starts_with(')') {
            a = before.len() - 1;
            b = src.len() - after.len() + 1;
        } else {
            break;
        }
    }
    v
}

fn all_ranges(t: &Term, out: &mut Vec<(usize, usize)>) {
    if let Some(r) = t.source_range {
        out.push((r.start, r.end));
    }
    match &t.variant {
        Variant::Lambda(_, _, a, b) | Variant::Pi(_, _, a, b) | Variant::Application(a, b) | Variant::Sum(a, b) | Variant::Difference(a, b) | Variant::Product(a, b) | Variant::Quotient(a, b) | Variant::LessThan(a, b) | Variant::LessThanOrEqualTo(a, b) | Variant::EqualTo(a, b) | Variant::GreaterThan(a, b) | Variant::GreaterThanOrEqualTo(a, b) => {
            all_ranges(a, out);
            all_ranges(b, out);
        }
        Variant::Let(defs, body) => {
            for (_, a, d) in defs {
                all_ranges(a, out);
                all_ranges(d, out);
            }
            all_ranges(body, out);
        }
        Variant::Negation(a) => all_ranges(a, out),
        Variant::If(a, b, c) => {
            all_ranges(a, out);
            all_ranges(b, out);
            all_ranges(c, out);
        }
        _ => {}
    }
}

// Evident types by node id (the printer's pre-order numbering), and the right-hand sides of
// definitions by name.
const R_ARG: u8 = 1;
const R_FUN: u8 = 2;
const R_TYPE: u8 = 4;
const R_OPERAND: u8 = 8;
const R_DEF: u8 = 16;
const R_IF: u8 = 32;

// also: the syntactic role of every node (argument or function of an application, type position,
// operand of an operator or condition of a conditional, right-hand side of a definition, a
// conditional itself); parentheses pass their role on to what they enclose
fn evident_types(h: &H) -> (Vec<Option<&'static str>>, Vec<(String, usize)>, Vec<u8>) {
    fn ground(h: &H) -> Option<&'static str> {
        match h.strip() {
            H::Int => Some("int"),
            H::Bool => Some("bool"),
            H::Type => Some("type"),
            _ => None,
        }
    }
    fn go(h: &H, env: &mut Vec<(String, Option<&'static str>)>, out: &mut Vec<Option<&'static str>>, defs: &mut Vec<(String, usize)>, in_chain: bool, roles: &mut Vec<u8>, role: u8) {
        let id = out.len();
        out.push(None);
        roles.push(role | if matches!(h, H::If(..)) { R_IF } else { 0 });
        let ev: Option<&'static str> = match h {
            H::Lit(_) | H::Neg(_) => Some("int"),
            H::Bin(op, ..) => Some(if op.is_arith() { "int" } else { "bool" }),
            H::True | H::False => Some("bool"),
            H::Int | H::Bool | H::Type | H::Pi(..) => Some("type"),
            H::Lam(_, false, ..) => Some("function"),
            // `_` never binds and, as an expression, is a fresh hole
            H::Var(n) if n != "_" => env.iter().rev().find(|(a, _)| a == n).and_then(|(_, t)| *t),
            _ => None,
        };
        match h {
            H::Paren(x) => {
                go(x, env, out, defs, false, roles, role);
                out[id] = out[id + 1];
                return;
            }
            H::Lam(n, _, d, b) => {
                if let Some(d) = d {
                    go(d, env, out, defs, false, roles, R_TYPE);
                }
                env.push((n.clone(), d.as_ref().and_then(|d| ground(d))));
                go(b, env, out, defs, false, roles, 0);
                env.pop();
            }
            H::Pi(n, _, d, b) => {
                go(d, env, out, defs, false, roles, R_TYPE);
                env.push((n.clone(), ground(d)));
                go(b, env, out, defs, false, roles, R_TYPE);
                env.pop();
            }
            H::App(a, b) => {
                go(a, env, out, defs, false, roles, R_FUN);
                go(b, env, out, defs, false, roles, R_ARG);
            }
            H::Bin(_, a, b) => {
                go(a, env, out, defs, false, roles, R_OPERAND);
                go(b, env, out, defs, false, roles, R_OPERAND);
            }
            H::Let(n, a, d, b) => {
                // the whole chain is in scope everywhere in the group
                let mut pushed = 0;
                if !in_chain {
                    let mut cur = h;
                    while let H::Let(nm, an, _, bb) = cur {
                        env.push((nm.clone(), an.as_ref().and_then(|x| ground(x))));
                        pushed += 1;
                        cur = bb;
                    }
                }
                if let Some(a) = a {
                    go(a, env, out, defs, false, roles, R_TYPE);
                }
                defs.push((n.clone(), out.len()));
                go(d, env, out, defs, false, roles, R_DEF);
                go(b, env, out, defs, matches!(**b, H::Let(..)), roles, 0);
                env.truncate(env.len() - pushed);
            }
            H::Neg(a) => go(a, env, out, defs, false, roles, R_OPERAND),
            H::If(a, b, c) => {
                go(a, env, out, defs, false, roles, R_OPERAND);
                go(b, env, out, defs, false, roles, 0);
                go(c, env, out, defs, false, roles, 0);
            }
            _ => {}
        }
        out[id] = ev;
    }
    let (mut out, mut defs, mut roles) = (vec![], vec![], vec![]);
    go(h, &mut vec![], &mut out, &mut defs, false, &mut roles, 0);
    (out, defs, roles)
}

fn check_type_fault(ctx: &mut Ctx, r: &mut Rng, idx: u64) {
    use crate::gen_prog::{Mode, gen_program};
    let p = gen_program(r, Mode::Explicit);
    let Some((m, kind)) = crate::perturb::perturb(&p.h, r) else { return };
    let printed = print(&m, &Style::varied(r), idx);
    let src = &printed.text;
    ctx.eval();
    let res = guard(|| {
        let toks = match tokenize(None, src) {
            Ok(t) => t,
            Err(_) => return (vec![], vec![], false),
        };
        let t = match parse(None, src, &toks[..], &[]) {
            Ok(t) => t,
            Err(es) => return (es.iter().map(|x| x.message.clone()).collect::<Vec<_>>(), vec![], false),
        };
        let mut ranges = vec![];
        all_ranges(&t, &mut ranges);
        let (mut tc, mut dc) = (vec![], vec![]);
        match crate::type_checker::type_check(None, src, &t, &mut tc, &mut dc) {
            Ok(_) => (vec![], ranges, true),
            Err(es) => (es.iter().map(|x| x.message.clone()).collect::<Vec<_>>(), ranges, true),
        }
    });
    let Ok((msgs, gram_ranges, parsed)) = res else { return }; // crashes are C14's business
    if msgs.is_empty() {
        ctx.count("planted-fault:no-diagnostic");
        return;
    }
    let (evident, defs, roles) = evident_types(&m);
    if evident.len() != printed.spans.len() {
        ctx.count("planted-fault:numbering-differs(skipped)");
        return;
    }
    for msg in &msgs {
        let Some(ex) = excerpt_of(msg) else {
            ctx.count("planted-fault:diagnostic-without-excerpt");
            continue;
        };
        let head = msg.lines().next().unwrap_or("");
        if !parsed {
            // definition-order diagnostics name the definition whose right-hand side is shown
            if let Some(rest) = head.split("The definition of `").nth(1) {
                let name = rest.split('`').next().unwrap_or("");
                let ok = defs.iter().filter(|(n, _)| n == name).any(|(_, id)| printed.span_of(*id).is_some_and(|s| paren_variants(src, s.start, s.end).iter().any(|(a, b)| rlisting(src, *a, *b).as_deref() == Some(ex))));
                // the recorded finding about ranges of re-associated chains: the same range minus
                // leading `(` or trailing `)`
                let d15 = !ok
                    && defs.iter().filter(|(n, _)| n == name).any(|(_, id)| {
                        printed.span_of(*id).is_some_and(|s| {
                            let (a0, b0) = strip_matching_parens(src, s.start, s.end);
                            // every way of dropping some leading `(` and some trailing `)`
                            let inner = &src[a0..b0];
                            let mut starts = vec![a0];
                            let mut pos = 0;
                            for (i, c) in inner.char_indices() {
                                if c == '(' {
                                    pos = i + 1;
                                    starts.push(a0 + pos);
                                } else if !c.is_whitespace() {
                                    break;
                                } else if pos == i {
                                    pos = i + c.len_utf8();
                                }
                            }
                            let mut ends = vec![b0];
                            for (i, c) in inner.char_indices().rev() {
                                if c == ')' {
                                    ends.push(a0 + i);
                                } else if !c.is_whitespace() {
                                    break;
                                }
                            }
                            let starts2: Vec<usize> = starts.iter().map(|p| p + (src[*p..b0].len() - src[*p..b0].trim_start().len())).collect();
                            starts2.iter().any(|a| ends.iter().any(|b| a < b && (*a, *b) != (a0, b0) && rlisting(src, *a, *b).as_deref() == Some(ex)))
                        })
                    });
                if ok {
                    ctx.count("definition-order-diagnostic:marks-the-named-definition");
                    ctx.nontrivial(hash_str(msg));
                } else if d15 {
                    viol(ctx, "range:starts-or-ends-inside-parentheses-of-reassociated-chain", &format!("the excerpt of a definition-order diagnostic shows the definition of `{name}` without its leading `(` or trailing `)`:\n{}", clip(msg, 500)), src);
                    return;
                } else {
                    viol(ctx, "definition-order-diagnostic-excerpt", &format!("the excerpt does not show the right-hand side of a definition named `{name}`:\n{}", clip(msg, 700)), src);
                    return;
                }
            }
            continue;
        }
        ctx.nontrivial(hash_str(msg));
        let marked: Vec<usize> = printed.spans.iter().filter(|s| paren_variants(src, s.start, s.end).iter().any(|(a, b)| rlisting(src, *a, *b).as_deref() == Some(ex))).map(|s| s.node).collect();
        if marked.is_empty() {
            if gram_ranges.iter().any(|(a, b)| rlisting(src, *a, *b).as_deref() == Some(ex)) {
                ctx.count("type-diagnostic:marks-a-node-of-gram's-tree-only");
                continue;
            }
            viol(ctx, "type-diagnostic-range-is-no-subexpression", &format!("the excerpt of a type diagnostic ({kind}) is not the listing of any subexpression of the program:\n{}", clip(msg, 700)), src);
            return;
        }
        ctx.count("type-diagnostic:marks-a-subexpression");
        // the role the message gives the marked text must be a role that text plays
        let played: u8 = marked.iter().map(|id| roles.get(*id).copied().unwrap_or(0)).fold(0, |a, b| a | b);
        let needed: u8 = if head.contains("the function was expecting an argument of type") {
            R_ARG
        } else if head.contains("when a function was expected") {
            R_FUN
        } else if head.contains("This is not a type") {
            R_TYPE
        } else if head.contains("but it should have type") {
            R_OPERAND
        } else if head.contains("but it was expected to have type") {
            R_DEF
        } else if head.contains("The two branches of this conditional") {
            R_IF
        } else {
            0
        };
        if needed != 0 && played & needed == 0 {
            viol(ctx, "type-diagnostic-marks-text-in-another-role", &format!("the diagnostic `{}` marks text that is not {}:\n{}", clip(head, 160), match needed {
                R_ARG => "the argument of an application",
                R_FUN => "the function of an application",
                R_TYPE => "in a type position",
                R_OPERAND => "an operand of an operator or the condition of a conditional",
                R_DEF => "the right-hand side of a definition",
                _ => "a conditional",
            }, clip(msg, 700)), src);
            return;
        }
        if needed != 0 {
            ctx.count("type-diagnostic:role-agrees");
        }
        // what the message says about the marked text
        let claimed = head.split("This has type `").nth(1).and_then(|x| x.split('`').next());
        let ev: Vec<&'static str> = marked.iter().filter_map(|id| evident[*id]).collect();
        // several nodes can share a listing (a node and its only child in parentheses): they
        // have the same evident type or none
        let Some(e0) = ev.first().copied() else {
            ctx.count("type-diagnostic:marked-text-has-no-evident-type");
            continue;
        };
        let bad = if let Some(x) = claimed {
            match e0 {
                "function" => !x.contains("->"),
                t => x != t,
            }
        } else if head.contains("This is not a type") {
            e0 == "type"
        } else {
            false
        } || (head.contains("when a function was expected") && e0 == "function");
        if bad {
            viol(ctx, "type-diagnostic-marks-other-text", &format!("the diagnostic says `{}` but the marked text evidently has type {e0}:\n{}", clip(head, 200), clip(msg, 700)), src);
            return;
        }
        ctx.count("type-diagnostic:claim-agrees-with-evident-type");
    }
    ctx.count(&format!("planted-fault:{kind}"));
}

// (2b) stray symbol
fn check_stray_symbol(ctx: &mut Ctx, base: &str, r: &mut Rng) {
    let Ok(toks) = crate::rtok::rtok(base) else { return };
    if toks.is_empty() {
        return;
    }
    let sym = ["$", "€", "@", "\u{1f600}", "~", "¬", "\u{2260}"][r.usize(7)];
    let t = &toks[r.usize(toks.len())];
    let at = if r.chance(1, 2) { t.start } else { t.end };
    let mut src = String::new();
    src.push_str(&base[..at]);
    if r.chance(1, 2) {
        src.push(' ');
    }
    let pos = src.len();
    src.push_str(sym);
    src.push(' ');
    src.push_str(&base[at..]);
    // the insertion must not land inside a comment
    if crate::rtok::lex(&src).unexpected != vec![pos] {
        return;
    }
    ctx.eval();
    match guard(|| tokenize(None, &src).map(|_| ()).map_err(|e| e.iter().map(|x| x.message.clone()).collect::<Vec<_>>())) {
        Err(p) => viol(ctx, &format!("tokenize-panic@{}", panic_site(&p)), &p, &src),
        Ok(Ok(())) => viol(ctx, "stray-symbol-accepted", "tokenize accepted a text with a stray symbol", &src),
        Ok(Err(msgs)) => {
            let want = rlisting(&src, pos, pos + sym.len());
            let ok = msgs.len() == 1 && msgs[0].contains(&format!("`{sym}`")) && excerpt_of(&msgs[0]).map(str::to_owned) == want;
            if !ok {
                viol(ctx, "stray-symbol-excerpt", &format!("expected one diagnostic marking exactly `{sym}` at byte {pos}; got {}", clip(&msgs.join(" | "), 600)), &src);
            } else {
                ctx.count("fault:stray-symbol-marked-exactly");
                ctx.nontrivial(hash_str(&msgs[0]));
            }
        }
    }
}

// (2d) syntax diagnostics: a token deleted from or inserted into a well-formed program. Every
// excerpt that follows a sentence quoting a token (`encountered \`X\``, `before \`X\``, "This
// parenthesis was never closed") must mark exactly that token.
fn marked_text_of_single_line_excerpt(ex: &str) -> Option<String> {
    let lines: Vec<&str> = ex.lines().collect();
    if lines.len() != 2 {
        return None;
    }
    let (l1, l2) = (lines[0], lines[1]);
    let bar = l1.find('\u{2502}')?;
    let text_start_col = l1[..bar].chars().count() + 2;
    let text: Vec<char> = l1.chars().collect();
    let marks: Vec<char> = l2.chars().collect();
    let mut out = String::new();
    for (col, m) in marks.iter().enumerate() {
        if *m == '\u{203e}' {
            if col < text_start_col {
                return None;
            }
            out.push(*text.get(col)?);
        }
    }
    Some(out)
}

fn check_syntax_fault(ctx: &mut Ctx, r: &mut Rng, idx: u64) {
    use crate::gen_prog::{Mode, gen_program};
    let mode = if r.chance(1, 2) { Mode::Explicit } else { Mode::Inferred };
    let p = gen_program(r, mode);
    let base = print(&p.h, &Style::varied(r), idx).text;
    let Ok(toks) = crate::rtok::rtok(&base) else { return };
    if toks.len() < 3 {
        return;
    }
    let t = &toks[r.usize(toks.len())];
    let src = match r.below(3) {
        0 => format!("{}{}", &base[..t.start], &base[t.end..]), // a token deleted
        1 => format!("{} {} {}", &base[..t.start], ["else", "then", ")", "(", ";", "=>", "->", ":", "=", "if", "}", "{"][r.usize(12)], &base[t.start..]),
        _ => format!("{} {} {}", &base[..t.end], [")", "(", "else", "1", "x", "+", "*"][r.usize(7)], &base[t.end..]),
    };
    ctx.eval();
    let res = guard(|| {
        let toks = match tokenize(None, &src) {
            Ok(t) => t,
            Err(_) => return vec![],
        };
        match parse(None, &src, &toks[..], &[]) {
            Ok(_) => vec![],
            Err(es) => es.iter().map(|x| x.message.clone()).collect::<Vec<_>>(),
        }
    });
    let Ok(msgs) = res else { return };
    for msg in &msgs {
        // blocks: sentence, blank, excerpt, blank, sentence, blank, excerpt ...
        let parts: Vec<&str> = msg.split("\n\n").collect();
        let mut i = 0;
        while i + 1 < parts.len() {
            let (sentence, ex) = (parts[i], parts[i + 1]);
            i += 2;
            let quoted = if let Some(x) = sentence.rsplit("encountered `").next().filter(|_| sentence.contains("encountered `")) {
                x.split('`').next()
            } else if let Some(x) = sentence.rsplit("before `").next().filter(|_| sentence.contains("before `")) {
                x.split('`').next()
            } else if sentence.contains("This parenthesis was never closed") {
                Some("(")
            } else {
                None
            };
            let Some(q) = quoted else { continue };
            let Some(marked) = marked_text_of_single_line_excerpt(ex) else {
                ctx.count("syntax-diagnostic:excerpt-not-single-line");
                continue;
            };
            ctx.nontrivial(hash_str(msg));
            if marked == q {
                ctx.count("syntax-diagnostic:marks-the-quoted-token");
            } else {
                viol(ctx, "syntax-diagnostic-marks-another-token", &format!("the sentence `{}` is followed by an excerpt that marks `{marked}`:\n{}", clip(sentence, 200), clip(msg, 700)), &src);
                return;
            }
        }
    }
    if msgs.is_empty() {
        ctx.count("syntax-fault:still-a-sentence");
    }
}

// (3) node ranges re-parse to the same subterm
fn check_node_slices(ctx: &mut Ctx, src: &str, context: &[&str]) {
    let r = guard(|| {
        let toks = tokenize(None, src).ok()?;
        let t = parse(None, src, &toks[..], context).ok()?;
        let mut problems: Vec<(String, String)> = vec![];
        let mut scope: Vec<String> = context.iter().map(|s| (*s).to_owned()).collect();
        let mut checked = 0u64;
        slices(src, &t, &mut scope, &mut problems, &mut checked, true);
        Some((problems, checked))
    });
    match r {
        Err(p) => viol(ctx, &format!("slice-panic@{}", panic_site(&p)), &format!("panic while re-parsing node slices: {p}"), src),
        Ok(None) => ctx.count("slices:source-not-accepted"),
        Ok(Some((problems, checked))) => {
            ctx.evals_n(checked);
            ctx.add("node-slices-reparsed", checked);
            if checked > 0 {
                ctx.nontrivial(hash_str(src));
            }
            if let Some((key, what)) = problems.into_iter().next() {
                viol(ctx, &key, &what, src);
            }
        }
    }
}

fn chain_class(v: &Variant) -> u8 {
    match v {
        Variant::Application(..) => 1,
        Variant::Product(..) | Variant::Quotient(..) => 2,
        Variant::Sum(..) | Variant::Difference(..) => 3,
        _ => 0,
    }
}

// Does the leftmost (resp. rightmost) path of `t` reach, at the same start (resp. end) offset, a
// re-associated chain node (application, * /, + -)? (the D15 predicate of DESIGN.md Appendix B)
fn chain_on_edge(t: &Term, offset: usize, left: bool) -> bool {
    let mut cur = t;
    loop {
        let edge = cur.source_range.map(|r| if left { r.start } else { r.end });
        if edge != Some(offset) {
            return false;
        }
        if chain_class(&cur.variant) != 0 && !std::ptr::eq(cur, t) {
            return true;
        }
        cur = match &cur.variant {
            Variant::Application(a, b)
            | Variant::Sum(a, b)
            | Variant::Difference(a, b)
            | Variant::Product(a, b)
            | Variant::Quotient(a, b)
            | Variant::LessThan(a, b)
            | Variant::LessThanOrEqualTo(a, b)
            | Variant::EqualTo(a, b)
            | Variant::GreaterThan(a, b)
            | Variant::GreaterThanOrEqualTo(a, b) => {
                if left { a } else { b }
            }
            Variant::Pi(_, _, d, c) => {
                if left { d } else { c }
            }
            Variant::Lambda(_, _, _, b) if !left => b,
            Variant::Negation(a) if !left => a,
            Variant::If(_, _, e) if !left => e,
            Variant::Let(_, body) if !left => body,
            _ => return false,
        };
    }
}

fn slices<'a>(src: &'a str, t: &Term<'a>, scope: &mut Vec<String>, problems: &mut Vec<(String, String)>, checked: &mut u64, top: bool) {
    if let Some(rg) = t.source_range {
        let in_bounds = rg.start <= rg.end && rg.end <= src.len() && src.is_char_boundary(rg.start) && src.is_char_boundary(rg.end);
        if !in_bounds {
            problems.push(("range-out-of-bounds".into(), format!("node {} has range {}..{} in a text of {} bytes", clip(&t.to_string(), 80), rg.start, rg.end, src.len())));
            return;
        }
        if !top {
            let slice = &src[rg.start..rg.end];
            // `_` binders are not referable: give them a name no identifier can have
            let ctx_names: Vec<String> = scope.iter().enumerate().map(|(i, n)| if n == "_" { format!("\u{1}{i}") } else { n.clone() }).collect();
            let ctx_refs: Vec<&str> = ctx_names.iter().map(String::as_str).collect();
            *checked += 1;
            let want = canon_holes(&mirror(t));
            let got = tokenize(None, slice).ok().and_then(|toks| parse(None, slice, &toks[..], &ctx_refs).ok().map(|x| canon_holes(&mirror(&x))));
            if got.as_ref() != Some(&want) {
                // DESIGN.md Appendix B: the recorded finding about re-associated chains
                let opens = slice.matches('(').count();
                let closes = slice.matches(')').count();
                let before_is_open = src[..rg.start].trim_end().ends_with('(');
                let after_is_close = src[rg.end..].trim_start().starts_with(')');
                let d15 = (closes > opens && before_is_open && chain_on_edge(t, rg.start, true)) || (opens > closes && after_is_close && chain_on_edge(t, rg.end, false));
                let key = if d15 { D15_KEY.to_owned() } else { "node-range-does-not-reparse".to_owned() };
                problems.push((key, format!("the range {}..{} of node {} is the text {:?}, which {}", rg.start, rg.end, clip(&t.to_string(), 120), clip(slice, 200), match got { None => "does not parse in that scope".to_owned(), Some(g) => format!("parses to {} instead", clip(&g.show(), 200)) })));
            }
        }
    }
    match &t.variant {
        Variant::Lambda(n, _, d, b) | Variant::Pi(n, _, d, b) => {
            slices(src, d, scope, problems, checked, false);
            scope.push((*n).to_owned());
            slices(src, b, scope, problems, checked, false);
            scope.pop();
        }
        Variant::Application(a, b)
        | Variant::Sum(a, b)
        | Variant::Difference(a, b)
        | Variant::Product(a, b)
        | Variant::Quotient(a, b)
        | Variant::LessThan(a, b)
        | Variant::LessThanOrEqualTo(a, b)
        | Variant::EqualTo(a, b)
        | Variant::GreaterThan(a, b)
        | Variant::GreaterThanOrEqualTo(a, b) => {
            slices(src, a, scope, problems, checked, false);
            slices(src, b, scope, problems, checked, false);
        }
        Variant::Let(defs, body) => {
            for (n, _, _) in defs {
                scope.push((*n).to_owned());
            }
            for (_, a, d) in defs {
                slices(src, a, scope, problems, checked, false);
                slices(src, d, scope, problems, checked, false);
            }
            // the body of a flattened group is the innermost body: its own range re-parses alone
            slices(src, body, scope, problems, checked, false);
            for _ in defs {
                scope.pop();
            }
        }
        Variant::Negation(a) => slices(src, a, scope, problems, checked, false),
        Variant::If(a, b, c) => {
            slices(src, a, scope, problems, checked, false);
            slices(src, b, scope, problems, checked, false);
            slices(src, c, scope, problems, checked, false);
        }
        _ => {}
    }
}

impl Prop for C15P {
    fn id(&self) -> &'static str {
        "C15"
    }
    fn plan(&self, tier: Tier, _seed: u64) -> Plan {
        let mut p = Plan::new(
            vec![
                sec("pinned", 200),
                sec("listing-direct", tier.pick(40_000, 800_000)),
                sec("scoping-faults", tier.pick(8_000, 160_000)),
                sec("stray-symbols", tier.pick(8_000, 160_000)),
                sec("node-slices", tier.pick(6_000, 120_000)),
                sec("type-faults", tier.pick(24_000, 240_000)),
                sec("syntax-faults", tier.pick(12_000, 240_000)),
            ],
            "listing() on random texts (0-120 preceding lines, 1-4-byte characters, CRLF, trailing whitespace, comments) with random ranges on character boundaries; unbound names and re-bound binders injected into random programs printed with varied layout, and stray symbols inserted at token boundaries: the excerpt must be the specified listing of exactly the injected text; every node range of parsed programs re-parsed in the scope at that point; diagnostics of explicit programs with one planted fault: each type diagnostic marks a subexpression whose evident type (literals, operators, type formers, lambdas, variables with ground annotations) agrees with what the message says about it, each definition-order diagnostic shows the definition it names; programs with one token deleted or inserted: every excerpt that follows a sentence quoting a token marks exactly that token; non-trivial = distinct (text, range) / diagnostic / program",
        );
        p.assumptions = vec![
            "characters are Unicode scalar values; generated fault lines avoid double-width and zero-width code points".into(),
            "ranges that end inside the leading indentation of a continuation line and empty ranges at the start of a line are outside the specified domain (never produced for tokens)".into(),
        ];
        p.floor_evaluations = 30_000;
        p.floor_nontrivial = 10_000;
        p
    }
    fn run_case(&self, ctx: &mut Ctx, section: &str, idx: u64) {
        match section {
            "pinned" => {
                let mut progs = crate::corpus::witnesses(&ctx.known_witnesses());
                progs.extend(crate::corpus::all());
                if let Some(p) = progs.get(idx as usize) {
                    check_node_slices(ctx, p, &[]);
                    // diagnostics of rejected corpus programs: every excerpt must be the listing of some token-aligned range
                    let mut r = Rng::for_case(ctx.seed, 0, idx);
                    check_stray_symbol(ctx, p, &mut r);
                }
                // hand-written excerpt cases
                let hand: [(&str, usize, usize); 8] = [
                    ("é = 1; é + true", 12, 16),
                    ("x\ny\nz", 2, 3),
                    ("a\n  b +\n  c", 4, 11),
                    ("a  \r\nb", 0, 1),
                    ("\u{1d465}\u{1d465} zz", 9, 11),
                    ("l1\nl2\nl3\nl4\nl5\nl6\nl7\nl8\nl9\nfoo bar", 31, 34),
                    ("(1", 2, 2),
                    ("x = (\n  1 +\n  2\n)", 4, 17),
                ];
                if let Some((s, a, b)) = hand.get(idx as usize) {
                    check_listing(ctx, s, *a, *b);
                }
            }
            "syntax-faults" => {
                let mut r = Rng::for_case(ctx.seed, 6, idx);
                check_syntax_fault(ctx, &mut r, idx);
            }
            "type-faults" => {
                let mut r = Rng::for_case(ctx.seed, 5, idx);
                check_type_fault(ctx, &mut r, idx);
            }
            "listing-direct" => {
                let mut r = Rng::for_case(ctx.seed, 1, idx);
                let s = random_listing_text(&mut r);
                let bounds: Vec<usize> = (0..=s.len()).filter(|i| s.is_char_boundary(*i)).collect();
                for _ in 0..4 {
                    let a = bounds[r.usize(bounds.len())];
                    let b = if r.chance(1, 12) { a } else { bounds[r.usize(bounds.len())] };
                    let (a, b) = if a <= b { (a, b) } else { (b, a) };
                    // token-like ranges start on a non-blank character
                    let a2 = s[a..b].find(|c: char| !c.is_whitespace()).map_or(a, |k| a + k);
                    let b2 = a2 + s[a2..b.max(a2)].trim_end().len();
                    check_listing(ctx, &s, a2, b2.max(a2));
                }
            }
            "scoping-faults" => {
                let mut r = Rng::for_case(ctx.seed, 2, idx);
                let (h, context) = gen_case(&mut r);
                let mut style = Style::varied(&mut r);
                if r.chance(1, 2) {
                    style.break_lines = 30;
                    style.newline_terms = 100;
                }
                let nv = count_vars(&h);
                let nb = count_binders(&h);
                for _ in 0..4 {
                    if nv > 0 && r.chance(1, 2) {
                        let m = rename_nth_var(&h, r.usize(nv), ["qq", "unbound_name", "ñu", "z9"][r.usize(4)]);
                        check_scope_fault(ctx, &m, &context, &style, idx);
                    } else if nb > 0 {
                        let mut names = vec![];
                        walk(&h, &mut |x| {
                            if let H::Lam(n, ..) | H::Pi(n, ..) | H::Let(n, ..) = x {
                                if n != "_" {
                                    names.push(n.clone());
                                }
                            }
                        });
                        names.extend(context.iter().map(|s| (*s).to_owned()));
                        if names.is_empty() {
                            continue;
                        }
                        let m = rename_nth_binder(&h, r.usize(nb), &names[r.usize(names.len())]);
                        check_scope_fault(ctx, &m, &context, &style, idx);
                    }
                }
            }
            "stray-symbols" => {
                let mut r = Rng::for_case(ctx.seed, 3, idx);
                let (h, _) = gen_case(&mut r);
                let mut style = Style::varied(&mut r);
                style.break_lines = [0, 20, 40][r.usize(3)];
                let mut src = String::new();
                let pre = if r.chance(1, 4) { r.usize(110) } else { r.usize(5) };
                for i in 0..pre {
                    src.push_str(&format!("# line {i}\n"));
                }
                src.push_str(&print(&h, &style, idx).text);
                check_stray_symbol(ctx, &src, &mut r);
            }
            "node-slices" => {
                let mut r = Rng::for_case(ctx.seed, 4, idx);
                let (h, context) = gen_case(&mut r);
                let style = Style::varied(&mut r);
                let src = print(&h, &style, idx).text;
                check_node_slices(ctx, &src, &context);
            }
            _ => {}
        }
    }
    fn describe(&self, _tier: Tier, seed: u64, section: &str, idx: u64) -> String {
        let k = match section {
            "scoping-faults" => 2,
            "stray-symbols" => 3,
            "node-slices" => 4,
            _ => return String::new(),
        };
        let mut r = Rng::for_case(seed, k, idx);
        let (h, _) = gen_case(&mut r);
        crate::printer::print_plain(&h)
    }
}
