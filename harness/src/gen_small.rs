// G-small: exhaustive enumeration (by unranking) of all source terms up to a node bound over the
// full term language, well-typed or not: every term former, holes and omitted annotations,
// variables of every binder in scope. Binder names are determined by nesting depth, so sibling
// scopes reuse names and nothing is shadowed.
use crate::eterm::Op;
use crate::hast::{H, hb};
use std::sync::OnceLock;

pub const MAXN: usize = 7;
const MAXS: usize = 8;
const NAMES: [&str; 9] = ["a", "b", "c", "d", "e", "f", "g", "h", "i"];
pub const OPS: [Op; 4] = [Op::Add, Op::Div, Op::Lt, Op::Eq];
const NCONST: u64 = 7; // type int bool true false 1 _

struct Counts {
    t: Vec<Vec<u64>>, // t[n][s]
}

fn counts() -> &'static Counts {
    static C: OnceLock<Counts> = OnceLock::new();
    C.get_or_init(|| {
        let mut t = vec![vec![0u64; MAXS + 2]; MAXN + 1];
        for n in 1..=MAXN {
            for s in 0..=MAXS {
                t[n][s] = count_at(&t, n, s);
            }
        }
        Counts { t }
    })
}

fn pairs(t: &[Vec<u64>], total: usize, s1: usize, s2: usize) -> u64 {
    let mut c = 0u64;
    for a in 1..total {
        c = c.saturating_add(t[a][s1.min(MAXS)].saturating_mul(t[total - a][s2.min(MAXS)]));
    }
    c
}

fn triples(t: &[Vec<u64>], total: usize, s: usize) -> u64 {
    let mut c = 0u64;
    for a in 1..total {
        for b in 1..(total - a) {
            let d = total - a - b;
            if d >= 1 {
                c = c.saturating_add(t[a][s.min(MAXS)].saturating_mul(t[b][s.min(MAXS)]).saturating_mul(t[d][s.min(MAXS)]));
            }
        }
    }
    c
}

// number of alternatives of each former at (n, s), in the fixed order used by unrank
fn former_counts(t: &[Vec<u64>], n: usize, s: usize) -> Vec<u64> {
    let s1 = (s + 1).min(MAXS);
    if n == 1 {
        return vec![NCONST + s as u64];
    }
    let m = n - 1;
    vec![
        0,                                   // 0: atoms (n == 1 only)
        t[m][s],                             // 1: negation
        t[m][s1],                            // 2: unannotated lambda
        t[m][s1],                            // 3: unannotated implicit lambda
        pairs(t, m, s, s + 1),               // 4: annotated lambda
        pairs(t, m, s, s + 1),               // 5: annotated implicit lambda
        pairs(t, m, s, s + 1),               // 6: pi
        pairs(t, m, s, s + 1),               // 7: implicit pi
        pairs(t, m, s, s),                   // 8: arrow
        pairs(t, m, s, s),                   // 9: application
        pairs(t, m, s, s).saturating_mul(OPS.len() as u64), // 10: binary operators
        triples(t, m, s),                    // 11: if
        pairs(t, m, s + 1, s + 1),           // 12: unannotated definition
        triples(t, m, s + 1),                // 13: annotated definition
    ]
}

fn count_at(t: &[Vec<u64>], n: usize, s: usize) -> u64 {
    former_counts(t, n, s).iter().fold(0u64, |a, b| a.saturating_add(*b))
}

pub fn total_upto(n: usize) -> u64 {
    (1..=n).map(|k| counts().t[k][0]).sum()
}

fn unrank_pair(total: usize, s1: usize, s2: usize, mut idx: u64) -> (H, H) {
    let t = &counts().t;
    for a in 1..total {
        let ca = t[a][s1.min(MAXS)];
        let cb = t[total - a][s2.min(MAXS)];
        let block = ca * cb;
        if idx < block {
            return (unrank(a, s1, idx / cb), unrank(total - a, s2, idx % cb));
        }
        idx -= block;
    }
    unreachable!("unrank_pair")
}

fn unrank_triple(total: usize, s: usize, mut idx: u64) -> (H, H, H) {
    let t = &counts().t;
    for a in 1..total {
        for b in 1..(total - a) {
            let d = total - a - b;
            if d < 1 {
                continue;
            }
            let (ca, cb, cd) = (t[a][s.min(MAXS)], t[b][s.min(MAXS)], t[d][s.min(MAXS)]);
            let block = ca * cb * cd;
            if idx < block {
                let x = idx / (cb * cd);
                let r = idx % (cb * cd);
                return (unrank(a, s, x), unrank(b, s, r / cd), unrank(d, s, r % cd));
            }
            idx -= block;
        }
    }
    unreachable!("unrank_triple")
}

// the idx-th term with n nodes under s named binders
pub fn unrank(n: usize, s: usize, mut idx: u64) -> H {
    let s = s.min(MAXS);
    let t = &counts().t;
    if n == 1 {
        return match idx {
            0 => H::Type,
            1 => H::Int,
            2 => H::Bool,
            3 => H::True,
            4 => H::False,
            5 => H::lit(1),
            6 => H::var("_"),
            j => H::var(NAMES[(j - NCONST) as usize]),
        };
    }
    let fc = former_counts(t, n, s);
    let m = n - 1;
    let binder = NAMES[s].to_owned();
    for (f, c) in fc.iter().enumerate() {
        if idx >= *c {
            idx -= *c;
            continue;
        }
        return match f {
            1 => H::Neg(hb(unrank(m, s, idx))),
            2 => H::Lam(binder, false, None, hb(unrank(m, s + 1, idx))),
            3 => H::Lam(binder, true, None, hb(unrank(m, s + 1, idx))),
            4 | 5 => {
                let (d, b) = unrank_pair(m, s, s + 1, idx);
                H::Lam(binder, f == 5, Some(hb(d)), hb(b))
            }
            6 | 7 => {
                let (d, b) = unrank_pair(m, s, s + 1, idx);
                H::Pi(binder, f == 7, hb(d), hb(b))
            }
            8 => {
                let (d, b) = unrank_pair(m, s, s, idx);
                H::Pi("_".into(), false, hb(d), hb(b))
            }
            9 => {
                let (a, b) = unrank_pair(m, s, s, idx);
                H::App(hb(a), hb(b))
            }
            10 => {
                let per = fc[10] / OPS.len() as u64;
                let op = OPS[(idx / per) as usize];
                let (a, b) = unrank_pair(m, s, s, idx % per);
                H::Bin(op, hb(a), hb(b))
            }
            11 => {
                let (a, b, c) = unrank_triple(m, s, idx);
                H::If(hb(a), hb(b), hb(c))
            }
            12 => {
                let (d, b) = unrank_pair(m, s + 1, s + 1, idx);
                H::Let(binder, None, hb(d), hb(b))
            }
            _ => {
                let (a, d, b) = unrank_triple(m, s + 1, idx);
                H::Let(binder, Some(hb(a)), hb(d), hb(b))
            }
        };
    }
    unreachable!("unrank")
}

// the idx-th closed term among all terms of at most `maxn` nodes
pub fn nth(maxn: usize, mut idx: u64) -> H {
    for n in 1..=maxn {
        let c = counts().t[n][0];
        if idx < c {
            return unrank(n, 0, idx);
        }
        idx -= c;
    }
    unreachable!("nth")
}
