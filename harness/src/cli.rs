// Process-boundary monitor: run the real gram binary on a file and capture everything observable.
use std::{
    fs,
    io::Read,
    os::unix::process::ExitStatusExt,
    process::{Command, Stdio},
    time::{Duration, Instant},
};

#[derive(Clone, Debug, PartialEq, Eq)]
pub struct CliOut {
    pub code: Option<i32>,
    pub signal: Option<i32>,
    pub stdout: Vec<u8>,
    pub stderr: Vec<u8>,
    pub timed_out: bool,
}

impl CliOut {
    pub fn out_str(&self) -> String {
        String::from_utf8_lossy(&self.stdout).into_owned()
    }
    pub fn err_str(&self) -> String {
        String::from_utf8_lossy(&self.stderr).into_owned()
    }
    pub fn stack_overflow(&self) -> bool {
        self.signal.is_some() && self.err_str().contains("overflowed its stack")
    }
    pub fn summary(&self) -> String {
        format!(
            "code={:?} signal={:?} timed_out={} stdout={:?} stderr={:?}",
            self.code,
            self.signal,
            self.timed_out,
            crate::util::clip(&self.out_str(), 300),
            crate::util::clip(&self.err_str(), 500)
        )
    }
}

pub fn write_input(dir: &str, name: &str, content: &[u8]) -> String {
    let _ = fs::create_dir_all(dir);
    let p = format!("{dir}/{name}");
    let _ = fs::write(&p, content);
    p
}

// Run `gram <cmd> <path>` with colour off; kill after `timeout`.
pub fn run_gram(bin: &str, cmd: &str, path: &str, timeout: Duration) -> CliOut {
    let mut child = match Command::new(bin)
        .arg(cmd)
        .arg(path)
        .env("NO_COLOR", "1")
        .env_remove("CLICOLOR_FORCE")
        .stdin(Stdio::null())
        .stdout(Stdio::piped())
        .stderr(Stdio::piped())
        .spawn()
    {
        Ok(c) => c,
        Err(e) => {
            return CliOut { code: None, signal: None, stdout: vec![], stderr: format!("spawn failed: {e}").into_bytes(), timed_out: false };
        }
    };
    let mut so = child.stdout.take().unwrap();
    let mut se = child.stderr.take().unwrap();
    let t1 = std::thread::spawn(move || {
        let mut b = vec![];
        let _ = so.read_to_end(&mut b);
        b
    });
    let t2 = std::thread::spawn(move || {
        let mut b = vec![];
        let _ = se.read_to_end(&mut b);
        b
    });
    let t0 = Instant::now();
    let mut timed_out = false;
    let status = loop {
        match child.try_wait() {
            Ok(Some(s)) => break Some(s),
            Ok(None) => {
                if t0.elapsed() > timeout {
                    timed_out = true;
                    let _ = child.kill();
                    break child.wait().ok();
                }
                std::thread::sleep(Duration::from_micros(if t0.elapsed() < Duration::from_millis(20) { 200 } else { 2000 }));
            }
            Err(_) => break None,
        }
    };
    let stdout = t1.join().unwrap_or_default();
    let stderr = t2.join().unwrap_or_default();
    CliOut { code: status.and_then(|s| s.code()), signal: status.and_then(|s| s.signal()), stdout, stderr, timed_out }
}
