// Small self-contained utilities: PRNG, hashing, JSON value with parser/printer.
use std::collections::BTreeMap;
use std::fmt::Write as _;

// ---------------------------------------------------------------------------------------------
// PRNG: SplitMix64 seeding + xoshiro256**

#[derive(Clone)]
pub struct Rng {
    s: [u64; 4],
}

pub fn splitmix(x: &mut u64) -> u64 {
    *x = x.wrapping_add(0x9E37_79B9_7F4A_7C15);
    let mut z = *x;
    z = (z ^ (z >> 30)).wrapping_mul(0xBF58_476D_1CE4_E5B9);
    z = (z ^ (z >> 27)).wrapping_mul(0x94D0_49BB_1331_11EB);
    z ^ (z >> 31)
}

pub fn mix(a: u64, b: u64) -> u64 {
    let mut x = a ^ b.wrapping_mul(0xD6E8_FEB8_6659_FD93).rotate_left(23);
    splitmix(&mut x)
}

impl Rng {
    pub fn new(seed: u64) -> Rng {
        let mut x = seed;
        let s = [splitmix(&mut x), splitmix(&mut x), splitmix(&mut x), splitmix(&mut x)];
        Rng { s }
    }
    // RNG for (seed, section, index): every case is reproducible on its own.
    pub fn for_case(seed: u64, section: u64, index: u64) -> Rng {
        Rng::new(mix(mix(seed, section.wrapping_add(0x51ED)), index))
    }
    pub fn next(&mut self) -> u64 {
        let r = self.s[1].wrapping_mul(5).rotate_left(7).wrapping_mul(9);
        let t = self.s[1] << 17;
        self.s[2] ^= self.s[0];
        self.s[3] ^= self.s[1];
        self.s[1] ^= self.s[2];
        self.s[0] ^= self.s[3];
        self.s[2] ^= t;
        self.s[3] = self.s[3].rotate_left(45);
        r
    }
    pub fn below(&mut self, n: u64) -> u64 {
        if n == 0 { 0 } else { self.next() % n }
    }
    pub fn usize(&mut self, n: usize) -> usize {
        self.below(n as u64) as usize
    }
    pub fn range(&mut self, lo: i64, hi: i64) -> i64 {
        lo + self.below((hi - lo + 1) as u64) as i64
    }
    pub fn chance(&mut self, num: u64, den: u64) -> bool {
        self.below(den) < num
    }
    pub fn pick<'a, T>(&mut self, xs: &'a [T]) -> &'a T {
        &xs[self.usize(xs.len())]
    }
}

// FNV-1a 64 on bytes, then mixed.
pub fn hash_bytes(b: &[u8]) -> u64 {
    let mut h: u64 = 0xcbf2_9ce4_8422_2325;
    for &x in b {
        h ^= u64::from(x);
        h = h.wrapping_mul(0x0000_0100_0000_01B3);
    }
    let mut y = h;
    splitmix(&mut y)
}

pub fn hash_str(s: &str) -> u64 {
    hash_bytes(s.as_bytes())
}

// ---------------------------------------------------------------------------------------------
// JSON

#[derive(Clone, Debug, PartialEq)]
pub enum Json {
    Null,
    Bool(bool),
    Int(i64),
    Num(f64),
    Str(String),
    Arr(Vec<Json>),
    Obj(BTreeMap<String, Json>),
}

impl Json {
    pub fn obj() -> Json {
        Json::Obj(BTreeMap::new())
    }
    pub fn s(x: &str) -> Json {
        Json::Str(x.to_owned())
    }
    pub fn set(mut self, k: &str, v: Json) -> Json {
        if let Json::Obj(m) = &mut self {
            m.insert(k.to_owned(), v);
        }
        self
    }
    pub fn put(&mut self, k: &str, v: Json) {
        if let Json::Obj(m) = self {
            m.insert(k.to_owned(), v);
        }
    }
    pub fn get(&self, k: &str) -> Option<&Json> {
        if let Json::Obj(m) = self { m.get(k) } else { None }
    }
    pub fn as_str(&self) -> Option<&str> {
        if let Json::Str(s) = self { Some(s) } else { None }
    }
    pub fn as_i64(&self) -> Option<i64> {
        match self {
            Json::Int(i) => Some(*i),
            Json::Num(f) => Some(*f as i64),
            _ => None,
        }
    }
    pub fn as_arr(&self) -> Option<&Vec<Json>> {
        if let Json::Arr(a) = self { Some(a) } else { None }
    }
    pub fn str_of(&self, k: &str) -> String {
        self.get(k).and_then(Json::as_str).unwrap_or("").to_owned()
    }
    pub fn i64_of(&self, k: &str) -> i64 {
        self.get(k).and_then(Json::as_i64).unwrap_or(0)
    }

    pub fn dump(&self) -> String {
        let mut s = String::new();
        self.write(&mut s, None, 0);
        s
    }
    pub fn pretty(&self) -> String {
        let mut s = String::new();
        self.write(&mut s, Some(1), 0);
        s
    }
    fn write(&self, out: &mut String, indent: Option<usize>, level: usize) {
        let nl = |out: &mut String, level: usize| {
            if let Some(n) = indent {
                out.push('\n');
                for _ in 0..n * level {
                    out.push(' ');
                }
            }
        };
        match self {
            Json::Null => out.push_str("null"),
            Json::Bool(b) => out.push_str(if *b { "true" } else { "false" }),
            Json::Int(i) => {
                let _ = write!(out, "{i}");
            }
            Json::Num(f) => {
                if f.is_finite() {
                    let _ = write!(out, "{f:.3}");
                } else {
                    out.push_str("null");
                }
            }
            Json::Str(s) => write_json_str(out, s),
            Json::Arr(a) => {
                out.push('[');
                for (i, x) in a.iter().enumerate() {
                    if i > 0 {
                        out.push(',');
                    }
                    nl(out, level + 1);
                    x.write(out, indent, level + 1);
                }
                if !a.is_empty() {
                    nl(out, level);
                }
                out.push(']');
            }
            Json::Obj(m) => {
                out.push('{');
                for (i, (k, v)) in m.iter().enumerate() {
                    if i > 0 {
                        out.push(',');
                    }
                    nl(out, level + 1);
                    write_json_str(out, k);
                    out.push(':');
                    if indent.is_some() {
                        out.push(' ');
                    }
                    v.write(out, indent, level + 1);
                }
                if !m.is_empty() {
                    nl(out, level);
                }
                out.push('}');
            }
        }
    }

    pub fn parse(s: &str) -> Result<Json, String> {
        let b = s.as_bytes();
        let mut p = 0usize;
        let v = parse_value(b, &mut p)?;
        skip_ws(b, &mut p);
        if p != b.len() {
            return Err(format!("trailing data at {p}"));
        }
        Ok(v)
    }
}

fn write_json_str(out: &mut String, s: &str) {
    out.push('"');
    for c in s.chars() {
        match c {
            '"' => out.push_str("\\\""),
            '\\' => out.push_str("\\\\"),
            '\n' => out.push_str("\\n"),
            '\r' => out.push_str("\\r"),
            '\t' => out.push_str("\\t"),
            c if (c as u32) < 0x20 => {
                let _ = write!(out, "\\u{:04x}", c as u32);
            }
            c => out.push(c),
        }
    }
    out.push('"');
}

fn skip_ws(b: &[u8], p: &mut usize) {
    while *p < b.len() && matches!(b[*p], b' ' | b'\n' | b'\r' | b'\t') {
        *p += 1;
    }
}

fn parse_value(b: &[u8], p: &mut usize) -> Result<Json, String> {
    skip_ws(b, p);
    if *p >= b.len() {
        return Err("eof".into());
    }
    match b[*p] {
        b'n' => lit(b, p, "null", Json::Null),
        b't' => lit(b, p, "true", Json::Bool(true)),
        b'f' => lit(b, p, "false", Json::Bool(false)),
        b'"' => Ok(Json::Str(parse_str(b, p)?)),
        b'[' => {
            *p += 1;
            let mut a = vec![];
            skip_ws(b, p);
            if *p < b.len() && b[*p] == b']' {
                *p += 1;
                return Ok(Json::Arr(a));
            }
            loop {
                a.push(parse_value(b, p)?);
                skip_ws(b, p);
                if *p >= b.len() {
                    return Err("eof in array".into());
                }
                match b[*p] {
                    b',' => *p += 1,
                    b']' => {
                        *p += 1;
                        return Ok(Json::Arr(a));
                    }
                    _ => return Err(format!("bad array at {p}", p = *p)),
                }
            }
        }
        b'{' => {
            *p += 1;
            let mut m = BTreeMap::new();
            skip_ws(b, p);
            if *p < b.len() && b[*p] == b'}' {
                *p += 1;
                return Ok(Json::Obj(m));
            }
            loop {
                skip_ws(b, p);
                let k = parse_str(b, p)?;
                skip_ws(b, p);
                if *p >= b.len() || b[*p] != b':' {
                    return Err(format!("expected : at {p}", p = *p));
                }
                *p += 1;
                let v = parse_value(b, p)?;
                m.insert(k, v);
                skip_ws(b, p);
                if *p >= b.len() {
                    return Err("eof in object".into());
                }
                match b[*p] {
                    b',' => *p += 1,
                    b'}' => {
                        *p += 1;
                        return Ok(Json::Obj(m));
                    }
                    _ => return Err(format!("bad object at {p}", p = *p)),
                }
            }
        }
        _ => {
            let st = *p;
            while *p < b.len() && matches!(b[*p], b'-' | b'+' | b'.' | b'e' | b'E' | b'0'..=b'9') {
                *p += 1;
            }
            let t = std::str::from_utf8(&b[st..*p]).map_err(|e| e.to_string())?;
            if let Ok(i) = t.parse::<i64>() {
                Ok(Json::Int(i))
            } else {
                t.parse::<f64>().map(Json::Num).map_err(|e| format!("{e} at {st}"))
            }
        }
    }
}

fn lit(b: &[u8], p: &mut usize, w: &str, v: Json) -> Result<Json, String> {
    if b[*p..].starts_with(w.as_bytes()) {
        *p += w.len();
        Ok(v)
    } else {
        Err(format!("bad literal at {p}", p = *p))
    }
}

fn parse_str(b: &[u8], p: &mut usize) -> Result<String, String> {
    if *p >= b.len() || b[*p] != b'"' {
        return Err(format!("expected string at {p}", p = *p));
    }
    *p += 1;
    let mut out: Vec<u8> = vec![];
    while *p < b.len() {
        match b[*p] {
            b'"' => {
                *p += 1;
                return String::from_utf8(out).map_err(|e| e.to_string());
            }
            b'\\' => {
                *p += 1;
                if *p >= b.len() {
                    break;
                }
                match b[*p] {
                    b'n' => out.push(b'\n'),
                    b'r' => out.push(b'\r'),
                    b't' => out.push(b'\t'),
                    b'b' => out.push(8),
                    b'f' => out.push(12),
                    b'u' => {
                        let h = std::str::from_utf8(&b[*p + 1..*p + 5]).map_err(|e| e.to_string())?;
                        let mut cp = u32::from_str_radix(h, 16).map_err(|e| e.to_string())?;
                        *p += 4;
                        if (0xD800..0xDC00).contains(&cp) && b[*p + 1..].starts_with(b"\\u") {
                            let h2 = std::str::from_utf8(&b[*p + 3..*p + 7]).map_err(|e| e.to_string())?;
                            let lo = u32::from_str_radix(h2, 16).map_err(|e| e.to_string())?;
                            cp = 0x10000 + ((cp - 0xD800) << 10) + (lo - 0xDC00);
                            *p += 6;
                        }
                        let c = char::from_u32(cp).unwrap_or('\u{FFFD}');
                        let mut buf = [0u8; 4];
                        out.extend_from_slice(c.encode_utf8(&mut buf).as_bytes());
                    }
                    c => out.push(c),
                }
                *p += 1;
            }
            c => {
                out.push(c);
                *p += 1;
            }
        }
    }
    Err("eof in string".into())
}

pub fn hex(b: &[u8]) -> String {
    let mut s = String::with_capacity(b.len() * 2);
    for x in b {
        let _ = write!(s, "{x:02x}");
    }
    s
}

pub fn unhex(s: &str) -> Vec<u8> {
    (0..s.len() / 2).map(|i| u8::from_str_radix(&s[2 * i..2 * i + 2], 16).unwrap_or(0)).collect()
}

// Truncate a string for display in evidence/replay files.
pub fn clip(s: &str, n: usize) -> String {
    if s.chars().count() <= n {
        s.to_owned()
    } else {
        let t: String = s.chars().take(n).collect();
        format!("{t}…[{} chars]", s.chars().count())
    }
}
