// G-edit: scope-aware single-point edits of a source program. Unlike G-perturb (which aims at
// the side conditions of the typing rules with fixed wrong constants), an edit uses what is in
// scope at the edited node - another variable, a neighbouring literal, another operator of the
// same class, a definition or binder put between a node and its context - so that many edited
// programs stay well typed, many become ill typed in a way that only the variables' types reveal,
// and the binding depth between a use and its binder changes. The verdict on the edited program
// always comes from R-core, never from the edit kind.
use crate::eterm::Op;
use crate::hast::{H, hb};
use crate::util::Rng;
use num_bigint::BigInt;

pub const KINDS: [&str; 22] = [
    "ground-type-swap",
    "group-insert-definition",
    "group-insert-definition",
    "group-append-and-retarget",
    "name-subterm",
    "name-subterm",
    "variable-for-variable",
    "variable-for-variable",
    "variable-for-atom",
    "variable-for-subterm",
    "literal-nudge",
    "literal-nudge",
    "operator-swap",
    "comparison-mirrored",
    "branch-swap",
    "bool-flip",
    "interpose-definition",
    "interpose-definition",
    "interpose-binder",
    "annotation-through-alias",
    "domain-through-alias",
    "atom-for-variable",
];

#[derive(Clone, Copy, PartialEq, Eq)]
enum Pos {
    LetBody,
    Other,
}

fn count(h: &H) -> usize {
    let mut n = 0;
    crate::props::c08::walk(h, &mut |_| n += 1);
    n
}

fn all_names(h: &H) -> Vec<String> {
    let mut v: Vec<String> = vec![];
    crate::props::c08::walk(h, &mut |x| match x {
        H::Lam(n, ..) | H::Pi(n, ..) | H::Let(n, ..) | H::Var(n) => {
            if !v.contains(n) {
                v.push(n.clone());
            }
        }
        _ => {}
    });
    v
}

// The groups the generator plants inside types (a clamped recursive function `trec…` and a
// constant `tk…`): an edit there makes the checker itself diverge.
fn protected_definitions(h: &H) -> Vec<H> {
    let mut v = vec![];
    crate::props::c08::walk(h, &mut |x| {
        if let H::Let(n, _, d, _) = x {
            if n.starts_with("trec") || n.starts_with("tk") {
                v.push((**d).clone());
            }
        }
    });
    v
}

// Does some definition depend on itself through definitions only (mentions under a function
// binder do not count: that is recursion)? `a = b; b = a` makes the checker unfold for ever.
fn has_definition_cycle(h: &H) -> bool {
    fn mentions(h: &H, out: &mut Vec<String>) {
        match h {
            H::Var(v) => out.push(v.clone()),
            H::Lam(..) | H::Pi(..) => {}
            H::App(a, b) | H::Bin(_, a, b) => {
                mentions(a, out);
                mentions(b, out);
            }
            H::Let(_, _, d, b) => {
                mentions(d, out);
                mentions(b, out);
            }
            H::Neg(a) | H::Paren(a) => mentions(a, out),
            H::If(a, b, c) => {
                mentions(a, out);
                mentions(b, out);
                mentions(c, out);
            }
            _ => {}
        }
    }
    let mut deps: Vec<(String, Vec<String>)> = vec![];
    crate::props::c08::walk(h, &mut |x| {
        if let H::Let(n, _, d, _) = x {
            let mut m = vec![];
            mentions(d, &mut m);
            deps.push((n.clone(), m));
        }
    });
    for (start, _) in &deps {
        let mut seen: Vec<&String> = vec![];
        let mut stack: Vec<&String> = deps.iter().filter(|(n, _)| n == start).flat_map(|(_, m)| m.iter()).collect();
        while let Some(x) = stack.pop() {
            if x == start {
                return true;
            }
            if seen.contains(&x) {
                continue;
            }
            seen.push(x);
            stack.extend(deps.iter().filter(|(n, _)| n == x).flat_map(|(_, m)| m.iter()));
        }
    }
    false
}

struct Ed<'a> {
    r: &'a mut Rng,
    kind: &'static str,
    target: usize,
    k: usize,
    done: bool,
    fresh: String,
    fresh2: String,
    defining: Vec<String>, // names of the definitions whose right-hand side encloses the current node
}

impl Ed<'_> {
    fn pick(&mut self, sc: &[String], not: Option<&str>) -> Option<String> {
        // never the name of an enclosing definition (`ty : type = ty` makes the checker diverge)
        let c: Vec<&String> = sc.iter().filter(|n| n.as_str() != "_" && Some(n.as_str()) != not && !self.defining.contains(n)).collect();
        if c.is_empty() {
            return None;
        }
        // the most recent binders are the likeliest confusions
        let i = if self.r.chance(1, 2) { c.len() - 1 - self.r.usize(c.len().min(3)) } else { self.r.usize(c.len()) };
        Some(c[i].clone())
    }

    fn at(&mut self, x: &H, sc: &[String], pos: Pos) -> Option<H> {
        let coin = self.r.chance(1, 2);
        let pick3 = self.r.below(3);
        match (self.kind, x) {
            ("variable-for-variable", H::Var(v)) if v != "_" => self.pick(sc, Some(v)).map(H::Var),
            ("variable-for-atom", H::Lit(_) | H::True | H::False | H::Int | H::Bool | H::Type) => self.pick(sc, None).map(H::Var),
            ("atom-for-variable", H::Var(v)) if v != "_" => Some(match self.r.below(6) {
                0 => H::Int,
                1 => H::Bool,
                2 => H::Type,
                3 => H::lit(self.r.below(4) as i64),
                4 => H::True,
                _ => H::False,
            }),
            ("variable-for-subterm", H::App(..) | H::Bin(..) | H::If(..) | H::Neg(_) | H::Lam(..) | H::Pi(..)) => self.pick(sc, None).map(H::Var),
            ("literal-nudge", H::Lit(v)) => {
                let one = BigInt::from(1);
                Some(H::Lit(match pick3 {
                    0 => v + &one,
                    1 if *v > BigInt::from(0) => v - &one,
                    _ if *v == BigInt::from(0) => one,
                    _ => BigInt::from(0),
                }))
            }
            ("operator-swap", H::Bin(op, a, b)) => {
                let class: &[Op] = if op.is_arith() { &[Op::Add, Op::Sub, Op::Mul, Op::Div] } else { &[Op::Lt, Op::Le, Op::Eq, Op::Gt, Op::Ge] };
                let others: Vec<Op> = class.iter().copied().filter(|o| o != op).collect();
                Some(H::Bin(others[self.r.usize(others.len())], a.clone(), b.clone()))
            }
            ("comparison-mirrored", H::Bin(op, a, b)) if !op.is_arith() => {
                let m = match op {
                    Op::Lt => Op::Gt,
                    Op::Le => Op::Ge,
                    Op::Gt => Op::Lt,
                    Op::Ge => Op::Le,
                    o => *o,
                };
                Some(H::Bin(m, b.clone(), a.clone()))
            }
            ("branch-swap", H::If(c, a, b)) if a != b => Some(H::If(c.clone(), b.clone(), a.clone())),
            ("ground-type-swap", H::Int) => Some(H::Bool),
            ("ground-type-swap", H::Bool) => Some(H::Int),
            ("bool-flip", H::True) => Some(H::False),
            ("bool-flip", H::False) => Some(H::True),
            ("interpose-definition", _) if pos == Pos::Other && !matches!(x, H::Paren(_)) => {
                let (ann, def) = match self.r.below(6) {
                    0 => (Some(hb(H::Type)), H::Type),
                    1 => (Some(hb(H::Type)), H::Int),
                    2 => (Some(hb(H::Type)), H::Bool),
                    3 => (Some(hb(H::Int)), H::lit(self.r.below(5) as i64)),
                    4 => (Some(hb(H::Pi("_".into(), false, hb(H::Int), hb(H::Int)))), H::Lam(self.fresh2.clone(), false, Some(hb(H::Int)), hb(H::Var(self.fresh2.clone())))),
                    _ => (Some(hb(H::Bool)), if coin { H::True } else { H::False }),
                };
                Some(H::Paren(hb(H::Let(self.fresh.clone(), ann, hb(def), hb(x.clone())))))
            }
            ("name-subterm", H::Lit(_) | H::True | H::False | H::Bin(..) | H::Neg(_)) if pos == Pos::Other => {
                // a local group that names the subterm (its type is evident from its head), alone
                // or followed by a second definition that the body uses as well
                let is_int = match x {
                    H::Lit(_) | H::Neg(_) => true,
                    H::Bin(op, ..) => op.is_arith(),
                    _ => false,
                };
                let ty = if is_int { H::Int } else { H::Bool };
                let v = H::Var(self.fresh.clone());
                let inner = if !coin {
                    v
                } else if is_int {
                    H::Let(self.fresh2.clone(), Some(hb(H::Int)), hb(H::lit(1)), hb(H::Bin(Op::Mul, hb(v), hb(H::Var(self.fresh2.clone())))))
                } else {
                    H::Let(self.fresh2.clone(), Some(hb(H::Bool)), hb(H::False), hb(H::If(hb(v), hb(H::True), hb(H::Var(self.fresh2.clone())))))
                };
                Some(H::Paren(hb(H::Let(self.fresh.clone(), Some(hb(ty)), hb(x.clone()), hb(inner)))))
            }
            ("group-insert-definition", H::Let(..)) => {
                // a new member of the group, in front of this definition (the group grows by one:
                // every index into or across the group moves)
                let (ann, def) = match self.r.below(5) {
                    0 => (H::Type, H::Type),
                    1 => (H::Type, H::Int),
                    2 => (H::Type, H::Bool),
                    3 => (H::Int, H::lit(self.r.below(5) as i64)),
                    _ => (H::Pi("_".into(), false, hb(H::Int), hb(H::Int)), H::Lam(self.fresh2.clone(), false, Some(hb(H::Int)), hb(H::Var(self.fresh2.clone())))),
                };
                Some(H::Let(self.fresh.clone(), Some(hb(ann)), hb(def), hb(x.clone())))
            }
            ("group-append-and-retarget", H::Let(n, a, d, b)) if !matches!(b.strip(), H::Let(..)) => {
                // a new last member; the body either stays or becomes the new member
                let (ann, def) = match a.as_ref().map(|a| a.strip()) {
                    Some(H::Type) => (H::Type, if matches!(d.strip(), H::Int) { H::Bool } else { H::Int }),
                    Some(H::Int) => (H::Int, H::lit(self.r.below(5) as i64)),
                    Some(H::Bool) => (H::Bool, if coin { H::True } else { H::False }),
                    _ => (H::Type, if coin { H::Int } else { H::Bool }),
                };
                let body = if pick3 != 0 { H::Var(self.fresh.clone()) } else { (**b).clone() };
                Some(H::Let(n.clone(), a.clone(), d.clone(), hb(H::Let(self.fresh.clone(), Some(hb(ann)), hb(def), hb(body)))))
            }
            ("interpose-binder", _) if !matches!(x, H::Paren(_)) => {
                let (ty, arg) = match pick3 {
                    0 => (H::Type, if coin { H::Int } else { H::Bool }),
                    1 => (H::Int, H::lit(self.r.below(5) as i64)),
                    _ => (H::Bool, if coin { H::True } else { H::False }),
                };
                Some(H::App(hb(H::Paren(hb(H::Lam(self.fresh.clone(), false, Some(hb(ty)), hb(x.clone()))))), hb(arg)))
            }
            ("annotation-through-alias", H::Let(n, Some(a), d, b)) if n != "_" => {
                // the annotation gets a name in the definition's own group, before or after it
                let alias = |body: H, fresh: &str, a: &H| H::Let(fresh.to_owned(), Some(hb(H::Type)), hb(a.clone()), hb(body));
                let v = Some(hb(H::Var(self.fresh.clone())));
                Some(if coin { alias(H::Let(n.clone(), v, d.clone(), b.clone()), &self.fresh, a) } else { H::Let(n.clone(), v, d.clone(), hb(alias((**b).clone(), &self.fresh, a))) })
            }
            ("domain-through-alias", H::Lam(n, i, Some(dm), b)) if pos == Pos::Other => Some(H::Paren(hb(H::Let(self.fresh.clone(), Some(hb(H::Type)), dm.clone(), hb(H::Lam(n.clone(), *i, Some(hb(H::Var(self.fresh.clone()))), b.clone())))))),
            _ => None,
        }
    }

    fn go(&mut self, h: &H, sc: &mut Vec<String>, pos: Pos) -> H {
        let here = self.k == self.target;
        self.k += 1;
        if here && !self.done {
            if let Some(x) = self.at(h, sc, pos) {
                self.done = true;
                return x;
            }
        }
        match h {
            H::Lam(n, i, d, b) => {
                let d = d.as_ref().map(|d| hb(self.go(d, sc, Pos::Other)));
                sc.push(n.clone());
                let b = self.go(b, sc, Pos::Other);
                sc.pop();
                H::Lam(n.clone(), *i, d, hb(b))
            }
            H::Pi(n, i, d, b) => {
                let d = self.go(d, sc, Pos::Other);
                sc.push(n.clone());
                let b = self.go(b, sc, Pos::Other);
                sc.pop();
                H::Pi(n.clone(), *i, hb(d), hb(b))
            }
            H::App(a, b) => {
                let a = self.go(a, sc, Pos::Other);
                let b = self.go(b, sc, Pos::Other);
                H::App(hb(a), hb(b))
            }
            H::Bin(op, a, b) => {
                let a = self.go(a, sc, Pos::Other);
                let b = self.go(b, sc, Pos::Other);
                H::Bin(*op, hb(a), hb(b))
            }
            H::Let(..) => {
                // the head of a group: every name of the chain is in scope in every annotation,
                // every definition and the body
                let mark = sc.len();
                if pos != Pos::LetBody {
                    let mut cur = h;
                    while let H::Let(n, _, _, b) = cur.strip() {
                        sc.push(n.clone());
                        cur = b;
                    }
                }
                let H::Let(n, a, d, b) = h else { unreachable!() };
                let a = a.as_ref().map(|a| hb(self.go(a, sc, Pos::Other)));
                self.defining.push(n.clone());
                let d = self.go(d, sc, Pos::Other);
                self.defining.pop();
                let b = self.go(b, sc, Pos::LetBody);
                sc.truncate(mark);
                H::Let(n.clone(), a, hb(d), hb(b))
            }
            H::Neg(a) => H::Neg(hb(self.go(a, sc, Pos::Other))),
            // parentheses are transparent for the position (a parenthesised group in body
            // position joins the enclosing group)
            H::Paren(a) => H::Paren(hb(self.go(a, sc, pos))),
            H::If(a, b, c) => {
                let a = self.go(a, sc, Pos::Other);
                let b = self.go(b, sc, Pos::Other);
                let c = self.go(c, sc, Pos::Other);
                H::If(hb(a), hb(b), hb(c))
            }
            other => other.clone(),
        }
    }
}

// One edit at a random node where its kind applies. Returns the edited program and the kind.
pub fn edit(h: &H, r: &mut Rng) -> Option<(H, &'static str)> {
    let n = count(h);
    let names = all_names(h);
    let fresh_of = |base: &str| -> String {
        let mut i = 0;
        loop {
            let c = if i == 0 { base.to_owned() } else { format!("{base}{i}") };
            if !names.contains(&c) {
                return c;
            }
            i += 1;
        }
    };
    let (fresh, fresh2) = (fresh_of("ed"), fresh_of("edz"));
    let protected = protected_definitions(h);
    let cyclic = has_definition_cycle(h);
    // recursively defined type families: gram's conversion check does not terminate once a
    // neutral index of such a family is written in two ways (DESIGN.md 9.3, D17), which is what an
    // interposed binder or definition does
    let mut has_family = false;
    crate::props::c08::walk(h, &mut |x| {
        if let H::Let(n, ..) = x {
            has_family |= n.starts_with("pad");
        }
    });
    if has_family {
        return None;
    }
    for _ in 0..40 {
        let kind = KINDS[r.usize(KINDS.len())];
        let target = r.usize(n);
        let mut ed = Ed { r: &mut *r, kind, target, k: 0, done: false, fresh: fresh.clone(), fresh2: fresh2.clone(), defining: vec![] };
        let out = ed.go(h, &mut vec![], Pos::Other);
        if ed.done && out != *h {
            // the clamped recursive functions planted inside types stay as they are (an edit there
            // makes the checker itself diverge, which tells nothing and costs a watchdog period)
            if !protected.is_empty() && protected_definitions(&out) != protected {
                continue;
            }
            if !cyclic && has_definition_cycle(&out) {
                continue;
            }
            return Some((out, kind));
        }
    }
    None
}

// One edit of the given kind at a node chosen uniformly among those where it applies.
pub fn edit_with_kind(h: &H, r: &mut Rng, kind: &'static str) -> Option<H> {
    let n = count(h);
    let names = all_names(h);
    let fresh_of = |base: &str| -> String {
        let mut i = 0;
        loop {
            let c = if i == 0 { base.to_owned() } else { format!("{base}{i}") };
            if !names.contains(&c) {
                return c;
            }
            i += 1;
        }
    };
    let (fresh, fresh2) = (fresh_of("ed"), fresh_of("edz"));
    let cyclic = has_definition_cycle(h);
    let mut order: Vec<usize> = (0..n).collect();
    for i in (1..n).rev() {
        order.swap(i, r.usize(i + 1));
    }
    for target in order {
        let mut ed = Ed { r: &mut *r, kind, target, k: 0, done: false, fresh: fresh.clone(), fresh2: fresh2.clone(), defining: vec![] };
        let out = ed.go(h, &mut vec![], Pos::Other);
        if ed.done && out != *h && (cyclic || !has_definition_cycle(&out)) {
            return Some(out);
        }
    }
    None
}

// Several edits in sequence (1-3).
pub fn edits(h: &H, r: &mut Rng) -> Option<(H, &'static str)> {
    let (mut cur, kind) = edit(h, r)?;
    let more = r.usize(3);
    for _ in 0..more {
        if let Some((next, _)) = edit(&cur, r) {
            cur = next;
        }
    }
    Some((cur, if more == 0 { kind } else { "several-edits" }))
}
