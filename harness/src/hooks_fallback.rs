// Inert stand-in used only when the tree under GRAM_REPO has no src/verif_hooks.rs.
#[derive(Clone, Copy, Debug, Default, Eq, PartialEq)]
pub struct Counters {
    pub open_unresolved: u64,
    pub shift_unresolved_below_cutoff: u64,
    pub shift_unresolved_refused: u64,
    pub parse_calls: u64,
    pub order_check_calls: u64,
    pub post_parse_calls: u64,
}
pub fn snapshot() -> Counters {
    Counters::default()
}
pub fn reset() {}
pub fn set_parse_calls_cap(_cap: u64) {}
pub fn set_order_check_calls_cap(_cap: u64) {}
pub fn set_post_parse_calls_cap(_cap: u64) {}
