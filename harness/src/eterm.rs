// E: the harness's own mirror of gram's de Bruijn term type (n-ary groups, holes with identity
// and shift), used for exact structural comparison (gram's own equality ignores annotations),
// for constructing inputs, and as the common exchange format of the reference models.
use crate::term::{Term, Variant};
use num_bigint::BigInt;
use std::{
    cell::RefCell,
    collections::HashMap,
    fmt::Write as _,
    rc::Rc,
    sync::Mutex,
};

#[derive(Clone, Copy, Debug, PartialEq, Eq, Hash, PartialOrd, Ord)]
pub enum Op {
    Add,
    Sub,
    Mul,
    Div,
    Lt,
    Le,
    Eq,
    Gt,
    Ge,
}

pub const ALL_OPS: [Op; 9] = [Op::Add, Op::Sub, Op::Mul, Op::Div, Op::Lt, Op::Le, Op::Eq, Op::Gt, Op::Ge];

impl Op {
    pub fn text(self) -> &'static str {
        match self {
            Op::Add => "+",
            Op::Sub => "-",
            Op::Mul => "*",
            Op::Div => "/",
            Op::Lt => "<",
            Op::Le => "<=",
            Op::Eq => "==",
            Op::Gt => ">",
            Op::Ge => ">=",
        }
    }
    pub fn is_arith(self) -> bool {
        matches!(self, Op::Add | Op::Sub | Op::Mul | Op::Div)
    }
}

#[derive(Clone, Debug, PartialEq, Eq, Hash)]
pub enum E {
    // (identity class, shift, content if solved). Identity classes are numbered in first-seen
    // traversal order by `mirror`, so two mirrors are comparable.
    Hole(u32, usize, Option<Box<E>>),
    Type,
    Var(String, usize),
    Lam(String, bool, Box<E>, Box<E>),
    Pi(String, bool, Box<E>, Box<E>),
    App(Box<E>, Box<E>),
    Let(Vec<(String, E, E)>, Box<E>),
    Int,
    Lit(BigInt),
    Neg(Box<E>),
    Bin(Op, Box<E>, Box<E>),
    Bool,
    True,
    False,
    If(Box<E>, Box<E>, Box<E>),
}

pub fn bx(e: E) -> Box<E> {
    Box::new(e)
}

pub struct Mirror {
    ids: HashMap<usize, u32>,
}

impl Mirror {
    pub fn new() -> Mirror {
        Mirror { ids: HashMap::new() }
    }
    // Pre-assign identities to known cells (address of the cell -> id); other cells get ids from
    // `len` upwards, so callers should use ids below the number of pre-assigned cells + 1000.
    pub fn with_ids(known: &[(usize, u32)]) -> Mirror {
        let mut ids = HashMap::new();
        for (addr, id) in known {
            ids.insert(*addr, *id);
        }
        Mirror { ids }
    }
    pub fn hole_id<'a>(&mut self, cell: &Rc<RefCell<Option<Term<'a>>>>) -> u32 {
        let addr = Rc::as_ptr(cell) as *const u8 as usize;
        let n = self.ids.values().copied().max().map_or(0, |m| m + 1);
        *self.ids.entry(addr).or_insert(n)
    }
    pub fn go<'a>(&mut self, t: &Term<'a>) -> E {
        match &t.variant {
            Variant::Unifier(cell, shift) => {
                let id = self.hole_id(cell);
                let content = { cell.borrow().clone() };
                E::Hole(id, *shift, content.map(|c| bx(self.go(&c))))
            }
            Variant::Type => E::Type,
            Variant::Variable(n, i) => E::Var((*n).to_owned(), *i),
            Variant::Lambda(n, im, d, b) => E::Lam((*n).to_owned(), *im, bx(self.go(d)), bx(self.go(b))),
            Variant::Pi(n, im, d, b) => E::Pi((*n).to_owned(), *im, bx(self.go(d)), bx(self.go(b))),
            Variant::Application(f, a) => E::App(bx(self.go(f)), bx(self.go(a))),
            Variant::Let(defs, body) => E::Let(defs.iter().map(|(n, a, d)| ((*n).to_owned(), self.go(a), self.go(d))).collect(), bx(self.go(body))),
            Variant::Integer => E::Int,
            Variant::IntegerLiteral(v) => E::Lit(v.clone()),
            Variant::Negation(a) => E::Neg(bx(self.go(a))),
            Variant::Sum(a, b) => E::Bin(Op::Add, bx(self.go(a)), bx(self.go(b))),
            Variant::Difference(a, b) => E::Bin(Op::Sub, bx(self.go(a)), bx(self.go(b))),
            Variant::Product(a, b) => E::Bin(Op::Mul, bx(self.go(a)), bx(self.go(b))),
            Variant::Quotient(a, b) => E::Bin(Op::Div, bx(self.go(a)), bx(self.go(b))),
            Variant::LessThan(a, b) => E::Bin(Op::Lt, bx(self.go(a)), bx(self.go(b))),
            Variant::LessThanOrEqualTo(a, b) => E::Bin(Op::Le, bx(self.go(a)), bx(self.go(b))),
            Variant::EqualTo(a, b) => E::Bin(Op::Eq, bx(self.go(a)), bx(self.go(b))),
            Variant::GreaterThan(a, b) => E::Bin(Op::Gt, bx(self.go(a)), bx(self.go(b))),
            Variant::GreaterThanOrEqualTo(a, b) => E::Bin(Op::Ge, bx(self.go(a)), bx(self.go(b))),
            Variant::Boolean => E::Bool,
            Variant::True => E::True,
            Variant::False => E::False,
            Variant::If(c, t, e) => E::If(bx(self.go(c)), bx(self.go(t)), bx(self.go(e))),
        }
    }
}

pub fn mirror(t: &Term) -> E {
    Mirror::new().go(t)
}

// ---------------------------------------------------------------------------------------------
// E -> gram term. Names are interned for the life of the process.

static INTERN: Mutex<Option<HashMap<String, &'static str>>> = Mutex::new(None);

pub fn intern(s: &str) -> &'static str {
    let mut g = INTERN.lock().unwrap();
    let m = g.get_or_insert_with(HashMap::new);
    if let Some(x) = m.get(s) {
        return x;
    }
    let leaked: &'static str = Box::leak(s.to_owned().into_boxed_str());
    m.insert(s.to_owned(), leaked);
    leaked
}

pub struct ToGram {
    pub cells: HashMap<u32, Rc<RefCell<Option<Term<'static>>>>>,
}

impl ToGram {
    pub fn new() -> ToGram {
        ToGram { cells: HashMap::new() }
    }
    pub fn go(&mut self, e: &E) -> Term<'static> {
        let rc = |s: &mut ToGram, x: &E| Rc::new(s.go(x));
        let variant = match e {
            E::Hole(id, shift, content) => {
                if !self.cells.contains_key(id) {
                    let c = content.as_ref().map(|c| self.go(c));
                    self.cells.insert(*id, Rc::new(RefCell::new(c)));
                }
                Variant::Unifier(self.cells[id].clone(), *shift)
            }
            E::Type => Variant::Type,
            E::Var(n, i) => Variant::Variable(intern(n), *i),
            E::Lam(n, im, d, b) => Variant::Lambda(intern(n), *im, rc(self, d), rc(self, b)),
            E::Pi(n, im, d, b) => Variant::Pi(intern(n), *im, rc(self, d), rc(self, b)),
            E::App(f, a) => Variant::Application(rc(self, f), rc(self, a)),
            E::Let(defs, body) => Variant::Let(defs.iter().map(|(n, a, d)| (intern(n), rc(self, a), rc(self, d))).collect(), rc(self, body)),
            E::Int => Variant::Integer,
            E::Lit(v) => Variant::IntegerLiteral(v.clone()),
            E::Neg(a) => Variant::Negation(rc(self, a)),
            E::Bin(op, a, b) => {
                let (a, b) = (rc(self, a), rc(self, b));
                match op {
                    Op::Add => Variant::Sum(a, b),
                    Op::Sub => Variant::Difference(a, b),
                    Op::Mul => Variant::Product(a, b),
                    Op::Div => Variant::Quotient(a, b),
                    Op::Lt => Variant::LessThan(a, b),
                    Op::Le => Variant::LessThanOrEqualTo(a, b),
                    Op::Eq => Variant::EqualTo(a, b),
                    Op::Gt => Variant::GreaterThan(a, b),
                    Op::Ge => Variant::GreaterThanOrEqualTo(a, b),
                }
            }
            E::Bool => Variant::Boolean,
            E::True => Variant::True,
            E::False => Variant::False,
            E::If(c, t, f) => Variant::If(rc(self, c), rc(self, t), rc(self, f)),
        };
        Term { source_range: None, variant }
    }
}

pub fn to_gram(e: &E) -> Term<'static> {
    ToGram::new().go(e)
}

// ---------------------------------------------------------------------------------------------
// Utilities on E

impl E {
    pub fn size(&self) -> usize {
        let mut n = 0;
        self.visit(&mut |_| n += 1);
        n
    }
    pub fn visit(&self, f: &mut dyn FnMut(&E)) {
        f(self);
        match self {
            E::Hole(_, _, c) => {
                if let Some(c) = c {
                    c.visit(f);
                }
            }
            E::Lam(_, _, a, b) | E::Pi(_, _, a, b) | E::App(a, b) | E::Bin(_, a, b) => {
                a.visit(f);
                b.visit(f);
            }
            E::Let(defs, body) => {
                for (_, a, d) in defs {
                    a.visit(f);
                    d.visit(f);
                }
                body.visit(f);
            }
            E::Neg(a) => a.visit(f),
            E::If(a, b, c) => {
                a.visit(f);
                b.visit(f);
                c.visit(f);
            }
            _ => {}
        }
    }
    pub fn has_hole(&self) -> bool {
        let mut h = false;
        self.visit(&mut |e| {
            if matches!(e, E::Hole(..)) {
                h = true;
            }
        });
        h
    }
    pub fn has_unsolved_hole(&self) -> bool {
        let mut h = false;
        self.visit(&mut |e| {
            if matches!(e, E::Hole(_, _, None)) {
                h = true;
            }
        });
        h
    }
    pub fn kind(&self) -> &'static str {
        match self {
            E::Hole(..) => "Hole",
            E::Type => "Type",
            E::Var(..) => "Var",
            E::Lam(..) => "Lam",
            E::Pi(..) => "Pi",
            E::App(..) => "App",
            E::Let(..) => "Let",
            E::Int => "Int",
            E::Lit(_) => "Lit",
            E::Neg(_) => "Neg",
            E::Bin(op, _, _) => match op {
                Op::Add => "Sum",
                Op::Sub => "Difference",
                Op::Mul => "Product",
                Op::Div => "Quotient",
                Op::Lt => "LessThan",
                Op::Le => "LessThanOrEqualTo",
                Op::Eq => "EqualTo",
                Op::Gt => "GreaterThan",
                Op::Ge => "GreaterThanOrEqualTo",
            },
            E::Bool => "Bool",
            E::True => "True",
            E::False => "False",
            E::If(..) => "If",
        }
    }
    // S-expression rendering with indices, for witnesses.
    pub fn show(&self) -> String {
        let mut s = String::new();
        self.show_into(&mut s);
        s
    }
    fn show_into(&self, s: &mut String) {
        match self {
            E::Hole(id, sh, None) => {
                let _ = write!(s, "?{id}^{sh}");
            }
            E::Hole(id, sh, Some(c)) => {
                let _ = write!(s, "?{id}^{sh}:=");
                c.show_into(s);
            }
            E::Type => s.push_str("type"),
            E::Var(n, i) => {
                let _ = write!(s, "{n}#{i}");
            }
            E::Lam(n, im, d, b) => {
                let _ = write!(s, "(lam{} {n} ", if *im { "!" } else { "" });
                d.show_into(s);
                s.push(' ');
                b.show_into(s);
                s.push(')');
            }
            E::Pi(n, im, d, b) => {
                let _ = write!(s, "(pi{} {n} ", if *im { "!" } else { "" });
                d.show_into(s);
                s.push(' ');
                b.show_into(s);
                s.push(')');
            }
            E::App(f, a) => {
                s.push_str("(app ");
                f.show_into(s);
                s.push(' ');
                a.show_into(s);
                s.push(')');
            }
            E::Let(defs, body) => {
                s.push_str("(let [");
                for (i, (n, a, d)) in defs.iter().enumerate() {
                    if i > 0 {
                        s.push_str("; ");
                    }
                    let _ = write!(s, "{n} : ");
                    a.show_into(s);
                    s.push_str(" = ");
                    d.show_into(s);
                }
                s.push_str("] ");
                body.show_into(s);
                s.push(')');
            }
            E::Int => s.push_str("int"),
            E::Lit(v) => {
                let _ = write!(s, "{v}");
            }
            E::Neg(a) => {
                s.push_str("(neg ");
                a.show_into(s);
                s.push(')');
            }
            E::Bin(op, a, b) => {
                let _ = write!(s, "({} ", op.text());
                a.show_into(s);
                s.push(' ');
                b.show_into(s);
                s.push(')');
            }
            E::Bool => s.push_str("bool"),
            E::True => s.push_str("true"),
            E::False => s.push_str("false"),
            E::If(c, t, e) => {
                s.push_str("(if ");
                c.show_into(s);
                s.push(' ');
                t.show_into(s);
                s.push(' ');
                e.show_into(s);
                s.push(')');
            }
        }
    }

    // Map over children with a binder-depth offset (0 for same scope, k for under k binders).
    pub fn map_children(&self, f: &mut dyn FnMut(&E, usize) -> E) -> E {
        match self {
            E::Hole(id, sh, c) => E::Hole(*id, *sh, c.clone()),
            E::Type | E::Int | E::Bool | E::True | E::False | E::Lit(_) | E::Var(..) => self.clone(),
            E::Lam(n, im, d, b) => E::Lam(n.clone(), *im, bx(f(d, 0)), bx(f(b, 1))),
            E::Pi(n, im, d, b) => E::Pi(n.clone(), *im, bx(f(d, 0)), bx(f(b, 1))),
            E::App(a, b) => E::App(bx(f(a, 0)), bx(f(b, 0))),
            E::Let(defs, body) => {
                let n = defs.len();
                E::Let(defs.iter().map(|(x, a, d)| (x.clone(), f(a, n), f(d, n))).collect(), bx(f(body, n)))
            }
            E::Neg(a) => E::Neg(bx(f(a, 0))),
            E::Bin(op, a, b) => E::Bin(*op, bx(f(a, 0)), bx(f(b, 0))),
            E::If(c, t, e) => E::If(bx(f(c, 0)), bx(f(t, 0)), bx(f(e, 0))),
        }
    }

    // Replace solved holes by their (shifted) contents, harness-side. Unsolved holes stay.
    pub fn zonk(&self) -> E {
        match self {
            E::Hole(_, sh, Some(c)) => e_shift(&c.zonk(), 0, *sh as i64).unwrap_or_else(|| (**c).clone()),
            other => other.map_children(&mut |c, _| c.zonk()),
        }
    }

    // Forget hole shifts and identities (C16 compares holes by position only).
    pub fn forget_holes(&self) -> E {
        match self {
            E::Hole(_, _, None) => E::Hole(0, 0, None),
            E::Hole(_, _, Some(c)) => E::Hole(0, 0, Some(bx(c.forget_holes()))),
            other => other.map_children(&mut |c, _| c.forget_holes()),
        }
    }

    // Forget binder names that are unobservable (names of variables), keeping structure.
    pub fn forget_names(&self) -> E {
        match self {
            E::Var(_, i) => E::Var(String::new(), *i),
            E::Lam(_, im, d, b) => E::Lam(String::new(), *im, bx(d.forget_names()), bx(b.forget_names())),
            E::Pi(_, im, d, b) => E::Pi(String::new(), *im, bx(d.forget_names()), bx(b.forget_names())),
            E::Let(defs, body) => E::Let(defs.iter().map(|(_, a, d)| (String::new(), a.forget_names(), d.forget_names())).collect(), bx(body.forget_names())),
            E::Hole(id, sh, c) => E::Hole(*id, *sh, c.as_ref().map(|c| bx(c.forget_names()))),
            other => other.map_children(&mut |c, _| c.forget_names()),
        }
    }
}

// Harness-side shift (holes: unsolved holes adjust their shift like gram's signed_shift does;
// solved holes are zonked first by callers that need exactness).
pub fn e_shift(e: &E, cutoff: usize, amount: i64) -> Option<E> {
    Some(match e {
        E::Var(n, i) => {
            if *i >= cutoff {
                let ni = *i as i64 + amount;
                if ni < cutoff as i64 {
                    return None;
                }
                E::Var(n.clone(), ni as usize)
            } else {
                e.clone()
            }
        }
        E::Hole(id, sh, None) => {
            if *sh >= cutoff {
                let ns = *sh as i64 + amount;
                if ns < cutoff as i64 {
                    return None;
                }
                E::Hole(*id, ns as usize, None)
            } else {
                e.clone()
            }
        }
        E::Hole(_, sh, Some(c)) => {
            let inner = e_shift(c, 0, *sh as i64)?;
            return e_shift(&inner, cutoff, amount);
        }
        E::Type | E::Int | E::Bool | E::True | E::False | E::Lit(_) => e.clone(),
        E::Lam(n, im, d, b) => E::Lam(n.clone(), *im, bx(e_shift(d, cutoff, amount)?), bx(e_shift(b, cutoff + 1, amount)?)),
        E::Pi(n, im, d, b) => E::Pi(n.clone(), *im, bx(e_shift(d, cutoff, amount)?), bx(e_shift(b, cutoff + 1, amount)?)),
        E::App(a, b) => E::App(bx(e_shift(a, cutoff, amount)?), bx(e_shift(b, cutoff, amount)?)),
        E::Let(defs, body) => {
            let c = cutoff + defs.len();
            let mut nd = vec![];
            for (x, a, d) in defs {
                nd.push((x.clone(), e_shift(a, c, amount)?, e_shift(d, c, amount)?));
            }
            E::Let(nd, bx(e_shift(body, c, amount)?))
        }
        E::Neg(a) => E::Neg(bx(e_shift(a, cutoff, amount)?)),
        E::Bin(op, a, b) => E::Bin(*op, bx(e_shift(a, cutoff, amount)?), bx(e_shift(b, cutoff, amount)?)),
        E::If(c, t, f) => E::If(bx(e_shift(c, cutoff, amount)?), bx(e_shift(t, cutoff, amount)?), bx(e_shift(f, cutoff, amount)?)),
    })
}

// Does variable `idx` (relative to the root of `e`) occur free in `e`? Solved holes are followed.
pub fn e_mentions(e: &E, idx: usize) -> bool {
    match e {
        E::Var(_, i) => *i == idx,
        E::Hole(_, sh, Some(c)) => idx >= *sh && e_mentions(c, idx - *sh),
        E::Hole(_, _, None) | E::Type | E::Int | E::Bool | E::True | E::False | E::Lit(_) => false,
        E::Lam(_, _, d, b) | E::Pi(_, _, d, b) => e_mentions(d, idx) || e_mentions(b, idx + 1),
        E::App(a, b) | E::Bin(_, a, b) => e_mentions(a, idx) || e_mentions(b, idx),
        E::Let(defs, body) => {
            let n = defs.len();
            defs.iter().any(|(_, a, d)| e_mentions(a, idx + n) || e_mentions(d, idx + n)) || e_mentions(body, idx + n)
        }
        E::Neg(a) => e_mentions(a, idx),
        E::If(c, t, f) => e_mentions(c, idx) || e_mentions(t, idx) || e_mentions(f, idx),
    }
}

impl E {
    // Names of unused function-type parameters are not observable in printed text.
    pub fn norm_unused_pi_names(&self) -> E {
        match self {
            E::Pi(n, im, d, b) => {
                let name = if e_mentions(b, 0) { n.clone() } else { "_".to_owned() };
                E::Pi(name, *im, bx(d.norm_unused_pi_names()), bx(b.norm_unused_pi_names()))
            }
            E::Hole(id, sh, c) => E::Hole(*id, *sh, c.as_ref().map(|c| bx(c.norm_unused_pi_names()))),
            other => other.map_children(&mut |c, _| c.norm_unused_pi_names()),
        }
    }
    pub fn any(&self, f: &mut dyn FnMut(&E) -> bool) -> bool {
        let mut r = false;
        self.visit(&mut |e| {
            if f(e) {
                r = true;
            }
        });
        r
    }
}
