// G-syn: random well-scoped (not necessarily well-typed) source terms over the full syntax, with
// sibling scopes re-using names, groups nested in definitions/annotations/bodies, keyword
// look-alikes and non-ASCII identifiers.
use crate::eterm::{ALL_OPS, Op};
use crate::hast::{H, hb};
use crate::util::Rng;
use num_bigint::BigInt;

pub const NAME_POOL: [&str; 22] = [
    "x", "y", "z", "f", "g", "a", "b", "n", "m", "k", "iff", "int2", "type_", "_x", "é", "λx", "x1", "boolean", "elsewhere", "tru", "thenx", "\u{1d465}",
];

pub struct SynCfg {
    pub max_depth: usize,
    pub holes: bool,       // allow `_` expressions and unannotated binders
    pub placeholder_binders: bool, // allow binders named `_`
    pub parens: bool,      // allow explicit redundant parentheses nodes
    pub big_literals: bool,
}

impl SynCfg {
    pub fn default_for(r: &mut Rng) -> SynCfg {
        SynCfg { max_depth: 2 + r.usize(5), holes: r.chance(1, 2), placeholder_binders: r.chance(1, 3), parens: r.chance(1, 3), big_literals: r.chance(1, 4) }
    }
}

pub struct SynGen<'a> {
    pub r: &'a mut Rng,
    pub cfg: SynCfg,
    pub scope: Vec<String>,
    // names of the enclosing group that the definition being generated may refer to
    allowed_stack: Vec<Vec<String>>,
    pub stats_max_scope: usize,
    pub budget: usize,
}

impl<'a> SynGen<'a> {
    pub fn new(r: &'a mut Rng, cfg: SynCfg) -> SynGen<'a> {
        let budget = if r.chance(1, 10) { 100 + r.usize(200) } else { 8 + r.usize(60) };
        let mut g = SynGen::new0(r, cfg);
        g.budget = budget;
        g
    }

    fn new0(r: &'a mut Rng, cfg: SynCfg) -> SynGen<'a> {
        SynGen { r, cfg, scope: vec![], allowed_stack: vec![], stats_max_scope: 0, budget: 0 }
    }

    fn fresh(&mut self) -> String {
        if self.cfg.placeholder_binders && self.r.chance(1, 8) {
            return "_".to_owned();
        }
        for _ in 0..20 {
            let n = NAME_POOL[self.r.usize(NAME_POOL.len())];
            if !self.scope.iter().any(|s| s == n) && !self.hidden(n) {
                return n.to_owned();
            }
        }
        let mut i = self.scope.len();
        loop {
            let n = format!("v{i}");
            if !self.scope.iter().any(|s| *s == n) {
                return n;
            }
            i += 1;
        }
    }

    // a name that is bound by an enclosing group but not referable from here must still not be
    // re-bound (it is in scope for gram)
    fn hidden(&self, _n: &str) -> bool {
        false
    }

    fn literal(&mut self) -> H {
        if self.cfg.big_literals && self.r.chance(1, 3) {
            let digits = 20 + self.r.usize(60);
            let mut s = String::from("1");
            for _ in 0..digits {
                s.push((b'0' + self.r.below(10) as u8) as char);
            }
            H::Lit(s.parse::<BigInt>().unwrap())
        } else {
            H::Lit(BigInt::from(self.r.below(100)))
        }
    }

    fn visible(&self) -> Vec<String> {
        // every name in scope except group variables the current definition must not mention
        let mut v = vec![];
        for n in &self.scope {
            let blocked = self.allowed_stack.iter().any(|al| al.iter().any(|x| x == &format!("!{n}")));
            if !blocked && n != "_" {
                v.push(n.clone());
            }
        }
        v
    }

    fn atom(&mut self) -> H {
        let vis = self.visible();
        match self.r.below(10) {
            0 => H::Type,
            1 => H::Int,
            2 => H::Bool,
            3 => H::True,
            4 => H::False,
            5 | 6 => self.literal(),
            _ => {
                if !vis.is_empty() && !self.r.chance(1, 6) {
                    H::Var(vis[self.r.usize(vis.len())].clone())
                } else if self.cfg.holes && self.r.chance(1, 2) {
                    H::var("_")
                } else {
                    self.literal()
                }
            }
        }
    }

    pub fn term(&mut self, depth: usize) -> H {
        self.stats_max_scope = self.stats_max_scope.max(self.scope.len());
        if depth >= self.cfg.max_depth || self.budget == 0 {
            return self.atom();
        }
        self.budget -= 1;
        let d = depth + 1;
        let h = match self.r.below(16) {
            0 | 1 => self.atom(),
            2 | 3 => {
                // lambda
                let im = self.r.chance(1, 4);
                let dom = if self.cfg.holes && self.r.chance(1, 3) { None } else { Some(hb(self.term(d + 1))) };
                let n = self.fresh();
                self.scope.push(n.clone());
                let b = self.term(d);
                self.scope.pop();
                H::Lam(n, im, dom, hb(b))
            }
            4 => {
                // pi
                let im = self.r.chance(1, 4);
                let dom = self.term(d + 1);
                let n = if !im && self.r.chance(1, 2) { "_".to_owned() } else { self.fresh() };
                self.scope.push(n.clone());
                let c = self.term(d);
                self.scope.pop();
                H::Pi(n, im, hb(dom), hb(c))
            }
            5 | 6 | 7 => {
                let f = self.term(d);
                let a = self.term(d);
                H::App(hb(f), hb(a))
            }
            8 | 9 => self.group(d),
            10 => H::Neg(hb(self.term(d))),
            11 | 12 | 13 => {
                let op = ALL_OPS[self.r.usize(ALL_OPS.len())];
                let a = self.term(d);
                let b = self.term(d);
                H::Bin(op, hb(a), hb(b))
            }
            14 => {
                let c = self.term(d);
                let t = self.term(d);
                let e = self.term(d);
                H::If(hb(c), hb(t), hb(e))
            }
            _ => {
                if self.cfg.parens {
                    let x = self.term(d);
                    // a parenthesised group is only generated where it cannot end up directly in
                    // the body position of an enclosing group (callers of group() guard that)
                    H::Paren(hb(x))
                } else {
                    self.atom()
                }
            }
        };
        h
    }

    // A definition group of 1-3 definitions followed by a body. Definition-order discipline:
    // lambda definitions may mention any lambda definition of the group; other definitions may
    // mention earlier definitions and any lambda definition; annotations and the body may
    // mention everything.
    pub fn group(&mut self, depth: usize) -> H {
        let n = 1 + self.r.usize(4);
        let mut names = vec![];
        for _ in 0..n {
            let mut nm = self.fresh();
            while names.contains(&nm) && nm != "_" {
                nm = format!("{nm}{}", names.len());
            }
            self.scope.push(nm.clone());
            names.push(nm);
        }
        let is_lambda: Vec<bool> = (0..n).map(|_| self.r.chance(1, 2)).collect();
        let mut defs = vec![];
        for i in 0..n {
            // annotation
            let ann = if self.cfg.holes && self.r.chance(1, 2) {
                None
            } else {
                let a = self.term(depth + 2);
                Some(hb(match a {
                    // the annotation slot is a small_term; anything else is parenthesised by the printer
                    a => a,
                }))
            };
            // blocked names for this definition
            let mut blocked = vec![];
            for j in 0..n {
                let ok = if is_lambda[i] { is_lambda[j] } else { j < i || is_lambda[j] };
                if !ok {
                    blocked.push(format!("!{}", names[j]));
                }
            }
            self.allowed_stack.push(blocked);
            let def = if is_lambda[i] {
                let dom = if self.cfg.holes && self.r.chance(1, 4) { None } else { Some(hb(self.term(depth + 2))) };
                let p = self.fresh();
                self.scope.push(p.clone());
                let b = self.term(depth + 1);
                self.scope.pop();
                H::Lam(p, false, dom, hb(b))
            } else {
                let t = self.term(depth + 1);
                // a bare lambda/type here would be a value, which is fine too
                t
            };
            self.allowed_stack.pop();
            defs.push((names[i].clone(), ann, def));
        }
        // A group in body position (parenthesised or not) joins this group, so its names would be
        // bound while this group's definitions are resolved; the generator keeps groups flat
        // instead (1-4 definitions) and never puts a group directly in body position.
        let mut body = self.term(depth);
        let mut tries = 0;
        while matches!(body.strip(), H::Let(..)) {
            tries += 1;
            body = if tries > 3 { self.atom() } else { self.term(depth) };
        }
        for _ in 0..n {
            self.scope.pop();
        }
        let mut h = body;
        for (nm, ann, def) in defs.into_iter().rev() {
            h = H::Let(nm, ann, hb(def), hb(h));
        }
        h
    }
}

pub fn random_term(r: &mut Rng) -> H {
    let cfg = SynCfg::default_for(r);
    let mut g = SynGen::new(r, cfg);
    g.term(0)
}

pub fn random_term_cfg(r: &mut Rng, cfg: SynCfg) -> H {
    let mut g = SynGen::new(r, cfg);
    g.term(0)
}
