// Fixed corpus: gram's examples, defect witnesses of DESIGN.md section 5, hand-written programs.
use crate::util::Json;

pub const HAND: &[&str] = &[
    "1",
    "type",
    "x = 1; x",
    "x = 1\ny = 2\nx + y",
    "f = (x : int) => x + 1; f 2",
    "factorial : (int -> int) = (x : int) => if x == 0 then 1 else x * factorial (x - 1); factorial 10",
    "id = (a : type) => (x : a) => x; id int 3",
    "id : ((a : type) -> a -> a) = (a : type) => (x : a) => x; id bool true",
    "even : (int -> bool) = (n : int) => if n == 0 then true else odd (n - 1); odd : (int -> bool) = (n : int) => if n == 0 then false else even (n - 1); even 10",
    "compose = (a : type) => (b : type) => (c : type) => (f : b -> c) => (g : a -> b) => (x : a) => f (g x); compose int int int ((x : int) => x * 2) ((x : int) => x + 1) 5",
    "x = y + 1; y = 2; x",
    "z : int = f 1; f : (int -> int) = (x : int) => x; z",
    "y : t = 4; t = u; u = int; y",
    "(y : t = 4; t = u; u = int; y) + 1",
    "x = (y = z + 1; z = 1 + 2; y); x",
    "10 - (5 - 3) - (1)",
    "100 / (10 / 5) / (2)",
    "f = (x : int) => (y : int) => x - y; f (f 5 3) (2)",
    "1 - 2 - 3 + 4 - 5",
    "2 * 3 / 4 * 5",
    "- 1 - - 2",
    "-(1 + 2) * 3",
    "if 1 < 2 then 3 else 4",
    "if true then (if false then 1 else 2) else 3",
    "(x : int) => (y : int) => x + y",
    "{a : type} => (x : a) => x",
    "(a : type) -> a -> a",
    "{a : type} -> a -> a",
    "int -> int -> bool",
    "(int -> int) -> int",
    "x => x",
    "{x} => x",
    "k = (x : int) => (y : _) => x; k 1 true",
    "((f : int -> _) => f 1 + 1) ((x : int) => true)",
    "_",
    "x = _; 2",
    "x : ((y : bool) => int) 5 = 3; x",
    "(5 else 7)",
    "x = 1 #\ny = 2\nx + y",
    "x = 1 # é\ny = 2\nx + y",
    "x = y + z + w; y = 1 + 1; z = 1 + 1; w = 1 + 1; x",
    "{x} => {x} => x",
    "é = 1; é + true",
    "(x : (y = int; y)) => x",
    "(f : {a : int} -> int) => f",
    "f = (x : int) => (y : int) => x; (f 1) 1 2",
    "if (1 + 2) + 3 then 1 else 2",
    "12345678901234567890123456789012345678901234567890 * 98765432109876543210987654321098765432109876543210",
    "-7 / 2",
    "7 / -2",
    "(0 - 7) / (0 - 2)",
    "1 / 0",
    "x = 1 / 0; 2",
    "f = (x : int) => 1 / 0; 2",
    "loop : (int -> int) = (n : int) => loop n; if true then 1 else loop 0",
    "t = int; x : t = 3; x + 1",
    "tf = (a : type) => a -> a; f : (tf int) = (x : int) => x; f 3",
    "n : (if true then int else bool) = 3; n",
    "a = 1\n\nb = a\n  + 2\nb",
    "f = (x : int) =>\n  y = x + 1\n  y * 2\nf 3",
];

pub fn examples() -> Vec<(String, String)> {
    let mut v = vec![];
    let dir = format!("{}/examples", crate::GRAM_REPO);
    if let Ok(rd) = std::fs::read_dir(&dir) {
        let mut names: Vec<_> = rd.filter_map(|e| e.ok()).map(|e| e.path()).filter(|p| p.extension().is_some_and(|x| x == "g")).collect();
        names.sort();
        for p in names {
            if let Ok(s) = std::fs::read_to_string(&p) {
                v.push((p.file_name().unwrap().to_string_lossy().into_owned(), s));
            }
        }
    }
    v
}

// All corpus programs: examples, hand-written, and files under /verif/corpus/*.g.
pub fn all() -> Vec<String> {
    let mut v: Vec<String> = examples().into_iter().map(|x| x.1).collect();
    v.extend(HAND.iter().map(|s| (*s).to_owned()));
    if let Ok(rd) = std::fs::read_dir(format!("{}/corpus", crate::fw::VERIF_DIR)) {
        let mut names: Vec<_> = rd.filter_map(|e| e.ok()).map(|e| e.path()).filter(|p| p.extension().is_some_and(|x| x == "g")).collect();
        names.sort();
        for p in names {
            if let Ok(s) = std::fs::read_to_string(&p) {
                v.push(s);
            }
        }
    }
    v
}

// Witness texts of the known-findings file for a property (open and fixed entries).
pub fn witnesses(known: &[Json]) -> Vec<String> {
    let mut v = vec![];
    for k in known {
        let w = k.str_of("witness");
        if !w.is_empty() {
            v.push(w);
        }
        if let Some(a) = k.get("more_witnesses").and_then(Json::as_arr) {
            for x in a {
                if let Some(s) = x.as_str() {
                    v.push(s.to_owned());
                }
            }
        }
    }
    v
}
