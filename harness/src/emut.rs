// Structural edits on hole-free E terms, used to build pairs (t, t') for the equality monitors.
// Callers filter the result (closed, well-typed for R-core, same type).
use crate::eterm::{E, bx};
use crate::util::Rng;

pub const EDITS: [&str; 9] = ["flip-implicit", "tweak-literal", "flip-boolean", "drop-last-definition", "swap-definitions", "swap-branches", "duplicate-first-definition-value", "swap-operands", "change-operator"];

fn count(e: &E) -> usize {
    e.size()
}

// Apply `f` at the n-th node in pre-order.
fn at(e: &E, target: usize, k: &mut usize, done: &mut bool, f: &mut dyn FnMut(&E) -> Option<E>) -> E {
    let here = *k == target;
    *k += 1;
    if here && !*done {
        if let Some(r) = f(e) {
            *done = true;
            return r;
        }
    }
    match e {
        E::Hole(..) => e.clone(),
        other => other.map_children(&mut |c, _| at(c, target, k, done, f)),
    }
}

pub fn edit(e: &E, r: &mut Rng) -> Option<(E, &'static str)> {
    let n = count(e);
    for _ in 0..30 {
        let target = r.usize(n);
        let kind = EDITS[r.usize(EDITS.len())];
        let delta = 1 + r.below(3) as i64;
        let mut done = false;
        let out = at(e, target, &mut 0, &mut done, &mut |x| match (kind, x) {
            ("flip-implicit", E::Pi(n, im, d, b)) => Some(E::Pi(n.clone(), !*im, d.clone(), b.clone())),
            ("flip-implicit", E::Lam(n, im, d, b)) => Some(E::Lam(n.clone(), !*im, d.clone(), b.clone())),
            ("tweak-literal", E::Lit(v)) => Some(E::Lit(v + delta)),
            ("flip-boolean", E::True) => Some(E::False),
            ("flip-boolean", E::False) => Some(E::True),
            ("drop-last-definition", E::Let(defs, body)) if defs.len() >= 2 => {
                // the body keeps its indices: what pointed at the last definition now points at
                // the one before it (callers discard results that are not closed)
                Some(E::Let(defs[..defs.len() - 1].to_vec(), body.clone()))
            }
            ("swap-definitions", E::Let(defs, body)) if defs.len() >= 2 => {
                let mut d = defs.clone();
                let i = d.len() - 2;
                let (a, b) = (d[i].2.clone(), d[i + 1].2.clone());
                d[i].2 = b;
                d[i + 1].2 = a;
                Some(E::Let(d, body.clone()))
            }
            ("duplicate-first-definition-value", E::Let(defs, body)) if defs.len() >= 2 => {
                let mut d = defs.clone();
                let last = d.len() - 1;
                d[last].2 = d[0].2.clone();
                Some(E::Let(d, body.clone()))
            }
            ("swap-branches", E::If(c, t, f)) => Some(E::If(c.clone(), f.clone(), t.clone())),
            ("swap-operands", E::Bin(op, a, b)) => Some(E::Bin(*op, b.clone(), a.clone())),
            ("change-operator", E::Bin(op, a, b)) => {
                use crate::eterm::Op;
                let pool: &[Op] = if op.is_arith() { &[Op::Add, Op::Sub, Op::Mul] } else { &[Op::Lt, Op::Le, Op::Eq, Op::Gt, Op::Ge] };
                let other = pool[(delta as usize + pool.iter().position(|o| o == op).unwrap_or(0)) % pool.len()];
                if other == *op { None } else { Some(E::Bin(other, a.clone(), b.clone())) }
            }
            _ => None,
        });
        if done && out != *e {
            return Some((out, kind));
        }
    }
    None
}

// Largest free index relative to the root (None if closed). Hole-free terms.
pub fn max_free(e: &E, depth: usize) -> Option<usize> {
    match e {
        E::Var(_, i) => {
            if *i >= depth {
                Some(i - depth)
            } else {
                None
            }
        }
        E::Hole(..) | E::Type | E::Int | E::Bool | E::True | E::False | E::Lit(_) => None,
        E::Lam(_, _, d, b) | E::Pi(_, _, d, b) => max_free(d, depth).max(max_free(b, depth + 1)),
        E::App(a, b) | E::Bin(_, a, b) => max_free(a, depth).max(max_free(b, depth)),
        E::Let(defs, body) => {
            let n = defs.len();
            let mut m = max_free(body, depth + n);
            for (_, a, d) in defs {
                m = m.max(max_free(a, depth + n)).max(max_free(d, depth + n));
            }
            m
        }
        E::Neg(a) => max_free(a, depth),
        E::If(c, t, f) => max_free(c, depth).max(max_free(t, depth)).max(max_free(f, depth)),
    }
}

// Wrap up to `count` hole-free subterms in *solved* holes: `Hole(id, s, Some(c))` with c = the
// subterm lowered by s denotes exactly that subterm (a hole written s binders further out and
// solved since). Every operation must treat the result like the original term. `extra_depth` is
// the number of binders around the root (a context): they may be crossed by the shift as well.
pub fn wrap_solved(e: &E, r: &mut Rng, count: usize, first_id: u32, extra_depth: usize) -> E {
    fn go(e: &E, target: usize, k: &mut usize, depth: usize, done: &mut bool, mk: &mut dyn FnMut(&E, usize) -> Option<E>) -> E {
        let here = *k == target;
        *k += 1;
        if here && !*done {
            if let Some(x) = mk(e, depth) {
                *done = true;
                return x;
            }
        }
        match e {
            E::Hole(..) => e.clone(),
            other => other.map_children(&mut |c, binders| go(c, target, k, depth + binders, done, mk)),
        }
    }
    let mut out = e.clone();
    for i in 0..count {
        let n = out.size();
        let target = r.usize(n);
        let want = r.usize(4);
        let id = first_id + i as u32;
        let mut done = false;
        let next = go(&out, target, &mut 0, extra_depth, &mut done, &mut |sub, depth| {
            if sub.has_hole() {
                return None;
            }
            let mut s = want.min(depth);
            loop {
                if let Some(low) = crate::eterm::e_shift(sub, 0, -(s as i64)) {
                    return Some(E::Hole(id, s, Some(bx(low))));
                }
                if s == 0 {
                    return None;
                }
                s -= 1;
            }
        });
        if done {
            out = next;
        }
    }
    out
}
