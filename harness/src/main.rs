// gv: runtime-monitoring harness for gramlang/gram. gram's own modules are compiled into this
// crate from $GRAM_REPO/src via #[path] (see build.rs), with the `verif` hooks enabled and with
// overflow checks and debug assertions on.
#![allow(dead_code, unused_imports, unused_macros, unused_variables)]
#![allow(clippy::all)]

include!(concat!(env!("OUT_DIR"), "/gram_mods.rs"));

mod cli;
mod coerce;
mod edit;
mod emut;
mod core;
mod corpus;
mod eterm;
mod fw;
mod gen_prog;
mod gen_small;
mod gen_syn;
mod hast;
mod perturb;
mod pipe;
mod printer;
mod props;
mod reval;
mod rgram;
mod rnamed;
mod rtok;
mod typed;
mod util;

use fw::{Prop, Tier};

fn usage() -> ! {
    eprintln!("usage: gv drive <ID> <quick|thorough> | gv worker ... | gv replay <ID> <file> | gv list");
    std::process::exit(2);
}

fn main() {
    let args: Vec<String> = std::env::args().collect();
    if args.len() < 2 {
        usage();
    }
    let seed: u64 = std::env::var("VERIF_SEED").ok().and_then(|s| s.parse().ok()).unwrap_or(1);
    match args[1].as_str() {
        "list" => {
            for p in props::all() {
                println!("{}", p.id());
            }
        }
        "drive" => {
            if args.len() < 4 {
                usage();
            }
            let Some(p) = props::find(&args[2]) else { usage() };
            let Some(tier) = Tier::parse(&args[3]) else { usage() };
            std::process::exit(fw::drive(p, tier, seed));
        }
        "worker" => {
            // worker <prop> <tier> <seed> <shard> <nshards> <start> <run_dir>
            if args.len() < 9 {
                usage();
            }
            let Some(p) = props::find(&args[2]) else { usage() };
            let Some(tier) = Tier::parse(&args[3]) else { usage() };
            let n = |i: usize| args[i].parse::<u64>().unwrap_or(0);
            std::process::exit(fw::worker_main(p, tier, n(4), n(5), n(6), n(7), &args[8]));
        }
        "count-small" => {
            for n in 1..=gen_small::MAXN {
                println!("<= {n} nodes: {}", gen_small::total_upto(n));
            }
            for i in [0u64, 10, 100, 1000, 5000, 20000] {
                println!("{}", printer::print_plain(&gen_small::nth(5, i)));
            }
        }
        "miri" => {
            // miri <c09|c12|c14> <shard> <nshards> <count>: a small in-process workload meant to be
            // run under `cargo +nightly miri run` (undefined behaviour in dependencies, Rc cycles
            // reported as leaks). Violations found by the ordinary monitors are printed as usual.
            let kind = args.get(2).map(String::as_str).unwrap_or("c09");
            let n = |i: usize, d: u64| args.get(i).and_then(|x| x.parse::<u64>().ok()).unwrap_or(d);
            let (shard, nshards, count) = (n(3, 0), n(4, 1).max(1), n(5, 10));
            std::process::exit(props::miri_shard(kind, seed, shard, nshards, count));
        }
        "parse-only" => {
            // parse-only <file>: tokenize + parse one file and exit; run under
            // `valgrind --tool=cachegrind --cache-sim=no` by C17 to obtain an instruction count
            std::process::exit(props::c17::parse_only(args.get(2).map(String::as_str).unwrap_or("")));
        }
        "rcore" => {
            // rcore <file>: the reference checker's verdict on a source file (debugging aid)
            let src = std::fs::read_to_string(args.get(2).map(String::as_str).unwrap_or("")).unwrap_or_default();
            let h = std::thread::Builder::new().stack_size(1 << 30).spawn(move || match props::c07::parse_to_h(&src) {
                Some(h) => match typed::judge_source(&h) {
                    typed::SourceVerdict::WellTyped(nbe, v) => println!("well typed; type head: {}; fuel left {}", nbe.head(&v), nbe.fuel.get()),
                    typed::SourceVerdict::IllTyped(w) => println!("ill typed: {w}"),
                    typed::SourceVerdict::IllScoped(w) => println!("ill scoped: {w}"),
                    typed::SourceVerdict::Unknown => println!("unknown (fuel)"),
                },
                None => println!("not parsed by the reference grammar"),
            });
            let _ = h.map(|h| h.join());
        }
        "show" => {
            // show <prop> <tier> <section> <idx>: print the input of a case without running it
            let Some(p) = props::find(&args[2]) else { usage() };
            let Some(tier) = Tier::parse(&args[3]) else { usage() };
            println!("{}", p.describe(tier, seed, &args[4], args[5].parse().unwrap_or(0)));
        }
        "replay" => {
            if args.len() < 4 {
                usage();
            }
            let Some(p) = props::find(&args[2]) else { usage() };
            std::process::exit(fw::replay(p, &args[3]));
        }
        _ => usage(),
    }
}
