// R-named: capture-avoiding operations on named terms with globally unique binder names, and the
// converters de Bruijn <-> named. Hole-free terms only. No index arithmetic on bound variables:
// a bound occurrence refers to its binder by identity, a free occurrence to a context position.
use crate::eterm::{E, Op, bx};
use num_bigint::BigInt;
use std::collections::BTreeSet;

type Id = u32;

#[derive(Clone, Debug)]
pub enum N {
    Bound(Id, String),
    // free variable: position in the context of the term's root (0 = innermost), with its name
    Free(usize, String),
    Type,
    Int,
    Bool,
    True,
    False,
    Lit(BigInt),
    Lam(Id, String, bool, Box<N>, Box<N>),
    Pi(Id, String, bool, Box<N>, Box<N>),
    App(Box<N>, Box<N>),
    Let(Vec<(Id, String, N, N)>, Box<N>),
    Neg(Box<N>),
    Bin(Op, Box<N>, Box<N>),
    If(Box<N>, Box<N>, Box<N>),
}

pub struct Namer {
    next: Id,
}

impl Namer {
    pub fn new() -> Namer {
        Namer { next: 0 }
    }
    fn fresh(&mut self) -> Id {
        self.next += 1;
        self.next
    }
    // de Bruijn -> named. `env` holds the binder ids from outermost to innermost.
    pub fn to_named(&mut self, e: &E, env: &mut Vec<Id>) -> Option<N> {
        Some(match e {
            E::Hole(..) => return None,
            E::Var(n, i) => {
                if *i < env.len() {
                    N::Bound(env[env.len() - 1 - i], n.clone())
                } else {
                    N::Free(i - env.len(), n.clone())
                }
            }
            E::Type => N::Type,
            E::Int => N::Int,
            E::Bool => N::Bool,
            E::True => N::True,
            E::False => N::False,
            E::Lit(v) => N::Lit(v.clone()),
            E::Lam(n, im, d, b) => {
                let d = self.to_named(d, env)?;
                let id = self.fresh();
                env.push(id);
                let b = self.to_named(b, env);
                env.pop();
                N::Lam(id, n.clone(), *im, Box::new(d), Box::new(b?))
            }
            E::Pi(n, im, d, b) => {
                let d = self.to_named(d, env)?;
                let id = self.fresh();
                env.push(id);
                let b = self.to_named(b, env);
                env.pop();
                N::Pi(id, n.clone(), *im, Box::new(d), Box::new(b?))
            }
            E::App(a, b) => N::App(Box::new(self.to_named(a, env)?), Box::new(self.to_named(b, env)?)),
            E::Let(defs, body) => {
                let ids: Vec<Id> = defs.iter().map(|_| self.fresh()).collect();
                for id in &ids {
                    env.push(*id);
                }
                let mut out = vec![];
                let mut ok = true;
                for ((n, a, d), id) in defs.iter().zip(ids.iter()) {
                    match (self.to_named(a, env), self.to_named(d, env)) {
                        (Some(a), Some(d)) => out.push((*id, n.clone(), a, d)),
                        _ => {
                            ok = false;
                            break;
                        }
                    }
                }
                let body = if ok { self.to_named(body, env) } else { None };
                for _ in &ids {
                    env.pop();
                }
                N::Let(out, Box::new(body?))
            }
            E::Neg(a) => N::Neg(Box::new(self.to_named(a, env)?)),
            E::Bin(op, a, b) => N::Bin(*op, Box::new(self.to_named(a, env)?), Box::new(self.to_named(b, env)?)),
            E::If(c, t, f) => N::If(Box::new(self.to_named(c, env)?), Box::new(self.to_named(t, env)?), Box::new(self.to_named(f, env)?)),
        })
    }
}

// named -> de Bruijn under a context; free variable j becomes index j + depth.
pub fn from_named(n: &N, env: &mut Vec<Id>) -> E {
    match n {
        N::Bound(id, name) => {
            let pos = env.iter().rposition(|x| x == id).expect("bound variable without binder");
            E::Var(name.clone(), env.len() - 1 - pos)
        }
        N::Free(j, name) => E::Var(name.clone(), j + env.len()),
        N::Type => E::Type,
        N::Int => E::Int,
        N::Bool => E::Bool,
        N::True => E::True,
        N::False => E::False,
        N::Lit(v) => E::Lit(v.clone()),
        N::Lam(id, name, im, d, b) => {
            let d = from_named(d, env);
            env.push(*id);
            let b = from_named(b, env);
            env.pop();
            E::Lam(name.clone(), *im, bx(d), bx(b))
        }
        N::Pi(id, name, im, d, b) => {
            let d = from_named(d, env);
            env.push(*id);
            let b = from_named(b, env);
            env.pop();
            E::Pi(name.clone(), *im, bx(d), bx(b))
        }
        N::App(a, b) => E::App(bx(from_named(a, env)), bx(from_named(b, env))),
        N::Let(defs, body) => {
            for (id, _, _, _) in defs {
                env.push(*id);
            }
            let out = defs.iter().map(|(_, name, a, d)| (name.clone(), from_named(a, env), from_named(d, env))).collect();
            let body = from_named(body, env);
            for _ in defs {
                env.pop();
            }
            E::Let(out, bx(body))
        }
        N::Neg(a) => E::Neg(bx(from_named(a, env))),
        N::Bin(op, a, b) => E::Bin(*op, bx(from_named(a, env)), bx(from_named(b, env))),
        N::If(c, t, f) => E::If(bx(from_named(c, env)), bx(from_named(t, env)), bx(from_named(f, env))),
    }
}

// Apply `f` to every free variable (returns None to signal failure).
fn map_free(n: &N, f: &mut dyn FnMut(usize, &str) -> Option<N>) -> Option<N> {
    Some(match n {
        N::Free(j, name) => f(*j, name)?,
        N::Bound(..) | N::Type | N::Int | N::Bool | N::True | N::False | N::Lit(_) => n.clone(),
        N::Lam(id, name, im, d, b) => N::Lam(*id, name.clone(), *im, Box::new(map_free(d, f)?), Box::new(map_free(b, f)?)),
        N::Pi(id, name, im, d, b) => N::Pi(*id, name.clone(), *im, Box::new(map_free(d, f)?), Box::new(map_free(b, f)?)),
        N::App(a, b) => N::App(Box::new(map_free(a, f)?), Box::new(map_free(b, f)?)),
        N::Let(defs, body) => {
            let mut out = vec![];
            for (id, name, a, d) in defs {
                out.push((*id, name.clone(), map_free(a, f)?, map_free(d, f)?));
            }
            N::Let(out, Box::new(map_free(body, f)?))
        }
        N::Neg(a) => N::Neg(Box::new(map_free(a, f)?)),
        N::Bin(op, a, b) => N::Bin(*op, Box::new(map_free(a, f)?), Box::new(map_free(b, f)?)),
        N::If(c, t, e) => N::If(Box::new(map_free(c, f)?), Box::new(map_free(t, f)?), Box::new(map_free(e, f)?)),
    })
}

// Reference for signed_shift(term, cutoff, amount): the term is moved into a context in which the
// entries at positions >= cutoff are `amount` further away (or closer); it fails exactly when a
// free variable would have to refer to a removed entry.
pub fn ref_shift(e: &E, cutoff: usize, amount: i64) -> Option<Option<E>> {
    let mut nm = Namer::new();
    let n = nm.to_named(e, &mut vec![])?;
    let moved = map_free(&n, &mut |j, name| {
        if j < cutoff {
            Some(N::Free(j, name.to_owned()))
        } else {
            let nj = j as i128 + amount as i128;
            if nj < cutoff as i128 || nj > usize::MAX as i128 { None } else { Some(N::Free(nj as usize, name.to_owned())) }
        }
    });
    Some(moved.map(|m| from_named(&m, &mut vec![])))
}

// Reference for open(term, index, insert, shift): substitute `insert` (valid `shift` entries
// further out) for context entry `index` and remove that entry from the context.
pub fn ref_open(e: &E, index: usize, insert: &E, shift: usize) -> Option<E> {
    let mut nm = Namer::new();
    let t = nm.to_named(e, &mut vec![])?;
    let u = nm.to_named(insert, &mut vec![])?;
    // express the inserted term in the result context
    let u_in_result = map_free(&u, &mut |j, name| Some(N::Free(j + shift, name.to_owned())))?;
    let r = map_free(&t, &mut |j, name| {
        Some(if j == index {
            u_in_result.clone()
        } else if j > index {
            N::Free(j - 1, name.to_owned())
        } else {
            N::Free(j, name.to_owned())
        })
    })?;
    Some(from_named(&r, &mut vec![]))
}

// Reference for free_variables(term, cutoff).
pub fn ref_free_variables(e: &E, cutoff: usize) -> Option<BTreeSet<usize>> {
    let mut nm = Namer::new();
    let n = nm.to_named(e, &mut vec![])?;
    let mut s = BTreeSet::new();
    map_free(&n, &mut |j, name| {
        if j >= cutoff {
            s.insert(j - cutoff);
        }
        Some(N::Free(j, name.to_owned()))
    });
    Some(s)
}
