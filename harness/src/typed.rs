// Shared oracles for the typed-pipeline properties (C01-C06, C19): R-core judgements on
// elaborated terms, R-eval runs on source programs, elaboration diff, known-finding attribution.
use crate::core::{C, Checker, Conv, Ctx as TCtx, Env, Fail, Nbe, Quote, V, alpha_eq};
use crate::eterm::E;
use crate::hast::{H, resolve};
use crate::pipe::{Front, Obs, Run, StuckClass};
use crate::reval::{EV, REnv, REval, Stop};
use std::rc::Rc;

pub const D3_KEY: &str = "hole-carried-through-substitution@de_bruijn::{open,signed_shift}";
pub const D4_KEY: &str = "stuck:unresolved-source-hole-is-redex";
pub const D20_KEY: &str = "acceptance-lost:let-wrapped-type-cannot-leave-the-group-of-an-unannotated-definition";
pub const D16_KEY: &str = "acceptance-lost:unresolved-hole-refuses-rescoping@de_bruijn::signed_shift";

pub const NBE_FUEL: u64 = 400_000;

// Does the source program contain holes or omitted annotations? (explicit mode = none)
pub fn has_source_holes(h: &H) -> bool {
    let mut found = false;
    crate::props::c08::walk(h, &mut |x| match x {
        H::Var(n) if n == "_" => found = true,
        H::Lam(_, _, None, _) => found = true,
        H::Let(_, None, _, _) => found = true,
        _ => {}
    });
    found
}

// The recorded finding about holes carried through substitution may be blamed only when the
// program has source holes and the hooks saw an unresolved hole pass through open/signed_shift.
pub fn d3_applicable(h_has_holes: bool, obs: &Obs) -> bool {
    h_has_holes && (obs.hooks.open_unresolved > 0 || obs.hooks.shift_unresolved_below_cutoff > 0)
}

pub struct Judged {
    pub term: Rc<C>,
    pub ty: V,
}

// R-core judgement of a closed E term: scope check + type inference.
pub fn rcore_infer(nbe: &Nbe, e: &E) -> Result<Judged, Fail> {
    let mut conv = Conv::new();
    let c = conv.go(e, &mut vec![])?;
    let chk = Checker::new(nbe);
    let ty = chk.infer(&c, &TCtx::empty())?;
    Ok(Judged { term: c, ty })
}

pub fn rcore_eval_closed(nbe: &Nbe, e: &E) -> Result<V, Fail> {
    let mut conv = Conv::new();
    let c = conv.go(e, &mut vec![])?;
    nbe.eval(&c, &Env::empty())
}

pub fn rules_of(nbe: &Nbe, e: &E) -> Vec<&'static str> {
    let mut conv = Conv::new();
    let Ok(c) = conv.go(e, &mut vec![]) else { return vec![] };
    let chk = Checker::new(nbe);
    let _ = chk.infer(&c, &TCtx::empty());
    let mut r = chk.rules.borrow().clone();
    r.sort_unstable();
    r.dedup();
    r
}

// Equality of normal forms (read back and compared up to alpha, lambda domains ignored).
pub fn normal_forms_equal(nbe: &Nbe, a: &V, b: &V) -> Result<bool, Fail> {
    let mut q = Quote::new(nbe);
    let qa = q.quote(a)?;
    let qb = q.quote(b)?;
    Ok(alpha_eq(&qa, &qb, &mut vec![]))
}

// ---------------------------------------------------------------------------------------------
// C03: the elaborated term is well scoped, well typed, and has the reported type.

pub enum C03Verdict {
    Held,
    Inconclusive(&'static str),
    Violated(&'static str, String),
}

pub fn judge_elaborated(elab: &E, ty: &E) -> C03Verdict {
    let nbe = Nbe::new(NBE_FUEL);
    let j = match rcore_infer(&nbe, elab) {
        Ok(j) => j,
        Err(Fail::Fuel) => return C03Verdict::Inconclusive("reference-fuel"),
        Err(Fail::IllScoped(m)) => return C03Verdict::Violated("elaborated-term-ill-scoped", m),
        Err(Fail::IllTyped(m)) => return C03Verdict::Violated("elaborated-term-ill-typed", m),
    };
    // the reported type must itself be a type and equal the inferred one
    let tv = match rcore_infer(&nbe, ty) {
        Ok(tj) => {
            match nbe.conv(&tj.ty, &V::Type) {
                Ok(true) => {}
                Ok(false) => return C03Verdict::Violated("reported-type-is-not-a-type", format!("the reported type has a type with head `{}`", nbe.head(&tj.ty))),
                Err(_) => return C03Verdict::Inconclusive("reference-fuel"),
            }
            match nbe.eval(&tj.term, &Env::empty()) {
                Ok(v) => v,
                Err(_) => return C03Verdict::Inconclusive("reference-fuel"),
            }
        }
        Err(Fail::Fuel) => return C03Verdict::Inconclusive("reference-fuel"),
        Err(Fail::IllScoped(m)) => return C03Verdict::Violated("reported-type-ill-scoped", m),
        Err(Fail::IllTyped(m)) => return C03Verdict::Violated("reported-type-ill-typed", m),
    };
    match nbe.conv(&j.ty, &tv) {
        Ok(true) => C03Verdict::Held,
        Ok(false) => C03Verdict::Violated("reported-type-differs", format!("the reference infers a type with head `{}`, gram reports one with head `{}`", nbe.head(&j.ty), nbe.head(&tv))),
        Err(_) => C03Verdict::Inconclusive("reference-fuel"),
    }
}

// R-core verdict on a *source* program (explicit mode: no inference involved).
pub enum SourceVerdict {
    WellTyped(Nbe, V),
    IllTyped(String),
    IllScoped(String),
    Unknown,
}

pub fn judge_source(h: &H) -> SourceVerdict {
    let e = match resolve(h, &[]) {
        Ok(e) => e,
        Err(errs) => return SourceVerdict::IllScoped(format!("{errs:?}")),
    };
    let nbe = Nbe::new(NBE_FUEL);
    match rcore_infer(&nbe, &e) {
        Ok(j) => {
            let ty = j.ty.clone();
            SourceVerdict::WellTyped(nbe, ty)
        }
        Err(Fail::Fuel) => SourceVerdict::Unknown,
        Err(Fail::IllTyped(m)) => SourceVerdict::IllTyped(m),
        Err(Fail::IllScoped(m)) => SourceVerdict::IllScoped(m),
    }
}

// ---------------------------------------------------------------------------------------------
// C05 (b): elaboration only fills holes. `parsed` and `elab` come from the same Mirror after
// checking; a hole of the source is the only wildcard.

pub fn elaboration_diff(parsed: &E, elab: &E) -> Option<String> {
    fn go(p: &E, e: &E, path: &mut Vec<&'static str>) -> Option<String> {
        let bad = |path: &Vec<&'static str>, what: String| Some(format!("at {}: {what}", if path.is_empty() { "root".to_owned() } else { path.join(".") }));
        if let E::Hole(..) = p {
            return None; // a hole or omitted annotation of the source: anything may stand here
        }
        // the elaborated side may wrap nothing: follow solved holes only where the source had one
        match (p, e) {
            (E::Type, E::Type) | (E::Int, E::Int) | (E::Bool, E::Bool) | (E::True, E::True) | (E::False, E::False) => None,
            (E::Lit(a), E::Lit(b)) => {
                if a == b { None } else { bad(path, format!("literal {a} became {b}")) }
            }
            (E::Var(n1, i1), E::Var(n2, i2)) => {
                if n1 == n2 && i1 == i2 { None } else { bad(path, format!("variable {n1}#{i1} became {n2}#{i2}")) }
            }
            (E::Lam(n1, im1, d1, b1), E::Lam(n2, im2, d2, b2)) | (E::Pi(n1, im1, d1, b1), E::Pi(n2, im2, d2, b2)) => {
                if n1 != n2 || im1 != im2 || std::mem::discriminant(p) != std::mem::discriminant(e) {
                    return bad(path, format!("binder {n1} (implicit {im1}) became {n2} (implicit {im2})"));
                }
                path.push("domain");
                let r = go(d1, d2, path);
                path.pop();
                if r.is_some() {
                    return r;
                }
                path.push("body");
                let r = go(b1, b2, path);
                path.pop();
                r
            }
            (E::App(f1, a1), E::App(f2, a2)) => {
                path.push("applicand");
                let r = go(f1, f2, path);
                path.pop();
                if r.is_some() {
                    return r;
                }
                path.push("argument");
                let r = go(a1, a2, path);
                path.pop();
                r
            }
            (E::Let(d1, b1), E::Let(d2, b2)) => {
                if d1.len() != d2.len() {
                    return bad(path, format!("a group of {} definitions became one of {}", d1.len(), d2.len()));
                }
                for ((n1, a1, x1), (n2, a2, x2)) in d1.iter().zip(d2.iter()) {
                    if n1 != n2 {
                        return bad(path, format!("definition {n1} became {n2}"));
                    }
                    path.push("annotation");
                    let r = go(a1, a2, path);
                    path.pop();
                    if r.is_some() {
                        return r;
                    }
                    path.push("definition");
                    let r = go(x1, x2, path);
                    path.pop();
                    if r.is_some() {
                        return r;
                    }
                }
                path.push("body");
                let r = go(b1, b2, path);
                path.pop();
                r
            }
            (E::Neg(a), E::Neg(b)) => {
                path.push("operand");
                let r = go(a, b, path);
                path.pop();
                r
            }
            (E::Bin(o1, a1, b1), E::Bin(o2, a2, b2)) => {
                if o1 != o2 {
                    return bad(path, format!("operator {} became {}", o1.text(), o2.text()));
                }
                path.push("left");
                let r = go(a1, a2, path);
                path.pop();
                if r.is_some() {
                    return r;
                }
                path.push("right");
                let r = go(b1, b2, path);
                path.pop();
                r
            }
            (E::If(c1, t1, e1), E::If(c2, t2, e2)) => {
                path.push("condition");
                let r = go(c1, c2, path);
                path.pop();
                if r.is_some() {
                    return r;
                }
                path.push("then");
                let r = go(t1, t2, path);
                path.pop();
                if r.is_some() {
                    return r;
                }
                path.push("else");
                let r = go(e1, e2, path);
                path.pop();
                r
            }
            _ => bad(path, format!("{} became {}", p.kind(), e.kind())),
        }
    }
    go(parsed, elab, &mut vec![])
}

// ---------------------------------------------------------------------------------------------
// R-eval on a source program.

pub struct RefRun {
    pub outcome: Result<EV, Stop>,
    pub reductions: u64,
    pub depth: usize,
}

pub fn ref_run(h: &H, fuel: u64) -> Option<RefRun> {
    let e = resolve(h, &[]).ok()?;
    ref_run_e(&e, fuel)
}

pub fn ref_run_e(e: &E, fuel: u64) -> Option<RefRun> {
    let mut conv = Conv::new();
    let c = conv.go(e, &mut vec![]).ok()?;
    let mut ev = REval::new(fuel);
    let outcome = ev.eval(&c, &REnv::empty(), 0);
    Some(RefRun { outcome, reductions: ev.reductions, depth: ev.deepest })
}

// Compare a reference value with gram's value term.
pub enum ValueCmp {
    Equal,
    Different(String),
    NotComparedFunction,
}

pub fn compare_values(rv: &EV, gv: &E) -> ValueCmp {
    let g = gv.zonk();
    let diff = |what: &str| ValueCmp::Different(format!("the semantics gives {what}, gram produced {}", crate::util::clip(&g.show(), 200)));
    match (rv, &g) {
        (EV::Lit(a), E::Lit(b)) => {
            if a == b { ValueCmp::Equal } else { diff(&a.to_string()) }
        }
        (EV::Lit(a), _) => diff(&a.to_string()),
        (EV::True, E::True) | (EV::False, E::False) | (EV::Type, E::Type) | (EV::Int, E::Int) | (EV::Bool, E::Bool) => ValueCmp::Equal,
        (EV::True, _) => diff("true"),
        (EV::False, _) => diff("false"),
        (EV::Type, _) => diff("type"),
        (EV::Int, _) => diff("int"),
        (EV::Bool, _) => diff("bool"),
        (EV::Lam(im, ..), E::Lam(_, im2, ..)) => {
            if im == im2 { ValueCmp::NotComparedFunction } else { diff("a function with the other implicit flag") }
        }
        (EV::Lam(..), _) => diff("a function"),
        (EV::Pi(im), E::Pi(_, im2, ..)) => {
            if im == im2 { ValueCmp::NotComparedFunction } else { diff("a function type with the other implicit flag") }
        }
        (EV::Pi(_), _) => diff("a function type"),
        (EV::Hole, _) => ValueCmp::NotComparedFunction,
    }
}

pub fn front_name(f: &Front) -> &'static str {
    match f {
        Front::TokenizeErr(_) => "tokenize-rejected",
        Front::ParseErr(_) => "parse-rejected",
        Front::TypeErr(_) => "type-check-rejected",
        Front::Accepted => "accepted",
        Front::Panic(..) => "panic",
    }
}

pub fn stuck_name(c: &StuckClass) -> &'static str {
    match c {
        StuckClass::DivByZero => "division-by-zero",
        StuckClass::Variable(_) => "variable",
        StuckClass::ApplyNonFunction => "apply-non-function",
        StuckClass::WrongOperand => "wrong-operand-kind",
        StuckClass::IfNonBool => "if-on-non-bool",
        StuckClass::SourceHole => "source-hole",
        StuckClass::CopiedHole => "copied-hole",
        StuckClass::Other => "other",
    }
}

pub fn run_name(r: &Run) -> &'static str {
    match r {
        Run::NotRun => "not-run",
        Run::Value { .. } => "value",
        Run::StillRunning { .. } => "still-running",
        Run::Stuck { class, .. } => stuck_name(class),
        Run::Panic(_) => "panic",
    }
}
