// Printer H -> source text following grammar.y's precedence levels, with optional redundant
// parentheses and line layout, returning the byte span of every node (pre-order numbering).
use crate::eterm::Op;
use crate::hast::H;
use crate::rtok::{TK, can_end, can_start};
use crate::util::Rng;

#[derive(Clone, Debug)]
pub struct Style {
    pub extra_parens: u64,   // chance in 100 of redundant parentheses around a node
    pub newline_terms: u64,  // chance in 100 that a definition terminator is a line break
    pub break_lines: u64,    // chance in 100 of a line break at a position where the rule allows one
    pub arrow_sugar: u64,    // chance in 100 to print `(_ : A) -> B` as `A -> B`
    pub paren_let_def: u64,  // chance in 100 to parenthesise a group in definition position
    pub indent: bool,
}

impl Style {
    pub fn plain() -> Style {
        Style { extra_parens: 0, newline_terms: 0, break_lines: 0, arrow_sugar: 100, paren_let_def: 0, indent: false }
    }
    pub fn varied(r: &mut Rng) -> Style {
        Style {
            extra_parens: [0, 0, 5, 15][r.usize(4)],
            newline_terms: [0, 50, 100][r.usize(3)],
            break_lines: [0, 0, 10, 30][r.usize(4)],
            arrow_sugar: [100, 50][r.usize(2)],
            paren_let_def: [0, 30][r.usize(2)],
            indent: r.chance(1, 2),
        }
    }
}

#[derive(Clone, Debug, PartialEq, Eq)]
pub struct Span {
    pub node: usize,  // pre-order index in the H tree
    pub start: usize, // including parentheses the printer put around the node
    pub end: usize,
    pub kind: &'static str,
}

pub struct Printed {
    pub text: String,
    pub spans: Vec<Span>,
    // spans of binder names: (node index of the binding node, definition index for lets = 0, start, end)
    pub binders: Vec<(usize, usize, usize)>,
}

impl Printed {
    pub fn span_of(&self, node: usize) -> Option<&Span> {
        self.spans.iter().find(|s| s.node == node)
    }
}

struct P<'a> {
    out: String,
    prev: Option<TK>,
    pending_term: bool,
    style: &'a Style,
    rng: Rng,
    spans: Vec<Span>,
    binders: Vec<(usize, usize, usize)>,
    counter: usize,
    depth: usize,
    last_tok_start: usize,
    first_tok_of: Option<usize>,
}

fn word_kind(w: &str) -> TK {
    match w {
        "bool" => TK::Boolean,
        "else" => TK::Else,
        "false" => TK::False,
        "if" => TK::If,
        "int" => TK::Integer,
        "then" => TK::Then,
        "true" => TK::True,
        "type" => TK::Type,
        _ => TK::Identifier,
    }
}

pub fn level(h: &H) -> u8 {
    match h {
        H::Let(..) => 0,
        H::Lam(..) | H::Pi(..) | H::If(..) => 1,
        H::Bin(Op::Lt | Op::Le | Op::Eq | Op::Gt | Op::Ge, ..) => 2,
        H::Bin(Op::Add | Op::Sub, ..) => 3,
        H::Neg(_) => 4,
        H::Bin(Op::Mul | Op::Div, ..) => 5,
        H::App(..) => 6,
        _ => 7,
    }
}

impl<'a> P<'a> {
    fn tok(&mut self, text: &str, kind: TK) {
        // resolve a pending definition terminator now that the next token is known
        if self.pending_term {
            self.pending_term = false;
            let lb_ok = self.prev.is_some_and(can_end) && can_start(kind);
            if lb_ok && self.rng.chance(self.style.newline_terms, 100) {
                self.out.push('\n');
                if self.style.indent {
                    for _ in 0..self.depth.min(12) {
                        self.out.push_str("  ");
                    }
                }
                self.prev = Some(TK::LineBreak);
            } else {
                self.out.push(';');
                self.prev = Some(TK::Semi);
            }
        }
        if let Some(p) = self.prev {
            let may_break = !(can_end(p) && can_start(kind)) && p != TK::RightCurly && p != TK::LineBreak;
            if may_break && self.style.break_lines > 0 && self.rng.chance(self.style.break_lines, 100) {
                self.out.push('\n');
                if self.style.indent {
                    for _ in 0..(self.depth + 1).min(12) {
                        self.out.push_str("  ");
                    }
                }
            } else if p != TK::LineBreak {
                let tight = (p == TK::LeftParen || p == TK::LeftCurly || kind == TK::RightParen || kind == TK::RightCurly) && !(p == TK::Minus);
                if !tight {
                    self.out.push(' ');
                }
            }
        }
        self.last_tok_start = self.out.len();
        self.out.push_str(text);
        self.prev = Some(kind);
    }

    // Print `h` into a slot that admits nodes of level >= `slot`.
    fn node(&mut self, h: &H, slot: u8, mul_last: bool) {
        let id = self.counter;
        self.counter += 1;
        let natural = level(h);
        let mut wraps = 0;
        let fits = natural >= slot || (mul_last && matches!(h, H::Neg(_)) && slot == 6);
        if !fits {
            wraps += 1;
        }
        if !matches!(h, H::Paren(_)) && self.style.extra_parens > 0 && self.rng.chance(self.style.extra_parens, 100) {
            wraps += 1;
        }
        let mut start = usize::MAX;
        for _ in 0..wraps {
            self.tok("(", TK::LeftParen);
            if start == usize::MAX {
                start = self.last_tok_start;
            }
        }
        self.body(h, id, wraps > 0);
        if start == usize::MAX {
            start = self.first_tok_of.take().unwrap_or(self.out.len());
        } else {
            self.first_tok_of = None;
        }
        for _ in 0..wraps {
            self.tok(")", TK::RightParen);
        }
        self.spans.push(Span { node: id, start, end: self.out.len(), kind: h.kind() });
    }
}

impl<'a> P<'a> {
    fn body(&mut self, h: &H, id: usize, _open: bool) {
        // Emits the node itself; records the start offset of its first token in first_tok_of.
        let mut first: Option<usize> = None;
        macro_rules! t {
            ($text:expr, $kind:expr) => {{
                self.tok($text, $kind);
                if first.is_none() {
                    first = Some(self.last_tok_start);
                }
            }};
        }
        macro_rules! sub {
            ($h:expr, $slot:expr, $last:expr) => {{
                self.node($h, $slot, $last);
                if first.is_none() {
                    first = self.spans.last().map(|s| s.start);
                }
            }};
        }
        match h {
            H::Type => t!("type", TK::Type),
            H::Int => t!("int", TK::Integer),
            H::Bool => t!("bool", TK::Boolean),
            H::True => t!("true", TK::True),
            H::False => t!("false", TK::False),
            H::Lit(v) => t!(&v.to_string(), TK::IntegerLiteral),
            H::Var(n) => t!(n, word_kind(n)),
            H::Paren(x) => {
                t!("(", TK::LeftParen);
                self.depth += 1;
                sub!(x, 0, false);
                self.depth -= 1;
                t!(")", TK::RightParen);
            }
            H::Lam(n, im, d, b) => {
                match (d, im) {
                    (None, false) => {
                        t!(n, TK::Identifier);
                        self.binders.push((id, self.last_tok_start, self.out.len()));
                    }
                    (None, true) => {
                        t!("{", TK::LeftCurly);
                        t!(n, TK::Identifier);
                        self.binders.push((id, self.last_tok_start, self.out.len()));
                        t!("}", TK::RightCurly);
                    }
                    (Some(d), im) => {
                        t!(if *im { "{" } else { "(" }, if *im { TK::LeftCurly } else { TK::LeftParen });
                        t!(n, TK::Identifier);
                        self.binders.push((id, self.last_tok_start, self.out.len()));
                        t!(":", TK::Colon);
                        sub!(d, 1, false);
                        t!(if *im { "}" } else { ")" }, if *im { TK::RightCurly } else { TK::RightParen });
                    }
                }
                t!("=>", TK::ThickArrow);
                self.depth += 1;
                sub!(b, 0, false);
                self.depth -= 1;
            }
            H::Pi(n, im, d, c) => {
                let sugar = n == "_" && !*im && self.rng.chance(self.style.arrow_sugar, 100);
                if sugar {
                    sub!(d, 6, false);
                } else {
                    t!(if *im { "{" } else { "(" }, if *im { TK::LeftCurly } else { TK::LeftParen });
                    t!(n, TK::Identifier);
                    self.binders.push((id, self.last_tok_start, self.out.len()));
                    t!(":", TK::Colon);
                    sub!(d, 1, false);
                    t!(if *im { "}" } else { ")" }, if *im { TK::RightCurly } else { TK::RightParen });
                }
                t!("->", TK::ThinArrow);
                sub!(c, 0, false);
            }
            H::App(f, a) => {
                let fslot = if matches!(**f, H::App(..)) { 6 } else { 7 };
                sub!(f, fslot, false);
                sub!(a, 7, false);
            }
            H::Let(n, a, d, b) => {
                t!(n, TK::Identifier);
                self.binders.push((id, self.last_tok_start, self.out.len()));
                if let Some(a) = a {
                    t!(":", TK::Colon);
                    sub!(a, 6, false);
                }
                t!("=", TK::Equals);
                self.depth += 1;
                let force = matches!(**d, H::Let(..)) && self.rng.chance(self.style.paren_let_def, 100);
                if force {
                    // explicit parentheses around a group in definition position
                    let pid = self.counter;
                    let _ = pid;
                    self.tok("(", TK::LeftParen);
                    let st = self.last_tok_start;
                    self.node(d, 0, false);
                    self.tok(")", TK::RightParen);
                    if let Some(s) = self.spans.last_mut() {
                        s.start = st;
                        s.end = self.out.len();
                    }
                } else {
                    sub!(d, 0, false);
                }
                self.depth -= 1;
                self.pending_term = true;
                // never a parenthesised group directly in body position (DESIGN.md C07 L): the
                // slot is 0, so a Let body is printed bare; an explicit H::Paren(Let) is the
                // caller's own choice
                sub!(b, 0, false);
            }
            H::Neg(a) => {
                t!("-", TK::Minus);
                sub!(a, 4, false);
            }
            H::Bin(op, l, r) => {
                let (lslot, rslot) = match op {
                    Op::Mul | Op::Div => (5, 6),
                    Op::Add | Op::Sub => (3, 4),
                    _ => (3, 3),
                };
                // the right operand of the last product/quotient of a chain may be a bare negation
                sub!(l, lslot, false);
                let k = match op {
                    Op::Add => TK::Plus,
                    Op::Sub => TK::Minus,
                    Op::Mul => TK::Asterisk,
                    Op::Div => TK::Slash,
                    Op::Lt => TK::LessThan,
                    Op::Le => TK::LessThanOrEqualTo,
                    Op::Eq => TK::DoubleEquals,
                    Op::Gt => TK::GreaterThan,
                    Op::Ge => TK::GreaterThanOrEqualTo,
                };
                t!(op.text(), k);
                sub!(r, rslot, false);
            }
            H::If(c, a, b) => {
                t!("if", TK::If);
                sub!(c, 0, false);
                t!("then", TK::Then);
                sub!(a, 0, false);
                t!("else", TK::Else);
                sub!(b, 0, false);
            }
        }
        self.first_tok_of = first;
    }
}

// A negative literal has no token of its own: it is written as a negation.
fn normalise_negative_literals(h: &H) -> H {
    crate::props::c08::map_h(h, &mut |x| match x {
        H::Lit(v) if v.sign() == num_bigint::Sign::Minus => Some(H::Neg(crate::hast::hb(H::Lit(-v.clone())))),
        _ => None,
    })
}

pub fn print(h: &H, style: &Style, seed: u64) -> Printed {
    let h = &normalise_negative_literals(h);
    let mut p = P {
        out: String::new(),
        prev: None,
        pending_term: false,
        style,
        rng: Rng::new(seed),
        spans: vec![],
        binders: vec![],
        counter: 0,
        depth: 0,
        last_tok_start: 0,
        first_tok_of: None,
    };
    p.node(h, 0, false);
    let mut spans = p.spans;
    spans.sort_by_key(|s| s.node);
    Printed { text: p.out, spans, binders: p.binders }
}

pub fn print_plain(h: &H) -> String {
    print(h, &Style::plain(), 0).text
}
