// One observed run of gram's library pipeline on a source text: tokenize, parse, type_check
// (with hook counters), then the evaluator driven step by step under a step budget, with the
// stuck redex classified by walking the call-by-value evaluation context.
use crate::eterm::{E, Mirror, mirror};
use crate::evaluator::{is_value, step};
use crate::fw::guard;
use crate::parser::parse;
use crate::term::{Term, Variant};
use crate::tokenizer::tokenize;
use crate::type_checker::type_check;
use crate::verif_hooks;
use std::collections::HashSet;
use std::rc::Rc;

#[derive(Clone, Debug)]
pub enum Front {
    TokenizeErr(Vec<String>),
    ParseErr(Vec<String>),
    TypeErr(Vec<String>),
    Accepted,
    Panic(&'static str, String),
}

#[derive(Clone, Debug, PartialEq, Eq)]
pub enum StuckClass {
    DivByZero,
    Variable(String),
    ApplyNonFunction,
    WrongOperand,
    IfNonBool,
    SourceHole,  // unresolved hole whose cell was created by parse()
    CopiedHole,  // unresolved hole created later (copy made by `open`, or checker-made)
    Other,
}

#[derive(Clone, Debug)]
pub enum Run {
    NotRun,
    Value { value: E, text: String, steps: u64 },
    StillRunning { steps: u64 },
    Stuck { class: StuckClass, term: String, steps: u64 },
    Panic(String),
}

pub struct Obs {
    pub front: Front,
    pub parsed: Option<E>,
    pub elab: Option<E>,
    pub ty: Option<E>,
    pub elab_text: String,
    pub ty_text: String,
    pub hooks: verif_hooks::Counters,
    pub run: Run,
    pub trace: Vec<E>, // sampled reducts (when requested)
    // does evaluate() agree with the driven loop (only for short runs)
    pub evaluate_agrees: Option<bool>,
    pub whnf: Option<E>, // normalize_weak_head of the elaborated term (when requested)
    // an unresolved hole created by parse() is still in the elaborated term
    pub unresolved_source_hole: bool,
    // `open` copied an unresolved hole during evaluation
    pub eval_open_unresolved: u64,
}

pub struct Opts {
    pub max_steps: u64,
    pub evaluate: bool,
    pub trace_every: u64, // 0 = no trace
    pub max_trace: usize,
    pub confirm_evaluate: bool,
    pub whnf: bool,
}

impl Opts {
    pub fn check_only() -> Opts {
        Opts { max_steps: 0, evaluate: false, trace_every: 0, max_trace: 0, confirm_evaluate: false, whnf: false }
    }
    pub fn run(max_steps: u64) -> Opts {
        Opts { max_steps, evaluate: true, trace_every: 0, max_trace: 0, confirm_evaluate: false, whnf: false }
    }
}

fn collect_cells(t: &Term, out: &mut HashSet<usize>) {
    match &t.variant {
        Variant::Unifier(c, _) => {
            out.insert(Rc::as_ptr(c) as *const u8 as usize);
            if let Some(x) = { c.borrow().clone() } {
                collect_cells(&x, out);
            }
        }
        Variant::Lambda(_, _, a, b) | Variant::Pi(_, _, a, b) | Variant::Application(a, b) => {
            collect_cells(a, out);
            collect_cells(b, out);
        }
        Variant::Sum(a, b)
        | Variant::Difference(a, b)
        | Variant::Product(a, b)
        | Variant::Quotient(a, b)
        | Variant::LessThan(a, b)
        | Variant::LessThanOrEqualTo(a, b)
        | Variant::EqualTo(a, b)
        | Variant::GreaterThan(a, b)
        | Variant::GreaterThanOrEqualTo(a, b) => {
            collect_cells(a, out);
            collect_cells(b, out);
        }
        Variant::Let(defs, body) => {
            for (_, a, d) in defs {
                collect_cells(a, out);
                collect_cells(d, out);
            }
            collect_cells(body, out);
        }
        Variant::Negation(a) => collect_cells(a, out),
        Variant::If(a, b, c) => {
            collect_cells(a, out);
            collect_cells(b, out);
            collect_cells(c, out);
        }
        _ => {}
    }
}

// Addresses of the unresolved cells reachable in a term.
fn collect_unresolved(t: &Term, out: &mut HashSet<usize>) {
    let mut all = HashSet::new();
    collect_cells(t, &mut all);
    // collect_cells gathers every cell; keep the unresolved ones
    fn walk(t: &Term, out: &mut HashSet<usize>) {
        match &t.variant {
            Variant::Unifier(c, _) => {
                let content = { c.borrow().clone() };
                match content {
                    Some(x) => walk(&x, out),
                    None => {
                        out.insert(Rc::as_ptr(c) as *const u8 as usize);
                    }
                }
            }
            Variant::Lambda(_, _, a, b) | Variant::Pi(_, _, a, b) | Variant::Application(a, b) => {
                walk(a, out);
                walk(b, out);
            }
            Variant::Sum(a, b)
            | Variant::Difference(a, b)
            | Variant::Product(a, b)
            | Variant::Quotient(a, b)
            | Variant::LessThan(a, b)
            | Variant::LessThanOrEqualTo(a, b)
            | Variant::EqualTo(a, b)
            | Variant::GreaterThan(a, b)
            | Variant::GreaterThanOrEqualTo(a, b) => {
                walk(a, out);
                walk(b, out);
            }
            Variant::Let(defs, body) => {
                for (_, a, d) in defs {
                    walk(a, out);
                    walk(d, out);
                }
                walk(body, out);
            }
            Variant::Negation(a) => walk(a, out),
            Variant::If(a, b, c) => {
                walk(a, out);
                walk(b, out);
                walk(c, out);
            }
            _ => {}
        }
    }
    let _ = all;
    walk(t, out);
}

// Walk the evaluation context of a term on which step() returned None and that is not a value.
pub fn classify_stuck(t: &Term, parse_cells: &HashSet<usize>) -> StuckClass {
    match &t.variant {
        Variant::Variable(n, _) => StuckClass::Variable((*n).to_owned()),
        Variant::Unifier(c, _) => {
            if c.borrow().is_some() {
                StuckClass::Other
            } else if parse_cells.contains(&(Rc::as_ptr(c) as *const u8 as usize)) {
                StuckClass::SourceHole
            } else {
                StuckClass::CopiedHole
            }
        }
        Variant::Application(f, a) => {
            if !is_value(f) {
                classify_stuck(f, parse_cells)
            } else if !is_value(a) {
                classify_stuck(a, parse_cells)
            } else {
                StuckClass::ApplyNonFunction
            }
        }
        Variant::Let(defs, _) => {
            // the evaluator works on the first definition that is not yet a value
            match defs.iter().find(|(_, _, d)| !is_value(d)) {
                Some((_, _, d)) => classify_stuck(d, parse_cells),
                None => StuckClass::Other,
            }
        }
        Variant::Negation(a) => {
            if !is_value(a) {
                classify_stuck(a, parse_cells)
            } else {
                StuckClass::WrongOperand
            }
        }
        Variant::Sum(a, b)
        | Variant::Difference(a, b)
        | Variant::Product(a, b)
        | Variant::LessThan(a, b)
        | Variant::LessThanOrEqualTo(a, b)
        | Variant::EqualTo(a, b)
        | Variant::GreaterThan(a, b)
        | Variant::GreaterThanOrEqualTo(a, b) => {
            if !is_value(a) {
                classify_stuck(a, parse_cells)
            } else if !is_value(b) {
                classify_stuck(b, parse_cells)
            } else {
                StuckClass::WrongOperand
            }
        }
        Variant::Quotient(a, b) => {
            if !is_value(a) {
                classify_stuck(a, parse_cells)
            } else if !is_value(b) {
                classify_stuck(b, parse_cells)
            } else if let (Variant::IntegerLiteral(_), Variant::IntegerLiteral(d)) = (&a.variant, &b.variant) {
                if d.sign() == num_bigint::Sign::NoSign { StuckClass::DivByZero } else { StuckClass::Other }
            } else {
                StuckClass::WrongOperand
            }
        }
        Variant::If(c, _, _) => {
            if !is_value(c) {
                classify_stuck(c, parse_cells)
            } else {
                StuckClass::IfNonBool
            }
        }
        _ => StuckClass::Other,
    }
}

pub fn observe(src: &str, context: &[&str], opts: &Opts) -> Obs {
    let mut obs = Obs {
        front: Front::Accepted,
        parsed: None,
        elab: None,
        ty: None,
        elab_text: String::new(),
        ty_text: String::new(),
        hooks: verif_hooks::Counters::default(),
        run: Run::NotRun,
        trace: vec![],
        evaluate_agrees: None,
        whnf: None,
        unresolved_source_hole: false,
        eval_open_unresolved: 0,
    };
    let toks = match guard(|| tokenize(None, src)) {
        Err(p) => {
            obs.front = Front::Panic("tokenize", p);
            return obs;
        }
        Ok(Err(es)) => {
            obs.front = Front::TokenizeErr(es.iter().map(|e| e.message.clone()).collect());
            return obs;
        }
        Ok(Ok(t)) => t,
    };
    let term = match guard(|| parse(None, src, &toks[..], context)) {
        Err(p) => {
            obs.front = Front::Panic("parse", p);
            return obs;
        }
        Ok(Err(es)) => {
            obs.front = Front::ParseErr(es.iter().map(|e| e.message.clone()).collect());
            return obs;
        }
        Ok(Ok(t)) => t,
    };
    let mut parse_cells = HashSet::new();
    collect_cells(&term, &mut parse_cells);
    // one Mirror for parse output, elaborated term and type, so hole identities are comparable
    let mut m = Mirror::new();
    obs.parsed = Some(m.go(&term));
    if !context.is_empty() {
        // open terms are type checked by the caller with its own contexts (C18)
        return obs;
    }
    verif_hooks::reset();
    let tc = guard(|| {
        let (mut tcx, mut dcx) = (vec![], vec![]);
        let r = type_check(None, src, &term, &mut tcx, &mut dcx);
        (r, tcx.len(), dcx.len())
    });
    obs.hooks = verif_hooks::snapshot();
    let (elab, ty) = match tc {
        Err(p) => {
            obs.front = Front::Panic("type_check", p);
            return obs;
        }
        Ok((Err(es), _, _)) => {
            obs.front = Front::TypeErr(es.iter().map(|e| e.message.clone()).collect());
            return obs;
        }
        Ok((Ok(x), _, _)) => x,
    };
    // the parse mirror must be redone after checking: holes are solved by now
    let mut m2 = Mirror::new();
    obs.parsed = Some(m2.go(&term));
    obs.elab = Some(m2.go(&elab));
    obs.ty = Some(m2.go(&ty));
    if let Ok((a, b)) = guard(|| (elab.to_string(), ty.to_string())) {
        obs.elab_text = a;
        obs.ty_text = b;
    }
    {
        let mut after = HashSet::new();
        collect_unresolved(&elab, &mut after);
        obs.unresolved_source_hole = after.iter().any(|a| parse_cells.contains(a));
    }
    if !opts.evaluate {
        return obs;
    }
    verif_hooks::reset();
    // drive the evaluator ourselves: budget in steps, not seconds
    let mut cur = elab.clone();
    let mut steps = 0u64;
    let r = guard(|| {
        loop {
            if steps >= opts.max_steps {
                return Run::StillRunning { steps };
            }
            match step(&cur) {
                Some(next) => {
                    steps += 1;
                    if opts.trace_every > 0 && steps % opts.trace_every == 0 && obs.trace.len() < opts.max_trace {
                        obs.trace.push(m2.go(&next));
                    }
                    cur = next;
                }
                None => {
                    return if is_value(&cur) {
                        // same Mirror as the elaborated term and type: hole identities stay comparable
                        Run::Value { value: m2.go(&cur), text: cur.to_string(), steps }
                    } else {
                        Run::Stuck { class: classify_stuck(&cur, &parse_cells), term: crate::util::clip(&cur.to_string(), 400), steps }
                    };
                }
            }
        }
    });
    obs.run = match r {
        Ok(r) => r,
        Err(p) => Run::Panic(p),
    };
    obs.eval_open_unresolved = verif_hooks::snapshot().open_unresolved;
    if opts.confirm_evaluate {
        let short = match &obs.run {
            Run::Value { steps, .. } | Run::Stuck { steps, .. } => *steps < 2000,
            _ => false,
        };
        if short {
            if let Ok(res) = guard(|| crate::evaluator::evaluate(&elab)) {
                obs.evaluate_agrees = Some(match (&obs.run, res) {
                    (Run::Value { value, .. }, Ok(v)) => crate::hast::canon_holes(&mirror(&v)) == crate::hast::canon_holes(value),
                    (Run::Stuck { .. }, Err(e)) => e.message.contains("is stuck!"),
                    _ => false,
                });
            }
        }
    }
    if opts.whnf {
        if let Ok(w) = guard(|| {
            let mut dc = vec![];
            mirror(&crate::normalizer::normalize_weak_head(&elab, &mut dc))
        }) {
            obs.whnf = Some(w);
        }
    }
    obs
}
