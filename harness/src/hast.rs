// H: harness-side named source AST (what a program text means before gram sees it), the
// R-scope resolver H -> E (expected parse result, DESIGN.md A.4) and the reassociation of
// right-nested derivations (A.3).
use crate::eterm::{E, Op, bx};
use num_bigint::BigInt;
use std::collections::HashMap;

#[derive(Clone, Debug, PartialEq, Eq, Hash)]
pub enum H {
    Type,
    Int,
    Bool,
    True,
    False,
    Lit(BigInt),
    Var(String), // `_` denotes a fresh hole
    Lam(String, bool, Option<Box<H>>, Box<H>),
    Pi(String, bool, Box<H>, Box<H>), // name `_` for the non-dependent arrow
    App(Box<H>, Box<H>),
    Let(String, Option<Box<H>>, Box<H>, Box<H>), // one definition; groups are nested through the body
    Neg(Box<H>),
    Bin(Op, Box<H>, Box<H>),
    If(Box<H>, Box<H>, Box<H>),
    Paren(Box<H>), // explicit parentheses in the source
}

pub fn hb(h: H) -> Box<H> {
    Box::new(h)
}

impl H {
    pub fn var(s: &str) -> H {
        H::Var(s.to_owned())
    }
    pub fn lit(i: i64) -> H {
        H::Lit(BigInt::from(i))
    }
    pub fn strip(&self) -> &H {
        let mut h = self;
        while let H::Paren(x) = h {
            h = x;
        }
        h
    }
    pub fn size(&self) -> usize {
        1 + match self {
            H::Lam(_, _, d, b) => d.as_ref().map_or(0, |d| d.size()) + b.size(),
            H::Pi(_, _, d, b) | H::App(d, b) | H::Bin(_, d, b) => d.size() + b.size(),
            H::Let(_, a, d, b) => a.as_ref().map_or(0, |a| a.size()) + d.size() + b.size(),
            H::Neg(a) | H::Paren(a) => a.size(),
            H::If(a, b, c) => a.size() + b.size() + c.size(),
            _ => 0,
        }
    }
    pub fn kind(&self) -> &'static str {
        match self {
            H::Type => "Type",
            H::Int => "Int",
            H::Bool => "Bool",
            H::True => "True",
            H::False => "False",
            H::Lit(_) => "Lit",
            H::Var(_) => "Var",
            H::Lam(..) => "Lam",
            H::Pi(..) => "Pi",
            H::App(..) => "App",
            H::Let(..) => "Let",
            H::Neg(_) => "Neg",
            H::Bin(op, _, _) => match op {
                Op::Add => "Sum",
                Op::Sub => "Difference",
                Op::Mul => "Product",
                Op::Div => "Quotient",
                Op::Lt => "LessThan",
                Op::Le => "LessThanOrEqualTo",
                Op::Eq => "EqualTo",
                Op::Gt => "GreaterThan",
                Op::Ge => "GreaterThanOrEqualTo",
            },
            H::If(..) => "If",
            H::Paren(_) => "Paren",
        }
    }
}

// ---------------------------------------------------------------------------------------------
// Reassociation (A.3): every maximal right-nested chain of application, of product|quotient, of
// sum|difference whose links are not parenthesised is re-bracketed to the left.

#[derive(PartialEq, Clone, Copy)]
enum Class {
    App,
    Mul,
    Add,
}

fn class_of(h: &H) -> Option<Class> {
    match h {
        H::App(..) => Some(Class::App),
        H::Bin(Op::Mul | Op::Div, ..) => Some(Class::Mul),
        H::Bin(Op::Add | Op::Sub, ..) => Some(Class::Add),
        _ => None,
    }
}

pub fn reassociate(h: &H) -> H {
    if let Some(c) = class_of(h) {
        // collect the chain along the right spine while the right child is directly (not through
        // parentheses) of the same class
        let mut operands: Vec<&H> = vec![];
        let mut ops: Vec<Option<Op>> = vec![];
        let mut cur = h;
        loop {
            let (l, r, op) = match cur {
                H::App(l, r) => (l, r, None),
                H::Bin(op, l, r) => (l, r, Some(*op)),
                _ => unreachable!(),
            };
            operands.push(l);
            ops.push(op);
            if class_of(r) == Some(c) {
                cur = r;
            } else {
                operands.push(r);
                break;
            }
        }
        let mut acc = reassociate(operands[0]);
        for (op, x) in ops.iter().zip(operands[1..].iter()) {
            let x = reassociate(x);
            acc = match op {
                None => H::App(hb(acc), hb(x)),
                Some(op) => H::Bin(*op, hb(acc), hb(x)),
            };
        }
        return acc;
    }
    match h {
        H::Lam(n, i, d, b) => H::Lam(n.clone(), *i, d.as_ref().map(|d| hb(reassociate(d))), hb(reassociate(b))),
        H::Pi(n, i, d, b) => H::Pi(n.clone(), *i, hb(reassociate(d)), hb(reassociate(b))),
        H::Let(n, a, d, b) => H::Let(n.clone(), a.as_ref().map(|a| hb(reassociate(a))), hb(reassociate(d)), hb(reassociate(b))),
        H::Neg(a) => H::Neg(hb(reassociate(a))),
        H::Bin(op, a, b) => H::Bin(*op, hb(reassociate(a)), hb(reassociate(b))),
        H::If(a, b, c) => H::If(hb(reassociate(a)), hb(reassociate(b)), hb(reassociate(c))),
        H::Paren(a) => H::Paren(hb(reassociate(a))),
        other => other.clone(),
    }
}

// ---------------------------------------------------------------------------------------------
// R-scope: named resolution H -> E.

#[derive(Clone, Debug, PartialEq, Eq)]
pub enum ScopeErr {
    NotInScope(String),
    AlreadyExists(String),
}

pub struct Resolver {
    scope: Vec<Option<String>>, // innermost last; None = a binder that binds nothing (`_`)
    pub errors: Vec<ScopeErr>,
    next_hole: u32,
}

impl Resolver {
    pub fn new(context: &[&str]) -> Resolver {
        Resolver { scope: context.iter().map(|s| Some((*s).to_owned())).collect(), errors: vec![], next_hole: 0 }
    }
    fn hole(&mut self, shift: usize) -> E {
        let id = self.next_hole;
        self.next_hole += 1;
        E::Hole(id, shift, None)
    }
    fn lookup(&self, name: &str) -> Option<usize> {
        self.scope.iter().rev().position(|s| s.as_deref() == Some(name))
    }
    fn bind(&mut self, name: &str) {
        if name == "_" {
            self.scope.push(None);
        } else {
            if self.lookup(name).is_some() {
                self.errors.push(ScopeErr::AlreadyExists(name.to_owned()));
            }
            self.scope.push(Some(name.to_owned()));
        }
    }
    pub fn go(&mut self, h: &H) -> E {
        match h {
            H::Type => E::Type,
            H::Int => E::Int,
            H::Bool => E::Bool,
            H::True => E::True,
            H::False => E::False,
            H::Lit(v) => E::Lit(v.clone()),
            H::Paren(x) => self.go(x),
            H::Var(n) => {
                if n == "_" {
                    return self.hole(0);
                }
                match self.lookup(n) {
                    Some(i) => E::Var(n.clone(), i),
                    None => {
                        self.errors.push(ScopeErr::NotInScope(n.clone()));
                        self.hole(0)
                    }
                }
            }
            H::Lam(n, im, d, b) => {
                let d = match d {
                    Some(d) => self.go(d),
                    None => self.hole(0),
                };
                self.bind(n);
                let b = self.go(b);
                self.scope.pop();
                E::Lam(n.clone(), *im, bx(d), bx(b))
            }
            H::Pi(n, im, d, b) => {
                let d = self.go(d);
                self.bind(n);
                let b = self.go(b);
                self.scope.pop();
                E::Pi(n.clone(), *im, bx(d), bx(b))
            }
            H::App(f, a) => {
                let f = self.go(f);
                let a = self.go(a);
                E::App(bx(f), bx(a))
            }
            H::Let(..) => {
                // flatten the group: nested lets through the body, also through parentheses (gram
                // merges a parenthesised group in body position into the enclosing one; the
                // properties do not fix this, so the oracle follows it - DESIGN.md C07 L)
                let mut defs: Vec<(&String, &Option<Box<H>>, &H)> = vec![];
                let mut cur = h;
                loop {
                    match cur.strip() {
                        H::Let(n, a, d, b) => {
                            defs.push((n, a, d));
                            cur = b;
                        }
                        _ => break,
                    }
                }
                let n = defs.len();
                for (name, _, _) in &defs {
                    self.bind(name);
                }
                let mut out = vec![];
                for (i, (name, a, d)) in defs.iter().enumerate() {
                    let a = match a {
                        Some(a) => self.go(a),
                        None => self.hole(n - i),
                    };
                    let d = self.go(d);
                    out.push(((*name).clone(), a, d));
                }
                let body = self.go(cur);
                for _ in 0..n {
                    self.scope.pop();
                }
                E::Let(out, bx(body))
            }
            H::Neg(a) => E::Neg(bx(self.go(a))),
            H::Bin(op, a, b) => {
                let a = self.go(a);
                let b = self.go(b);
                E::Bin(*op, bx(a), bx(b))
            }
            H::If(c, t, e) => {
                let c = self.go(c);
                let t = self.go(t);
                let e = self.go(e);
                E::If(bx(c), bx(t), bx(e))
            }
        }
    }
}

pub fn resolve(h: &H, context: &[&str]) -> Result<E, Vec<ScopeErr>> {
    let mut r = Resolver::new(context);
    let e = r.go(h);
    if r.errors.is_empty() { Ok(e) } else { Err(r.errors) }
}

// Renumber hole identities by first occurrence in the canonical traversal order, so that terms
// from different producers can be compared.
pub fn canon_holes(e: &E) -> E {
    fn go(e: &E, map: &mut HashMap<u32, u32>) -> E {
        match e {
            E::Hole(id, sh, c) => {
                let n = map.len() as u32;
                let nid = *map.entry(*id).or_insert(n);
                E::Hole(nid, *sh, c.as_ref().map(|c| bx(go(c, map))))
            }
            E::Lam(n, i, d, b) => {
                let d = go(d, map);
                let b = go(b, map);
                E::Lam(n.clone(), *i, bx(d), bx(b))
            }
            E::Pi(n, i, d, b) => {
                let d = go(d, map);
                let b = go(b, map);
                E::Pi(n.clone(), *i, bx(d), bx(b))
            }
            E::App(a, b) => {
                let a = go(a, map);
                let b = go(b, map);
                E::App(bx(a), bx(b))
            }
            E::Let(defs, body) => {
                let mut nd = vec![];
                for (x, a, d) in defs {
                    let a = go(a, map);
                    let d = go(d, map);
                    nd.push((x.clone(), a, d));
                }
                let body = go(body, map);
                E::Let(nd, bx(body))
            }
            E::Neg(a) => E::Neg(bx(go(a, map))),
            E::Bin(op, a, b) => {
                let a = go(a, map);
                let b = go(b, map);
                E::Bin(*op, bx(a), bx(b))
            }
            E::If(c, t, f) => {
                let c = go(c, map);
                let t = go(t, map);
                let f = go(f, map);
                E::If(bx(c), bx(t), bx(f))
            }
            other => other.clone(),
        }
    }
    go(e, &mut HashMap::new())
}
