// R-eval: environment/closure big-step call-by-value interpreter (DESIGN.md A.7) over core terms
// obtained from the *source* AST. Counts reductions. Independent of gram's substitution-based
// small-step evaluator.
use crate::core::{C, Id, trunc_div};
use crate::eterm::Op;
use num_bigint::BigInt;
use std::cell::RefCell;
use std::rc::Rc;

#[derive(Clone)]
pub enum EV {
    Type,
    Int,
    Bool,
    True,
    False,
    Lit(BigInt),
    Lam(bool, REnv, Id, Rc<C>),
    Pi(bool),
    Hole,
}

#[derive(Clone, Debug, PartialEq, Eq)]
pub enum Stop {
    DivByZero,
    NotAvailable(Id),
    Fuel,
    Depth,
    Stuck(&'static str), // ill-typed program: apply non-function, arithmetic on wrong kind, ...
}

#[derive(Clone)]
pub struct REnv(Option<Rc<RNode>>);

struct RNode {
    id: Id,
    slot: Rc<RefCell<Option<EV>>>,
    next: REnv,
}

impl REnv {
    pub fn empty() -> REnv {
        REnv(None)
    }
    fn with(&self, id: Id, slot: Rc<RefCell<Option<EV>>>) -> REnv {
        REnv(Some(Rc::new(RNode { id, slot, next: self.clone() })))
    }
    fn get(&self, id: Id) -> Option<Rc<RefCell<Option<EV>>>> {
        let mut cur = self;
        while let Some(n) = &cur.0 {
            if n.id == id {
                return Some(n.slot.clone());
            }
            cur = &n.next;
        }
        None
    }
}

pub struct REval {
    pub fuel: u64,
    pub reductions: u64,
    pub max_depth: usize,
    pub deepest: usize,
    pub effects_seen: Vec<&'static str>,
}

pub fn is_syntactic_value(c: &C) -> bool {
    matches!(c, C::Type | C::Int | C::Bool | C::True | C::False | C::Lit(_) | C::Lam(..) | C::Pi(..))
}

impl REval {
    pub fn new(fuel: u64) -> REval {
        REval { fuel, reductions: 0, max_depth: 6000, deepest: 0, effects_seen: vec![] }
    }
    fn red(&mut self) -> Result<(), Stop> {
        self.reductions += 1;
        if self.reductions > self.fuel { Err(Stop::Fuel) } else { Ok(()) }
    }
    pub fn eval(&mut self, c: &Rc<C>, env: &REnv, depth: usize) -> Result<EV, Stop> {
        if depth > self.max_depth {
            return Err(Stop::Depth);
        }
        self.deepest = self.deepest.max(depth);
        Ok(match &**c {
            C::Type => EV::Type,
            C::Int => EV::Int,
            C::Bool => EV::Bool,
            C::True => EV::True,
            C::False => EV::False,
            C::Lit(v) => EV::Lit(v.clone()),
            C::Opaque(_) => return Err(Stop::Stuck("unfilled hole")),
            C::Var(id) => match env.get(*id) {
                Some(slot) => match &*slot.borrow() {
                    Some(v) => v.clone(),
                    None => return Err(Stop::NotAvailable(*id)),
                },
                None => return Err(Stop::Stuck("free variable")),
            },
            C::Lam(id, im, _, b) => EV::Lam(*im, env.clone(), *id, b.clone()),
            C::Pi(_, im, _, _) => EV::Pi(*im),
            C::App(f, a) => {
                let fv = self.eval(f, env, depth + 1)?;
                let av = self.eval(a, env, depth + 1)?;
                match fv {
                    EV::Lam(_, cenv, id, body) => {
                        self.red()?;
                        let env2 = cenv.with(id, Rc::new(RefCell::new(Some(av))));
                        self.eval(&body, &env2, depth + 1)?
                    }
                    _ => return Err(Stop::Stuck("call of a non-function")),
                }
            }
            C::Let(defs, body) => {
                // syntactic values are available in the whole group; the rest is evaluated in order
                let mut env2 = env.clone();
                let slots: Vec<Rc<RefCell<Option<EV>>>> = defs.iter().map(|_| Rc::new(RefCell::new(None))).collect();
                for ((id, _, _), s) in defs.iter().zip(slots.iter()) {
                    env2 = env2.with(*id, s.clone());
                }
                for ((_, _, d), s) in defs.iter().zip(slots.iter()) {
                    if is_syntactic_value(d) {
                        let v = self.eval(d, &env2, depth + 1)?;
                        *s.borrow_mut() = Some(v);
                    }
                }
                for ((_, _, d), s) in defs.iter().zip(slots.iter()) {
                    if !is_syntactic_value(d) {
                        let v = self.eval(d, &env2, depth + 1)?;
                        *s.borrow_mut() = Some(v);
                    }
                    self.red()?;
                }
                self.eval(body, &env2, depth + 1)?
            }
            C::Neg(a) => match self.eval(a, env, depth + 1)? {
                EV::Lit(v) => {
                    self.red()?;
                    EV::Lit(-v)
                }
                _ => return Err(Stop::Stuck("negation of a non-integer")),
            },
            C::Bin(op, a, b) => {
                let x = self.eval(a, env, depth + 1)?;
                let y = self.eval(b, env, depth + 1)?;
                let (EV::Lit(x), EV::Lit(y)) = (x, y) else {
                    return Err(Stop::Stuck("arithmetic or comparison on a non-integer"));
                };
                self.red()?;
                let t = |c: bool| if c { EV::True } else { EV::False };
                match op {
                    Op::Add => EV::Lit(x + y),
                    Op::Sub => EV::Lit(x - y),
                    Op::Mul => EV::Lit(x * y),
                    Op::Div => match trunc_div(&x, &y) {
                        Some(q) => EV::Lit(q),
                        None => return Err(Stop::DivByZero),
                    },
                    Op::Lt => t(x < y),
                    Op::Le => t(x <= y),
                    Op::Eq => t(x == y),
                    Op::Gt => t(x > y),
                    Op::Ge => t(x >= y),
                }
            }
            C::If(c, t, e) => match self.eval(c, env, depth + 1)? {
                EV::True => {
                    self.red()?;
                    self.eval(t, env, depth + 1)?
                }
                EV::False => {
                    self.red()?;
                    self.eval(e, env, depth + 1)?
                }
                _ => return Err(Stop::Stuck("branching on a non-boolean")),
            },
        })
    }
}

pub fn head(v: &EV) -> &'static str {
    match v {
        EV::Type => "type",
        EV::Int => "int",
        EV::Bool => "bool",
        EV::True => "true",
        EV::False => "false",
        EV::Lit(_) => "literal",
        EV::Lam(false, ..) => "lambda",
        EV::Lam(true, ..) => "implicit-lambda",
        EV::Pi(false) => "pi",
        EV::Pi(true) => "implicit-pi",
        EV::Hole => "hole",
    }
}
