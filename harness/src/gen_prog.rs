// G-prog: type-directed generator of well-typed programs (DESIGN.md Appendix D). Produces a
// source AST `H` together with the intended type, in explicit mode (every binder annotated, no
// holes) or inferred mode (annotations dropped / `_` at random).
use crate::eterm::Op;
use crate::hast::{H, hb};
use crate::util::Rng;
use num_bigint::BigInt;

#[derive(Clone, Debug, PartialEq, Eq)]
pub enum GT {
    Int,
    Bool,
    Type,
    Arrow(Box<GT>, Box<GT>),
    Forall(String, Box<GT>), // (a : type) -> body
    TVar(String),
    // a value-dependent identity: (i : index) -> (if cond(i) then int else bool) -> (same)
    Dep(DepKind),
    // the type of a definition that the type-directed machinery never uses (its annotation is
    // produced together with its definition)
    Opaque,
}

#[derive(Clone, Copy, Debug, PartialEq, Eq)]
pub enum DepKind {
    BoolIndexed,
    IntIndexed(u8, i64), // comparison operator code (0..5: < <= == > >=), constant
}

impl DepKind {
    fn index_type(self) -> H {
        match self {
            DepKind::BoolIndexed => H::Bool,
            DepKind::IntIndexed(..) => H::Int,
        }
    }
    fn cond(self, index: H) -> H {
        match self {
            DepKind::BoolIndexed => index,
            DepKind::IntIndexed(op, k) => H::Bin([Op::Lt, Op::Le, Op::Eq, Op::Gt, Op::Ge][op as usize % 5], hb(index), hb(if k < 0 { H::Neg(hb(H::lit(-k))) } else { H::lit(k) })),
        }
    }
    fn holds(self, v: i64) -> bool {
        match self {
            DepKind::BoolIndexed => v != 0,
            DepKind::IntIndexed(op, k) => match op % 5 {
                0 => v < k,
                1 => v <= k,
                2 => v == k,
                3 => v > k,
                _ => v >= k,
            },
        }
    }
    // an index literal for which the family is `int` (want_int) or `bool`
    fn index_for(self, want_int: bool, r: &mut Rng) -> H {
        match self {
            DepKind::BoolIndexed => {
                if want_int {
                    H::True
                } else {
                    H::False
                }
            }
            DepKind::IntIndexed(_, k) => {
                for _ in 0..50 {
                    let v = k + r.range(-3, 3);
                    if self.holds(v) == want_int {
                        return if v < 0 { H::Neg(hb(H::lit(-v))) } else { H::lit(v) };
                    }
                }
                H::lit(k)
            }
        }
    }
    fn family(self, index: H) -> H {
        H::If(hb(self.cond(index)), hb(H::Int), hb(H::Bool))
    }
}

impl GT {
    pub fn arrow(a: GT, b: GT) -> GT {
        GT::Arrow(Box::new(a), Box::new(b))
    }
    pub fn subst(&self, a: &str, t: &GT) -> GT {
        match self {
            GT::TVar(x) if x == a => t.clone(),
            GT::Arrow(d, c) => GT::arrow(d.subst(a, t), c.subst(a, t)),
            GT::Forall(x, b) if x != a => GT::Forall(x.clone(), Box::new(b.subst(a, t))),
            other => other.clone(),
        }
    }
    pub fn is_ground(&self) -> bool {
        matches!(self, GT::Int | GT::Bool)
    }
    pub fn mentions_tvar(&self) -> bool {
        match self {
            GT::TVar(_) => true,
            GT::Arrow(a, b) => a.mentions_tvar() || b.mentions_tvar(),
            GT::Forall(_, b) => b.mentions_tvar(),
            _ => false,
        }
    }
    pub fn result(&self) -> &GT {
        match self {
            GT::Arrow(_, c) => c.result(),
            other => other,
        }
    }
}

#[derive(Clone, Debug)]
pub struct Entry {
    pub name: String,
    pub ty: GT,
    pub alias_of: Option<GT>, // for entries of type `type` bound by a definition: what they denote
    pub usable: bool,         // may be mentioned from the current position (definition-order discipline)
    pub recursive_fn: bool,   // a recursive int -> int function: call it with small arguments only
}

#[derive(Clone, Debug, PartialEq, Eq)]
pub enum Arg {
    Term(GT),
    Type(GT),
    DepIndex(DepKind, bool), // an index making the family int (true) or bool (false)
}

#[derive(Clone, Copy, Debug, PartialEq, Eq)]
pub enum Mode {
    Explicit,
    Inferred,
}

pub struct Cfg {
    pub mode: Mode,
    pub size: usize,
    pub effects: bool,      // plant division by zero / divergence in unevaluated positions
    pub big_ints: bool,
    pub type_level: bool,   // type-level redexes, aliases and conditionals in annotations
    pub recursion: bool,    // recursive and mutually recursive function definitions
    pub rec_families: bool, // type families defined by recursion on an integer index, used at neutral indices
    pub trap: bool,         // plant one ill-typed use guarded only by decoy definitions (the program must be rejected)
}

pub struct ProgGen<'a> {
    pub r: &'a mut Rng,
    pub cfg: Cfg,
    pub ctx: Vec<Entry>,
    fresh: usize,
    budget: i64,
    pub features: Vec<&'static str>,
    pub planted_effects: usize,
    pub traps_planted: usize,
}

const NAMES: [&str; 16] = ["x", "y", "z", "n", "m", "k", "f", "g", "h", "p", "q", "acc", "é", "val", "iff", "int2"];

impl<'a> ProgGen<'a> {
    pub fn new(r: &'a mut Rng, cfg: Cfg) -> ProgGen<'a> {
        let budget = cfg.size as i64;
        ProgGen { r, cfg, ctx: vec![], fresh: 0, budget, features: vec![], planted_effects: 0, traps_planted: 0 }
    }

    fn feature(&mut self, f: &'static str) {
        if !self.features.contains(&f) {
            self.features.push(f);
        }
    }

    fn fresh_name(&mut self, hint: &str) -> String {
        // names never collide with anything in scope (no shadowing allowed), but sibling scopes reuse them
        for _ in 0..6 {
            let n = if hint.is_empty() { NAMES[self.r.usize(NAMES.len())].to_owned() } else { hint.to_owned() };
            if !self.ctx.iter().any(|e| e.name == n) {
                return n;
            }
            if !hint.is_empty() {
                break;
            }
        }
        loop {
            self.fresh += 1;
            let n = format!("{}{}", if hint.is_empty() { "v" } else { hint }, self.fresh);
            if !self.ctx.iter().any(|e| e.name == n) {
                return n;
            }
        }
    }

    // ---------------------------------------------------------------------------------------
    // Types as source terms

    pub fn ty_h(&mut self, t: &GT) -> H {
        // an alias in scope that denotes this type may stand for it
        if self.cfg.type_level && self.r.chance(1, 3) {
            let aliases: Vec<String> = self.ctx.iter().filter(|e| e.usable && e.alias_of.as_ref() == Some(t)).map(|e| e.name.clone()).collect();
            if !aliases.is_empty() {
                self.feature("alias-used-in-annotation");
                return H::Var(aliases[self.r.usize(aliases.len())].clone());
            }
        }
        // names introduced by type-level wrappers are reserved before the wrapped type is generated
        let wrap = if self.cfg.type_level && self.r.chance(1, 6) { [1, 2, 2, 3, 4][self.r.usize(if self.cfg.recursion { 5 } else { 4 })] } else { 0 };
        let wrap_name = match wrap {
            1 => self.fresh_name("t"),
            3 => self.fresh_name("ty"),
            _ => String::new(),
        };
        let mark = self.ctx.len();
        if wrap == 3 {
            self.ctx.push(Entry { name: wrap_name.clone(), ty: GT::Type, alias_of: None, usable: false, recursive_fn: false });
        }
        let mut rec_names = vec![];
        if wrap == 4 {
            for hint in ["trec", "tn", "tk"] {
                let n = self.fresh_name(hint);
                self.ctx.push(Entry { name: n.clone(), ty: GT::Int, alias_of: None, usable: false, recursive_fn: false });
                rec_names.push(n);
            }
        }
        let base = match t {
            GT::Int => H::Int,
            GT::Bool => H::Bool,
            GT::Type => H::Type,
            GT::TVar(a) => H::Var(a.clone()),
            GT::Dep(k) => {
                let i = self.fresh_name("ix");
                let fam = || k.family(H::Var(i.clone()));
                H::Pi(i.clone(), false, hb(k.index_type()), hb(H::Pi("_".into(), false, hb(fam()), hb(fam()))))
            }
            GT::Opaque => H::Type,
            GT::Arrow(d, c) => {
                let dh = self.ty_h(d);
                if self.r.chance(1, 8) {
                    // a named but unused parameter (in scope, hence reserved, while the codomain is generated)
                    let n = self.fresh_name("u");
                    self.ctx.push(Entry { name: n.clone(), ty: (**d).clone(), alias_of: None, usable: false, recursive_fn: false });
                    let ch = self.ty_h(c);
                    self.ctx.pop();
                    H::Pi(n, false, hb(dh), hb(ch))
                } else {
                    let ch = self.ty_h(c);
                    H::Pi("_".into(), false, hb(dh), hb(ch))
                }
            }
            GT::Forall(a, b) => {
                self.ctx.push(Entry { name: a.clone(), ty: GT::Type, alias_of: None, usable: true, recursive_fn: false });
                let bh = self.ty_h(b);
                self.ctx.pop();
                H::Pi(a.clone(), false, hb(H::Type), hb(bh))
            }
        };
        self.ctx.truncate(mark);
        match wrap {
            1 => {
                self.feature("type-level-redex");
                H::App(hb(H::Lam(wrap_name.clone(), false, Some(hb(H::Type)), hb(H::Var(wrap_name)))), hb(base))
            }
            2 => {
                self.feature("type-level-conditional");
                let other = if self.r.chance(1, 2) { H::Bool } else { H::Int };
                match self.r.below(4) {
                    0 => H::If(hb(H::True), hb(base), hb(other)),
                    1 => H::If(hb(H::Bin(Op::Lt, hb(H::lit(2)), hb(H::lit(1)))), hb(other), hb(base)),
                    _ => {
                        // a computed condition on small literals, boundary-equal operands included
                        let (x, y) = (self.r.below(4) as i64, self.r.below(4) as i64);
                        let op = [Op::Lt, Op::Le, Op::Eq, Op::Gt, Op::Ge][self.r.usize(5)];
                        let truth = match op {
                            Op::Lt => x < y,
                            Op::Le => x <= y,
                            Op::Eq => x == y,
                            Op::Gt => x > y,
                            _ => x >= y,
                        };
                        let cond = H::Bin(op, hb(H::lit(x)), hb(H::lit(y)));
                        if truth { H::If(hb(cond), hb(base), hb(other)) } else { H::If(hb(cond), hb(other), hb(base)) }
                    }
                }
            }
            3 => {
                self.feature("type-level-definition");
                H::Paren(hb(H::Let(wrap_name.clone(), Some(hb(H::Type)), hb(base), hb(H::Var(wrap_name)))))
            }
            4 => {
                // a group inside the type: a recursive function that is not the last definition,
                // then a constant; the type is chosen by comparing a call with its closed form
                //   trec n = if n <= 0 then c else a + trec (n - 1)   ==>   trec m = c + a * m
                self.feature("type-level-recursive-group");
                let (trec, tn, tk) = (rec_names[0].clone(), rec_names[1].clone(), rec_names[2].clone());
                let (c, a, m) = (self.r.below(5) as i64, 1 + self.r.below(3) as i64, self.r.below(4) as i64);
                let other = if self.r.chance(1, 2) { H::Bool } else { H::Int };
                let var = |x: &String| H::Var(x.clone());
                let step = H::Bin(Op::Add, hb(H::lit(a)), hb(H::App(hb(var(&trec)), hb(H::Bin(Op::Sub, hb(var(&tn)), hb(H::lit(1)))))));
                let fun = H::Lam(tn.clone(), false, Some(hb(H::Int)), hb(H::If(hb(H::Bin(Op::Le, hb(var(&tn)), hb(H::lit(0)))), hb(H::lit(c)), hb(step))));
                let fty = H::Pi("_".into(), false, hb(H::Int), hb(H::Int));
                let call = H::App(hb(var(&trec)), hb(H::lit(m)));
                // the constant is a plain definition or a constant function (so that two adjacent
                // function definitions exist), before or after the recursive one
                let k_is_fun = self.r.chance(1, 3);
                let kref = if k_is_fun { H::App(hb(var(&tk)), hb(H::lit(0))) } else { var(&tk) };
                let (cond, truth) = match self.r.below(3) {
                    0 => (H::Bin(Op::Eq, hb(call), hb(kref)), true),
                    1 => (H::Bin(Op::Lt, hb(call), hb(kref)), false),
                    _ => (H::Bin(Op::Ge, hb(kref), hb(call)), true),
                };
                let body = if truth { H::If(hb(cond), hb(base), hb(other)) } else { H::If(hb(cond), hb(other), hb(base)) };
                let inferred = self.cfg.mode == Mode::Inferred;
                let fann = if inferred && self.r.chance(1, 3) { None } else { Some(hb(fty.clone())) };
                let (kty, kdef) = if k_is_fun {
                    let z = format!("{tn}z");
                    (fty, H::Lam(z, false, Some(hb(H::Int)), hb(H::lit(c + a * m))))
                } else {
                    (H::Int, H::lit(c + a * m))
                };
                let kann = if inferred && self.r.chance(1, 3) { None } else { Some(hb(kty)) };
                if self.r.chance(1, 2) {
                    H::Paren(hb(H::Let(trec, fann, hb(fun), hb(H::Let(tk, kann, hb(kdef), hb(body))))))
                } else {
                    H::Paren(hb(H::Let(tk, kann, hb(kdef), hb(H::Let(trec, fann, hb(fun), hb(body))))))
                }
            }
            _ => base,
        }
    }

    pub fn random_type(&mut self, depth: usize) -> GT {
        let tvars: Vec<String> = self.ctx.iter().filter(|e| e.usable && e.ty == GT::Type && e.alias_of.is_none()).map(|e| e.name.clone()).collect();
        match self.r.below(if depth == 0 { 4 } else { 7 }) {
            0 | 1 => GT::Int,
            2 => GT::Bool,
            3 => {
                let inhabited: Vec<String> = tvars.into_iter().filter(|a| self.ctx.iter().any(|e| e.usable && e.ty == GT::TVar(a.clone()))).collect();
                if !inhabited.is_empty() && self.r.chance(1, 2) {
                    GT::TVar(inhabited[self.r.usize(inhabited.len())].clone())
                } else {
                    GT::Int
                }
            }
            _ => GT::arrow(self.random_type(depth - 1), self.random_type(depth - 1)),
        }
    }

    // ---------------------------------------------------------------------------------------
    // Terms by goal type

    fn int_literal(&mut self) -> H {
        let v: BigInt = if self.cfg.big_ints && self.r.chance(1, 5) {
            match self.r.below(6) {
                0 => BigInt::from(1u8) << 63,
                1 => BigInt::from(1u8) << 64,
                2 => (BigInt::from(1u8) << 64) + 1,
                3 => (BigInt::from(1u8) << 200) + BigInt::from(self.r.below(1000)),
                4 => BigInt::from(u64::MAX),
                _ => BigInt::from(self.r.next()) * BigInt::from(self.r.next()) * BigInt::from(self.r.next()),
            }
        } else {
            let cap = if self.r.chance(1, 3) { 4 } else { 100 };
            BigInt::from(self.r.below(cap))
        };
        H::Lit(v)
    }

    fn candidates(&self, t: &GT) -> Vec<(String, Vec<Arg>, bool)> {
        // variables whose type, after applying it to some arguments (type arguments for
        // polymorphic ones), is `t`: (name, arguments, recursive)
        let mut v = vec![];
        for e in self.ctx.iter().filter(|e| e.usable) {
            let mut stack: Vec<(GT, Vec<Arg>)> = vec![(e.ty.clone(), vec![])];
            let mut guard = 0;
            while let Some((cur, args)) = stack.pop() {
                guard += 1;
                if guard > 40 || args.len() > 5 {
                    continue;
                }
                if &cur == t {
                    v.push((e.name.clone(), args.clone(), e.recursive_fn));
                }
                match &cur {
                    GT::Dep(k) => {
                        if *t == GT::Int || *t == GT::Bool {
                            let mut a = args.clone();
                            a.push(Arg::DepIndex(*k, *t == GT::Int));
                            a.push(Arg::Term(t.clone()));
                            v.push((e.name.clone(), a, false));
                        }
                    }
                    GT::Arrow(d, c) => {
                        let mut a = args.clone();
                        a.push(Arg::Term((**d).clone()));
                        stack.push(((**c).clone(), a));
                    }
                    GT::Forall(a, b) => {
                        for inst in [t.result().clone(), GT::Int, GT::Bool] {
                            if matches!(inst, GT::Forall(..) | GT::Type) {
                                continue;
                            }
                            let mut na = args.clone();
                            na.push(Arg::Type(inst.clone()));
                            stack.push((b.subst(a, &inst), na));
                        }
                    }
                    _ => {}
                }
            }
        }
        v
    }

    pub fn term(&mut self, t: &GT, depth: usize) -> H {
        self.budget -= 1;
        let small = depth == 0 || self.budget <= 0;
        // use something from the context
        let cands = self.candidates(t);
        if !cands.is_empty() && self.r.chance(if small { 3 } else { 2 }, 5) {
            let (name, args, rec) = cands[self.r.usize(cands.len())].clone();
            if args.is_empty() || !small || args.len() <= 1 {
                let mut h = H::Var(name);
                for a in &args {
                    let arg = match a {
                        Arg::Type(ty) => {
                            self.feature("type-application");
                            self.ty_h(ty)
                        }
                        Arg::DepIndex(k, want_int) => {
                            self.feature("dependent-family-application");
                            k.index_for(*want_int, self.r)
                        }
                        Arg::Term(_) if rec => H::lit(self.r.below(7) as i64),
                        Arg::Term(a) => self.term(a, depth.saturating_sub(1)),
                    };
                    h = H::App(hb(h), hb(arg));
                }
                if !args.is_empty() {
                    self.feature("application-of-variable");
                }
                return h;
            }
        }
        if small {
            return self.leaf(t);
        }
        let d = depth - 1;
        if self.cfg.trap && self.traps_planted == 0 && t.is_ground() && self.r.chance(1, 3) {
            // a value of the other ground type, in a group that also defines (unused) aliases of
            // the expected type: only a checker that confuses the members of a group accepts it
            self.traps_planted += 1;
            self.feature("trap:wrong-type-behind-decoy-definitions");
            let other = if *t == GT::Int { GT::Bool } else { GT::Int };
            return H::Paren(hb(self.alias_typed_group(&other, d, Some(t.clone()))));
        }
        match self.r.below(10) {
            0 => {
                // conditional
                self.feature("conditional");
                let c = self.term(&GT::Bool, d);
                let a = self.term(t, d);
                let b = self.term(t, d);
                H::If(hb(c), hb(a), hb(b))
            }
            1 => {
                // beta redex
                self.feature("beta-redex");
                let at = self.random_type(1);
                let n = self.fresh_name("");
                let ah = self.ty_h(&at);
                self.ctx.push(Entry { name: n.clone(), ty: at.clone(), alias_of: None, usable: true, recursive_fn: false });
                let body = self.term(t, d);
                self.ctx.pop();
                let arg = self.term(&at, d);
                let dom = if self.cfg.mode == Mode::Inferred && self.r.chance(1, 3) { None } else { Some(hb(ah)) };
                H::App(hb(H::Lam(n, false, dom, hb(body))), hb(arg))
            }
            2 | 3 => self.group(t, d),
            _ => self.construct(t, d),
        }
    }

    fn leaf(&mut self, t: &GT) -> H {
        match t {
            GT::Int => self.int_literal(),
            GT::Bool => {
                if self.r.chance(1, 2) {
                    H::True
                } else {
                    H::False
                }
            }
            GT::Type => {
                let ty = self.random_type(0);
                self.ty_h(&ty)
            }
            GT::Arrow(a, b) => {
                let n = self.fresh_name("");
                let ah = self.ty_h(a);
                self.ctx.push(Entry { name: n.clone(), ty: (**a).clone(), alias_of: None, usable: true, recursive_fn: false });
                let body = self.leaf_or_var(b);
                self.ctx.pop();
                H::Lam(n, false, Some(hb(ah)), hb(body))
            }
            GT::Forall(a, b) => {
                self.ctx.push(Entry { name: a.clone(), ty: GT::Type, alias_of: None, usable: true, recursive_fn: false });
                let body = self.leaf_or_var(b);
                self.ctx.pop();
                H::Lam(a.clone(), false, Some(hb(H::Type)), hb(body))
            }
            GT::Opaque => H::Type,
            GT::Dep(k) => {
                let i = self.fresh_name("ix");
                let x = self.fresh_name("dx");
                H::Lam(i.clone(), false, Some(hb(k.index_type())), hb(H::Lam(x.clone(), false, Some(hb(k.family(H::Var(i)))), hb(H::Var(x)))))
            }
            GT::TVar(_) => {
                // only reachable through a variable of that type
                let c = self.candidates(t);
                let direct: Vec<&(String, Vec<Arg>, bool)> = c.iter().filter(|x| x.1.is_empty()).collect();
                if direct.is_empty() { H::var("_") } else { H::Var(direct[self.r.usize(direct.len())].0.clone()) }
            }
        }
    }

    fn leaf_or_var(&mut self, t: &GT) -> H {
        let c = self.candidates(t);
        let direct: Vec<String> = c.iter().filter(|x| x.1.is_empty()).map(|x| x.0.clone()).collect();
        if !direct.is_empty() && self.r.chance(2, 3) { H::Var(direct[self.r.usize(direct.len())].clone()) } else { self.leaf(t) }
    }

    fn construct(&mut self, t: &GT, d: usize) -> H {
        match t {
            GT::Int => match self.r.below(8) {
                0 => self.leaf(t),
                1 => {
                    self.feature("negation");
                    H::Neg(hb(self.term(&GT::Int, d)))
                }
                2 => {
                    // division: by a literal that is usually nonzero
                    self.feature("division");
                    let a = self.term(&GT::Int, d);
                    let b = if self.r.chance(1, 3) { self.term(&GT::Int, d) } else { H::lit(1 + self.r.below(9) as i64) };
                    H::Bin(Op::Div, hb(a), hb(b))
                }
                _ => {
                    self.feature("arithmetic");
                    let op = [Op::Add, Op::Sub, Op::Mul][self.r.usize(3)];
                    let a = self.term(&GT::Int, d);
                    let b = self.term(&GT::Int, d);
                    H::Bin(op, hb(a), hb(b))
                }
            },
            GT::Bool => {
                if self.r.chance(1, 4) {
                    self.leaf(t)
                } else {
                    self.feature("comparison");
                    let op = [Op::Lt, Op::Le, Op::Eq, Op::Gt, Op::Ge][self.r.usize(5)];
                    let a = self.term(&GT::Int, d);
                    let b = if self.r.chance(1, 4) { a.clone() } else { self.term(&GT::Int, d) };
                    H::Bin(op, hb(a), hb(b))
                }
            }
            GT::Type => {
                let ty = self.random_type(2);
                self.ty_h(&ty)
            }
            GT::Arrow(a, b) => {
                self.feature("lambda");
                let n = self.fresh_name("");
                let ah = self.ty_h(a);
                self.ctx.push(Entry { name: n.clone(), ty: (**a).clone(), alias_of: None, usable: true, recursive_fn: false });
                let body = self.term(b, d);
                self.ctx.pop();
                let dom = if self.cfg.mode == Mode::Inferred && self.r.chance(1, 3) { None } else { Some(hb(ah)) };
                H::Lam(n, false, dom, hb(body))
            }
            GT::Forall(a, b) => {
                self.feature("type-abstraction");
                self.ctx.push(Entry { name: a.clone(), ty: GT::Type, alias_of: None, usable: true, recursive_fn: false });
                let body = self.term(b, d);
                self.ctx.pop();
                H::Lam(a.clone(), false, Some(hb(H::Type)), hb(body))
            }
            GT::TVar(_) | GT::Dep(_) | GT::Opaque => self.leaf(t),
        }
    }

    // ---------------------------------------------------------------------------------------
    // Definition groups

    fn annotation(&mut self, t: &GT) -> Option<Box<H>> {
        if self.cfg.mode == Mode::Inferred {
            match self.r.below(4) {
                0 => return None,
                1 => return Some(hb(H::var("_"))),
                _ => {}
            }
        }
        Some(hb(self.ty_h(t)))
    }

    // A group whose body is typed through a chain of the group's own aliases:
    //   v : ta = <value>; ta : type = tb; tb : type = <type>; [other definitions]; v
    // so that the type of the body mentions the group's variables (the group-type reconstruction
    // of the checker has to substitute the definitions into it).
    fn alias_typed_group(&mut self, t: &GT, d: usize, decoy: Option<GT>) -> H {
        self.feature("body-typed-by-group-alias-chain");
        let chain = 1 + self.r.usize(3);
        let mark = self.ctx.len();
        // every name of the group is reserved before anything nested is generated
        let mut reserve = |g: &mut Self, hint: &str, ty: GT, alias_of: Option<GT>| -> String {
            let n = g.fresh_name(hint);
            g.ctx.push(Entry { name: n.clone(), ty, alias_of, usable: false, recursive_fn: false });
            n
        };
        let v = reserve(self, if decoy.is_some() { "trapped" } else { "aliased" }, t.clone(), None);
        let mut alias_names = vec![];
        for _ in 0..chain {
            alias_names.push(reserve(self, "t", GT::Type, Some(t.clone())));
        }
        let decoy_ty = match decoy {
            Some(t) => Some(t),
            None if self.r.chance(1, 2) => Some(if *t == GT::Int { GT::Bool } else { GT::Int }),
            None => None,
        };
        let mut decoy_names = vec![];
        if decoy_ty.is_some() {
            for _ in 0..1 + self.r.usize(2) {
                decoy_names.push(reserve(self, "decoy", GT::Type, None));
            }
        }
        let inc_names = if *t == GT::Int && self.r.chance(1, 2) { Some((reserve(self, "inc", GT::Opaque, None), reserve(self, "y", GT::Int, None))) } else { None };
        let univ_name = if self.r.chance(1, 4) { Some(reserve(self, "univ", GT::Type, None)) } else { None };
        let mk_names = if self.r.chance(1, 3) { Some((reserve(self, "mk", GT::Opaque, None), reserve(self, "my", GT::Int, None))) } else { None };
        // optional extra definition after the chain
        let extra = if self.r.chance(1, 2) {
            let ty = self.random_type(1);
            let n = reserve(self, "", ty.clone(), None);
            let ann = self.annotation(&ty);
            let def = self.term(&ty, d.min(2));
            Some((n, ann, def))
        } else {
            None
        };
        let value = self.leaf(t);
        let concrete = self.ty_h(t);
        let mut defs: Vec<(String, Option<Box<H>>, H)> = vec![(v.clone(), Some(hb(H::Var(alias_names[0].clone()))), value)];
        // The definition-order rule lets a computed definition (an alias that is just another
        // alias is one) mention only earlier definitions or definitions that are values. So either
        // a forward chain of length two (t = u; u = <type>), or the chain written backwards.
        let concrete_is_value = matches!(concrete, H::Int | H::Bool | H::Type | H::Pi(..));
        if chain == 2 && concrete_is_value && self.r.chance(1, 2) {
            defs.push((alias_names[0].clone(), Some(hb(H::Type)), H::Var(alias_names[1].clone())));
            defs.push((alias_names[1].clone(), Some(hb(H::Type)), concrete.clone()));
        } else {
            for i in (0..chain).rev() {
                let def = if i + 1 < chain { H::Var(alias_names[i + 1].clone()) } else { concrete.clone() };
                let ann = if self.cfg.mode == Mode::Inferred && self.r.chance(1, 2) { None } else { Some(hb(H::Type)) };
                defs.push((alias_names[i].clone(), ann, def));
            }
        }
        if let Some((n, ann, def)) = extra {
            defs.push((n, ann, def));
        }
        // a function whose parameter is typed by the first alias (unfolded one binder deeper),
        // applied to the aliased value
        let mut body = H::Var(v.clone());
        if let Some((f, y)) = inc_names {
            self.feature("alias-unfolded-under-binder");
            let a0 = H::Var(alias_names[0].clone());
            let ann = if self.cfg.mode == Mode::Inferred && self.r.chance(1, 2) { None } else { Some(hb(H::Pi("_".into(), false, hb(a0.clone()), hb(H::Int)))) };
            defs.push((f.clone(), ann, H::Lam(y.clone(), false, Some(hb(a0)), hb(H::Bin(Op::Add, hb(H::Var(y)), hb(H::lit(1)))))));
            body = H::App(hb(H::Var(f)), hb(H::Var(v.clone())));
        }
        // a function whose *codomain* is the first alias (whose own type may be an alias of the
        // universe rather than the literal `type`)
        if let Some((f, y)) = mk_names {
            self.feature("alias-as-codomain");
            let a0 = H::Var(alias_names[0].clone());
            let ann = if self.cfg.mode == Mode::Inferred && self.r.chance(1, 2) { None } else { Some(hb(H::Pi(if self.r.chance(1, 2) { y.clone() } else { "_".into() }, false, hb(H::Int), hb(a0)))) };
            defs.push((f.clone(), ann, H::Lam(y, false, Some(hb(H::Int)), hb(H::Var(v.clone())))));
            let call = H::App(hb(H::Var(f)), hb(H::lit(self.r.below(5) as i64)));
            body = match body {
                H::App(inc, _) => H::App(inc, hb(call)),
                _ => call,
            };
        }
        // sometimes the aliases are typed by an alias of the universe itself
        if let Some(u) = univ_name {
            self.feature("alias-of-the-universe");
            for d in defs.iter_mut().skip(1).take(chain) {
                if d.1.is_some() {
                    d.1 = Some(hb(H::Var(u.clone())));
                }
            }
            defs.insert(1, (u, Some(hb(H::Type)), H::Type));
        }
        // decoys: unused aliases of another type, anywhere after the first definition
        if let Some(dt) = decoy_ty {
            self.feature("decoy-alias-in-group");
            let dh = type_to_h(&dt);
            for n in decoy_names {
                let at = 1 + self.r.usize(defs.len());
                let ann = if self.cfg.mode == Mode::Inferred && self.r.chance(1, 2) { None } else { Some(hb(H::Type)) };
                defs.insert(at, (n, ann, dh.clone()));
            }
        }
        self.ctx.truncate(mark);
        let mut h = body;
        for (nm, ann, def) in defs.into_iter().rev() {
            h = H::Let(nm, ann, hb(def), hb(h));
        }
        h
    }

    pub fn group(&mut self, t: &GT, d: usize) -> H {
        let inhabited = !matches!(t, GT::TVar(_)) || self.candidates(t).iter().any(|c| c.1.is_empty());
        if self.cfg.type_level && !matches!(t, GT::Type | GT::Forall(..) | GT::Dep(_)) && inhabited && self.r.chance(1, 8) {
            return self.alias_typed_group(t, d, None);
        }
        self.feature("definition-group");
        #[derive(Clone)]
        enum Kind {
            Plain(GT),
            RecFn,
            MutualA,
            MutualB,
            Poly(u8),
            DepFn(DepKind),
            DepCoerce,
            Alias(GT),
            AliasedValue(usize), // value whose annotation is the alias defined at that (possibly later) index
            Placeholder(GT),     // `_ = <term>`: occupies a slot of the group, binds nothing
            // a type family defined by recursion on its index, an identity at that family, a
            // caller at a neutral index, and a value typed through the family at a literal index
            PadFam(GT),
            PadGet,
            PadUse,
            PadVal(GT, u8),
            // an implicit function (it can be defined, passed and compared, never applied) and a
            // copy of it obtained through an identity at its type
            ImplicitFn(GT, GT),
            ImplicitKept,
        }
        let n = 1 + self.r.usize(4);
        let mut kinds: Vec<Kind> = vec![];
        while kinds.len() < n {
            match self.r.below(12) {
                0 | 1 if self.cfg.recursion => kinds.push(Kind::RecFn),
                2 if self.cfg.recursion && kinds.len() + 2 <= n + 1 => {
                    kinds.push(Kind::MutualA);
                    kinds.push(Kind::MutualB);
                }
                3 | 4 => kinds.push(Kind::Poly(self.r.below(5) as u8)),
                8 if self.cfg.type_level => kinds.push(Kind::DepCoerce),
                7 if self.cfg.type_level => {
                    let k = if self.r.chance(1, 2) { DepKind::BoolIndexed } else { DepKind::IntIndexed(self.r.below(5) as u8, self.r.range(-2, 3)) };
                    kinds.push(Kind::DepFn(k));
                }
                5 if self.cfg.type_level => {
                    let ty = self.random_type(1);
                    if !ty.mentions_tvar() || self.r.chance(1, 2) {
                        kinds.push(Kind::Alias(ty));
                    }
                }
                6 if self.cfg.type_level => {
                    // forward type alias: value first, alias afterwards
                    let ty = if self.r.chance(1, 2) { GT::Int } else { GT::Bool };
                    let at = kinds.len();
                    kinds.push(Kind::AliasedValue(at + 1));
                    kinds.push(Kind::Alias(ty));
                }
                9 => {
                    let ty = self.random_type(1);
                    kinds.push(Kind::Placeholder(ty));
                }
                11 if self.r.chance(1, 2) => {
                    let a = if self.r.chance(1, 2) { GT::Int } else { GT::Bool };
                    let b = if self.r.chance(1, 2) { GT::Int } else { GT::Bool };
                    kinds.push(Kind::ImplicitFn(a, b));
                    kinds.push(Kind::ImplicitKept);
                }
                10 if self.cfg.type_level && self.cfg.recursion && self.cfg.rec_families && self.r.chance(1, 3) => {
                    let ty = if self.r.chance(1, 2) { GT::Int } else { GT::Bool };
                    kinds.push(Kind::PadFam(ty.clone()));
                    kinds.push(Kind::PadGet);
                    kinds.push(Kind::PadUse);
                    kinds.push(Kind::PadVal(ty, self.r.below(4) as u8));
                }
                _ => {
                    let ty = self.random_type(2);
                    kinds.push(Kind::Plain(ty));
                }
            }
        }
        let n = kinds.len();
        // a recursive function may mention a later ground-typed definition of the group
        let mut late_ref: Vec<Option<usize>> = vec![None; n];
        for i in 0..n {
            if matches!(kinds[i], Kind::RecFn) && self.r.chance(1, 2) {
                let later: Vec<usize> = (i + 1..n).filter(|j| matches!(&kinds[*j], Kind::Plain(GT::Int) | Kind::Plain(GT::Bool))).collect();
                if !later.is_empty() {
                    late_ref[i] = Some(later[self.r.usize(later.len())]);
                }
            }
        }
        // names and types
        let mut names = vec![];
        let mut types = vec![];
        for k in &kinds {
            let (hint, ty) = match k {
                Kind::Plain(t) => ("", t.clone()),
                Kind::Placeholder(t) => ("_", t.clone()),
                Kind::ImplicitFn(..) => ("imp", GT::Opaque),
                Kind::ImplicitKept => ("kept", GT::Opaque),
                Kind::PadFam(_) => ("pad", GT::Opaque),
                Kind::PadGet => ("get", GT::Opaque),
                Kind::PadUse => ("use", GT::Opaque),
                Kind::PadVal(t, _) => ("padded", t.clone()),
                Kind::RecFn => ("rec", GT::arrow(GT::Int, GT::Int)),
                Kind::MutualA => ("even", GT::arrow(GT::Int, GT::Bool)),
                Kind::MutualB => ("odd", GT::arrow(GT::Int, GT::Bool)),
                Kind::Poly(i) => {
                    let tv = |x: &str| GT::TVar(x.to_owned());
                    let fa = |x: &str, b: GT| GT::Forall(x.to_owned(), Box::new(b));
                    let ar = GT::arrow;
                    match i {
                        0 => ("id", fa("a", ar(tv("a"), tv("a")))),
                        1 => ("const", fa("a", fa("b", ar(tv("a"), ar(tv("b"), tv("a")))))),
                        2 => ("apply", fa("a", fa("b", ar(ar(tv("a"), tv("b")), ar(tv("a"), tv("b")))))),
                        3 => ("twice", fa("a", ar(ar(tv("a"), tv("a")), ar(tv("a"), tv("a"))))),
                        _ => ("compose", fa("a", fa("b", fa("c", ar(ar(tv("b"), tv("c")), ar(ar(tv("a"), tv("b")), ar(tv("a"), tv("c")))))))),
                    }
                }
                Kind::DepFn(k) => ("dep", GT::Dep(*k)),
                Kind::DepCoerce => ("coerce", GT::Opaque),
                Kind::Alias(_) => ("t", GT::Type),
                Kind::AliasedValue(j) => match &kinds[*j] {
                    Kind::Alias(t) => ("aliased", t.clone()),
                    _ => ("aliased", GT::Int),
                },
            };
            // type variables bound by Forall must not clash with names in scope
            let ty = rename_tvars(&ty, &mut |a| {
                self.fresh += 1;
                format!("{a}{}", self.fresh)
            });
            let name = if hint == "_" { "_".to_owned() } else { self.fresh_name(hint) };
            self.ctx.push(Entry { name: name.clone(), ty: ty.clone(), alias_of: None, usable: false, recursive_fn: matches!(k, Kind::RecFn | Kind::MutualA | Kind::MutualB) });
            names.push(name);
            types.push(ty);
        }
        let base = self.ctx.len() - n;
        for (i, k) in kinds.iter().enumerate() {
            if let Kind::Alias(t) = k {
                self.ctx[base + i].alias_of = Some(t.clone());
            }
        }
        // definitions. Discipline (matches gram's definition-order check): a definition that is
        // a syntactic value may mention any *function-valued* definition of the group; any other
        // definition may mention earlier definitions and later function-valued ones whose bodies
        // mention only function-valued definitions. Annotations may mention every alias.
        let is_fn: Vec<bool> = kinds.iter().map(|k| matches!(k, Kind::RecFn | Kind::MutualA | Kind::MutualB | Kind::Poly(_) | Kind::DepFn(_) | Kind::DepCoerce | Kind::PadFam(_) | Kind::PadGet | Kind::PadUse | Kind::ImplicitFn(..))).collect();
        let mut defs: Vec<(String, Option<Box<H>>, H)> = vec![];
        for i in 0..n {
            // annotation: every alias of the group is usable there (forward references in types)
            for j in 0..n {
                self.ctx[base + j].usable = matches!(kinds[j], Kind::Alias(_));
            }
            let ann = match &kinds[i] {
                Kind::DepCoerce | Kind::PadFam(_) | Kind::PadGet | Kind::PadUse | Kind::PadVal(..) | Kind::ImplicitFn(..) | Kind::ImplicitKept => None,
                Kind::AliasedValue(j) => {
                    self.feature("forward-type-alias");
                    Some(hb(H::Var(names[*j].clone())))
                }
                _ => self.annotation(&types[i]),
            };
            // definition body
            for j in 0..n {
                // a function that mentions a later non-function definition is off limits to other
                // functions, and to computed definitions up to that position
                self.ctx[base + j].usable = if is_fn[i] { is_fn[j] && late_ref[j].is_none() } else { j < i || (is_fn[j] && late_ref[j].map_or(true, |l| l < i)) };
                if matches!(kinds[j], Kind::Alias(_)) && j > i && !is_fn[i] {
                    // a later alias is a value definition: available to annotations inside, but keep it simple
                    self.ctx[base + j].usable = false;
                }
                if names[j] == "_" || (j < i && is_fn[j] && late_ref[j].map_or(false, |l| l >= i)) {
                    self.ctx[base + j].usable = false;
                }
            }
            let def = match &kinds[i] {
                Kind::Plain(t) => self.term(t, d),
                Kind::Placeholder(t) => {
                    self.feature("placeholder-definition-in-group");
                    self.term(t, d.min(2))
                }
                Kind::Alias(t) => self.ty_h(&t.clone()),
                Kind::AliasedValue(_) => {
                    let t = types[i].clone();
                    self.leaf(&t)
                }
                Kind::RecFn => {
                    self.feature("recursive-function");
                    let p = self.fresh_name("n");
                    let me = names[i].clone();
                    for j in 0..n {
                        self.ctx[base + j].usable = false;
                    }
                    self.ctx.push(Entry { name: p.clone(), ty: GT::Int, alias_of: None, usable: true, recursive_fn: false });
                    let mut base_case = self.term(&GT::Int, d.min(1));
                    if let Some(l) = late_ref[i] {
                        self.feature("recursive-function-mentions-later-definition");
                        let g = H::Var(names[l].clone());
                        base_case = if types[l] == GT::Int { H::Bin(Op::Add, hb(g), hb(base_case)) } else { H::If(hb(g), hb(base_case), hb(H::lit(self.r.below(50) as i64))) };
                    }
                    let step_op = [Op::Add, Op::Mul, Op::Sub][self.r.usize(3)];
                    let extra = self.term(&GT::Int, d.min(1));
                    self.ctx.pop();
                    let call = H::App(hb(H::Var(me)), hb(H::Bin(Op::Sub, hb(H::Var(p.clone())), hb(H::lit(1)))));
                    let body = H::If(
                        hb(H::Bin(Op::Le, hb(H::Var(p.clone())), hb(H::lit(0)))),
                        hb(base_case.clone()),
                        hb(H::If(hb(H::Bin(Op::Gt, hb(H::Var(p.clone())), hb(H::lit(24)))), hb(base_case), hb(H::Bin(step_op, hb(extra), hb(call))))),
                    );
                    H::Lam(p, false, Some(hb(H::Int)), hb(body))
                }
                Kind::MutualA | Kind::MutualB => {
                    self.feature("mutual-recursion");
                    let p = self.fresh_name("n");
                    let other = if matches!(kinds[i], Kind::MutualA) { names[i + 1].clone() } else { names[i - 1].clone() };
                    let base_val = if matches!(kinds[i], Kind::MutualA) { H::True } else { H::False };
                    let call = H::App(hb(H::Var(other)), hb(H::Bin(Op::Sub, hb(H::Var(p.clone())), hb(H::lit(1)))));
                    let body = H::If(hb(H::Bin(Op::Le, hb(H::Var(p.clone())), hb(H::lit(0)))), hb(base_val.clone()), hb(H::If(hb(H::Bin(Op::Gt, hb(H::Var(p.clone())), hb(H::lit(40)))), hb(base_val), hb(call))));
                    H::Lam(p, false, Some(hb(H::Int)), hb(body))
                }
                Kind::ImplicitFn(..) | Kind::ImplicitKept => {
                    self.feature("implicit-function");
                    let f0 = (0..=i).rev().find(|j| matches!(kinds[*j], Kind::ImplicitFn(..))).unwrap_or(i);
                    let (a, b) = match &kinds[f0] {
                        Kind::ImplicitFn(a, b) => (a.clone(), b.clone()),
                        _ => (GT::Int, GT::Int),
                    };
                    let u = self.fresh_name("u");
                    // the function type, dependent in form (named parameter), implicit
                    let fty = |name: &str| H::Pi(name.to_owned(), true, hb(type_to_h(&a)), hb(type_to_h(&b)));
                    let inferred = self.cfg.mode == Mode::Inferred;
                    let (ann, def) = if matches!(kinds[i], Kind::ImplicitFn(..)) {
                        self.ctx.push(Entry { name: u.clone(), ty: a.clone(), alias_of: None, usable: true, recursive_fn: false });
                        for j in 0..n {
                            self.ctx[base + j].usable = false;
                        }
                        let body = self.term(&b, d.min(2));
                        self.ctx.pop();
                        (fty(&u), H::Lam(u.clone(), true, if inferred && self.r.chance(1, 3) { None } else { Some(hb(type_to_h(&a))) }, hb(body)))
                    } else {
                        let h = self.fresh_name("h");
                        let v = self.fresh_name("w");
                        (fty(&v), H::App(hb(H::Lam(h.clone(), false, Some(hb(fty(&u))), hb(H::Var(h)))), hb(H::Var(names[f0].clone()))))
                    };
                    let ann = if inferred && self.r.chance(1, 3) { None } else { Some(hb(ann)) };
                    defs.push((names[i].clone(), ann, def));
                    continue;
                }
                Kind::PadFam(_) | Kind::PadGet | Kind::PadUse | Kind::PadVal(..) => {
                    self.feature("recursive-type-family");
                    // locate the family's four names
                    let f0 = (0..=i).rev().find(|j| matches!(kinds[*j], Kind::PadFam(_))).unwrap_or(i);
                    let (pad, get, usef) = (names[f0].clone(), names[f0 + 1].clone(), names[f0 + 2].clone());
                    let var = |x: &str| H::Var(x.to_owned());
                    let app = |f: H, a: H| H::App(hb(f), hb(a));
                    let inferred = self.cfg.mode == Mode::Inferred;
                    let (ann, def) = match &kinds[i] {
                        Kind::PadFam(t) => {
                            let n = self.fresh_name("n");
                            let body = H::If(hb(H::Bin(Op::Le, hb(var(&n)), hb(H::lit(0)))), hb(type_to_h(t)), hb(app(var(&pad), H::Bin(Op::Sub, hb(var(&n)), hb(H::lit(1))))));
                            (H::Pi("_".into(), false, hb(H::Int), hb(H::Type)), H::Lam(n, false, Some(hb(H::Int)), hb(body)))
                        }
                        Kind::PadGet | Kind::PadUse => {
                            let n = self.fresh_name(if matches!(kinds[i], Kind::PadGet) { "n" } else { "m" });
                            self.ctx.push(Entry { name: n.clone(), ty: GT::Int, alias_of: None, usable: false, recursive_fn: false });
                            let x = self.fresh_name("");
                            self.ctx.pop();
                            let fam = app(var(&pad), var(&n));
                            let body = if matches!(kinds[i], Kind::PadGet) { var(&x) } else { app(app(var(&get), var(&n)), var(&x)) };
                            let dom = if inferred && self.r.chance(1, 3) { None } else { Some(hb(fam.clone())) };
                            (H::Pi(n.clone(), false, hb(H::Int), hb(H::Pi("_".into(), false, hb(fam.clone()), hb(fam)))), H::Lam(n, false, Some(hb(H::Int)), hb(H::Lam(x, false, dom, hb(body)))))
                        }
                        Kind::PadVal(t, k) => {
                            let k = H::lit(i64::from(*k));
                            let v = self.leaf(&t.clone());
                            let caller = if self.r.chance(1, 2) { var(&usef) } else { var(&get) };
                            (app(var(&pad), k.clone()), app(app(caller, k), v))
                        }
                        _ => unreachable!(),
                    };
                    let ann = if inferred && !matches!(kinds[i], Kind::PadFam(_)) && self.r.chance(1, 4) { None } else { Some(hb(ann)) };
                    defs.push((names[i].clone(), ann, def));
                    continue;
                }
                Kind::DepCoerce => {
                    self.feature("dependent-coercion-with-stuck-index");
                    let (ann, def) = self.dep_coerce();
                    defs.push((names[i].clone(), Some(hb(ann)), def));
                    continue;
                }
                Kind::DepFn(k) => {
                    self.feature("dependent-family-definition");
                    let i = self.fresh_name("ix");
                    self.ctx.push(Entry { name: i.clone(), ty: GT::Int, alias_of: None, usable: false, recursive_fn: false });
                    let x = self.fresh_name("");
                    self.ctx.pop();
                    H::Lam(i.clone(), false, Some(hb(k.index_type())), hb(H::Lam(x.clone(), false, Some(hb(k.family(H::Var(i)))), hb(H::Var(x)))))
                }
                Kind::Poly(_) => {
                    self.feature("polymorphic-definition");
                    let t = types[i].clone();
                    // earlier non-recursive polymorphic functions of the group may be called, at
                    // the type variables in scope (never itself or later ones: no cycles)
                    for j in 0..n {
                        self.ctx[base + j].usable = j < i && matches!(kinds[j], Kind::Poly(_));
                    }
                    self.poly_body(&t)
                }
            };
            defs.push((names[i].clone(), ann, def));
        }
        for j in 0..n {
            self.ctx[base + j].usable = names[j] != "_";
        }
        let mut body = self.term(t, d);
        // never a group directly in body position (it would join this group)
        let mut tries = 0;
        while matches!(body.strip(), H::Let(..)) {
            tries += 1;
            body = if tries > 2 { self.leaf(t) } else { self.term(t, d.min(1)) };
        }
        for _ in 0..n {
            self.ctx.pop();
        }
        let mut h = body;
        for (nm, ann, def) in defs.into_iter().rev() {
            h = H::Let(nm, ann, hb(def), hb(h));
        }
        h
    }

    // (n : int) -> F(e1) -> F(e2) = (n : int) => (x : F(e1)) => x  where F(i) = if i <cmp> k then
    // int else bool and e1, e2 are stuck integer expressions over n that are convertible (they
    // differ only in closed literal subterms, e.g. `n / 2` and `n / (1 + 1)`) but not identical.
    fn dep_coerce(&mut self) -> (H, H) {
        let n = self.fresh_name("n");
        self.ctx.push(Entry { name: n.clone(), ty: GT::Int, alias_of: None, usable: false, recursive_fn: false });
        let m = self.fresh_name("m");
        self.ctx.push(Entry { name: m.clone(), ty: GT::Int, alias_of: None, usable: false, recursive_fn: false });
        let fp = self.fresh_name("fam");
        self.ctx.push(Entry { name: fp.clone(), ty: GT::Opaque, alias_of: None, usable: false, recursive_fn: false });
        let x = self.fresh_name("x");
        self.ctx.truncate(self.ctx.len() - 3);
        let k = 1 + self.r.below(6) as i64;
        let lit_variants = |r: &mut Rng, k: i64| -> H {
            match r.below(4) {
                0 => H::lit(k),
                1 => H::Bin(Op::Add, hb(H::lit(k - 1)), hb(H::lit(1))),
                2 => H::Bin(Op::Sub, hb(H::lit(k + 3)), hb(H::lit(3))),
                _ => H::Bin(Op::Mul, hb(H::lit(1)), hb(H::lit(k))),
            }
        };
        // 0: concrete family `if e cmp c then int else bool`; 1: the family is a parameter of type
        // int -> type and the index a stuck arithmetic term; 2: a parameter of type bool -> type
        // and the index a stuck comparison. With an abstract family the two indices meet in
        // `unify` as they are (nothing above them is normalised first).
        let style = self.r.below(3);
        let two_vars = style != 0 && self.r.chance(1, 2);
        let op = if style == 2 { [Op::Lt, Op::Le, Op::Eq, Op::Gt, Op::Ge][self.r.usize(5)] } else { [Op::Add, Op::Sub, Op::Mul, Op::Div][self.r.usize(4)] };
        let left = self.r.chance(1, 2);
        // with two variables the literal variation sits in a `+ (k - k')` context, on both sides
        // or on neither (`m + 0` and `m` are not convertible: no algebra in conversion)
        let padded = two_vars && self.r.chance(2, 3);
        let mk = |r: &mut Rng| -> H {
            let nv = H::Var(n.clone());
            let other = if two_vars { H::Var(m.clone()) } else { lit_variants(r, k) };
            let other = if padded { H::Bin(Op::Add, hb(other), hb(H::Bin(Op::Sub, hb(H::lit(k)), hb(lit_variants(r, k))))) } else { other };
            if left { H::Bin(op, hb(nv), hb(other)) } else { H::Bin(op, hb(other), hb(nv)) }
        };
        let (e1, e2) = (mk(self.r), mk(self.r));
        let cmp = [Op::Lt, Op::Le, Op::Eq, Op::Gt, Op::Ge][self.r.usize(5)];
        let c0 = self.r.below(5) as i64;
        let fpc = fp.clone();
        let fam = move |e: H| if style == 0 { H::If(hb(H::Bin(cmp, hb(e), hb(H::lit(c0)))), hb(H::Int), hb(H::Bool)) } else { H::App(hb(H::Var(fpc.clone())), hb(e)) };
        let mut ann = H::Pi("_".into(), false, hb(fam(e1.clone())), hb(fam(e2)));
        let mut def = H::Lam(x.clone(), false, Some(hb(fam(e1))), hb(H::Var(x)));
        if two_vars {
            ann = H::Pi(m.clone(), false, hb(H::Int), hb(ann));
            def = H::Lam(m, false, Some(hb(H::Int)), hb(def));
        }
        ann = H::Pi(n.clone(), false, hb(H::Int), hb(ann));
        def = H::Lam(n, false, Some(hb(H::Int)), hb(def));
        if style != 0 {
            self.feature("dependent-coercion-under-abstract-family");
            let fty = H::Pi("_".into(), false, hb(if style == 2 { H::Bool } else { H::Int }), hb(H::Type));
            ann = H::Pi(fp.clone(), false, hb(fty.clone()), hb(ann));
            def = H::Lam(fp, false, Some(hb(fty)), hb(def));
        }
        (ann, def)
    }

    // The canonical implementation of a polymorphic type built from type abstractions and arrows.
    fn poly_body(&mut self, t: &GT) -> H {
        match t {
            GT::Forall(a, b) => {
                self.ctx.push(Entry { name: a.clone(), ty: GT::Type, alias_of: None, usable: true, recursive_fn: false });
                let body = self.poly_body(b);
                self.ctx.pop();
                H::Lam(a.clone(), false, Some(hb(H::Type)), hb(body))
            }
            GT::Arrow(d, c) => {
                let n = self.fresh_name("");
                let dh = self.ty_h(d);
                self.ctx.push(Entry { name: n.clone(), ty: (**d).clone(), alias_of: None, usable: true, recursive_fn: false });
                let body = self.poly_body(c);
                self.ctx.pop();
                H::Lam(n, false, Some(hb(dh)), hb(body))
            }
            other => {
                // build a term of the result type from the parameters in scope
                self.from_params(other, 3)
            }
        }
    }

    fn from_params(&mut self, t: &GT, depth: usize) -> H {
        // first attempt may call polymorphic functions in scope; if that leaves a goal nobody
        // inhabits (rendered as `_`), fall back to parameters only
        if depth >= 2 && self.r.chance(1, 2) {
            let h = self.from_params_with(t, depth, true);
            let mut holey = false;
            crate::props::c08::walk(&h, &mut |x| holey |= matches!(x, H::Var(n) if n == "_"));
            if !holey {
                return h;
            }
        }
        self.from_params_with(t, depth, false)
    }

    fn from_params_with(&mut self, t: &GT, depth: usize, poly_ok: bool) -> H {
        let c = self.candidates(t);
        // parameters applied to terms; optionally also polymorphic functions in scope
        // instantiated at types (type variables included)
        let local: Vec<(String, Vec<Arg>, bool)> = c.into_iter().filter(|x| !x.2 && x.1.iter().all(|a| matches!(a, Arg::Term(_)) || (poly_ok && matches!(a, Arg::Type(_))))).collect();
        if local.is_empty() || depth == 0 {
            return self.leaf(t);
        }
        let pick = local[self.r.usize(local.len())].clone();
        let mut h = H::Var(pick.0.clone());
        for a in &pick.1 {
            match a {
                Arg::Term(a) => {
                    let arg = self.from_params_with(a, depth - 1, poly_ok);
                    h = H::App(hb(h), hb(arg));
                }
                Arg::Type(ty) => {
                    self.feature("polymorphic-call-at-type-variable");
                    let arg = type_to_h(ty);
                    h = H::App(hb(h), hb(arg));
                }
                Arg::DepIndex(..) => {}
            }
        }
        h
    }
}

fn rename_tvars(t: &GT, fresh: &mut dyn FnMut(&str) -> String) -> GT {
    match t {
        GT::Forall(a, b) => {
            let na = fresh(a);
            let nb = b.subst(a, &GT::TVar(na.clone()));
            GT::Forall(na, Box::new(rename_tvars(&nb, fresh)))
        }
        GT::Arrow(d, c) => GT::arrow(rename_tvars(d, fresh), rename_tvars(c, fresh)),
        other => other.clone(),
    }
}

pub struct Program {
    pub h: H,
    pub ty: GT,
    pub mode: Mode,
    pub features: Vec<&'static str>,
}

pub fn gen_program_of(r: &mut Rng, mode: Mode, ty: &GT) -> Program {
    gen_program_with(r, mode, ty, true)
}

pub fn gen_program_with(r: &mut Rng, mode: Mode, ty: &GT, recursion: bool) -> Program {
    let size = 4 + r.usize(30);
    let cfg = Cfg { mode, size, effects: false, big_ints: r.chance(1, 3), type_level: r.chance(2, 3), recursion, rec_families: true, trap: false };
    let depth = 2 + r.usize(3);
    let mut g = ProgGen::new(r, cfg);
    let h = if g.r.chance(1, 2) { g.group(ty, depth) } else { g.term(ty, depth) };
    Program { h, ty: ty.clone(), mode, features: g.features.clone() }
}

// A program with exactly one planted type error (see Cfg::trap); None if no trap was planted.
pub fn gen_trap_program(r: &mut Rng, mode: Mode) -> Option<Program> {
    let size = 8 + r.usize(30);
    let cfg = Cfg { mode, size, effects: false, big_ints: false, type_level: true, recursion: r.chance(1, 2), rec_families: true, trap: true };
    let depth = 3 + r.usize(3);
    let mut g = ProgGen::new(r, cfg);
    let ty = if g.r.chance(1, 2) { GT::Int } else { GT::Bool };
    let h = if g.r.chance(1, 2) { g.group(&ty, depth) } else { g.term(&ty, depth) };
    // the trap may have been generated inside a subterm that was discarded later
    let mut present = false;
    crate::props::c08::walk(&h, &mut |x| {
        if let H::Let(n, ..) = x {
            present |= n.starts_with("trapped");
        }
    });
    if g.traps_planted == 0 || !present {
        return None;
    }
    // the result is used, so that a trap at the top is under an expectation too
    let h = if ty == GT::Int { H::Bin(Op::Add, hb(H::Paren(hb(h))), hb(H::lit(1))) } else { H::If(hb(H::Paren(hb(h))), hb(H::lit(1)), hb(H::lit(2))) };
    let ty = GT::Int;
    Some(Program { h, ty, mode, features: g.features.clone() })
}

// As gen_program, without recursively defined type families: gram's conversion check does not
// terminate once a neutral index of such a family is written in two different ways (`pad m`
// against `pad (if true then m else 0)` unfolds for ever), which meaning-preserving rewrites do.
pub fn gen_program_without_rec_families(r: &mut Rng, mode: Mode) -> Program {
    gen_program_opt(r, mode, false)
}

pub fn gen_program(r: &mut Rng, mode: Mode) -> Program {
    gen_program_opt(r, mode, true)
}

fn gen_program_opt(r: &mut Rng, mode: Mode, rec_families: bool) -> Program {
    let size = if r.chance(1, 8) { 40 + r.usize(80) } else { 4 + r.usize(30) };
    let cfg = Cfg { mode, size, effects: false, big_ints: r.chance(1, 3), type_level: r.chance(2, 3), recursion: true, rec_families, trap: false };
    let depth = 2 + r.usize(4);
    let mut g = ProgGen::new(r, cfg);
    let ty = match g.r.below(10) {
        0 | 1 | 2 | 3 => GT::Int,
        4 | 5 => GT::Bool,
        6 => GT::Type,
        _ => g.random_type(2),
    };
    let h = if g.r.chance(1, 2) { g.group(&ty, depth) } else { g.term(&ty, depth) };
    Program { h, ty, mode, features: g.features.clone() }
}

// The intended type as a closed source term (for comparison by R-core).
pub fn type_to_h(t: &GT) -> H {
    match t {
        GT::Int => H::Int,
        GT::Bool => H::Bool,
        GT::Type => H::Type,
        GT::TVar(a) => H::Var(a.clone()),
        GT::Arrow(d, c) => H::Pi("_".into(), false, hb(type_to_h(d)), hb(type_to_h(c))),
        GT::Forall(a, b) => H::Pi(a.clone(), false, hb(H::Type), hb(type_to_h(b))),
        GT::Opaque => H::Type,
        GT::Dep(k) => {
            let fam = || k.family(H::var("ix"));
            H::Pi("ix".into(), false, hb(k.index_type()), hb(H::Pi("_".into(), false, hb(fam()), hb(fam()))))
        }
    }
}
