// Generates the `#[path]` module declarations that compile gram's own source files (every module
// except main.rs) into this crate, so that `crate::term`, `crate::parser`, ... resolve exactly as
// they do inside gram. GRAM_REPO selects the tree (default /repo).
use std::{env, fs, path::Path};

fn main() {
    let repo = env::var("GRAM_REPO").unwrap_or_else(|_| "/repo".to_owned());
    println!("cargo:rerun-if-env-changed=GRAM_REPO");
    let mods = [
        "assertions", "de_bruijn", "equality", "error", "evaluator", "format", "normalizer",
        "parser", "term", "token", "tokenizer", "type_checker", "unifier", "verif_hooks",
    ];
    let mut out = String::new();
    for m in mods {
        let p = format!("{repo}/src/{m}.rs");
        println!("cargo:rerun-if-changed={p}");
        if m == "assertions" {
            out.push_str("#[macro_use]\n");
        }
        if m == "verif_hooks" && !Path::new(&p).exists() {
            // Tree without the hook module (e.g. the pristine snapshot): provide inert stand-ins.
            out.push_str("pub mod verif_hooks { include!(concat!(env!(\"CARGO_MANIFEST_DIR\"), \"/src/hooks_fallback.rs\")); }\n");
            continue;
        }
        out.push_str(&format!("#[path = \"{p}\"]\npub mod {m};\n"));
    }
    println!("cargo:rerun-if-changed={repo}/grammar.y");
    out.push_str(&format!("pub const GRAM_REPO: &str = \"{repo}\";\n"));
    let dest = Path::new(&env::var("OUT_DIR").unwrap()).join("gram_mods.rs");
    fs::write(dest, out).unwrap();
}
