#!/bin/sh
# usage: tools/audit.sh <patch.diff> <name> <ID> [<ID> ...]
# Applies a seeded change to a scratch worktree of /repo (outside /repo and /verif), confirms that
# the unedited test suite still passes there, runs the given checks' quick commands against it
# (GRAM_REPO), prints one line per check, and removes the worktree and its build output.
set -u
PATCH=$(readlink -f "$1"); NAME=$2; shift 2
VERIF=$(cd "$(dirname "$0")/.." && pwd)
WT=/tmp/audit-$NAME
CACHE=/tmp/audit-cache-$NAME
git -C /repo worktree remove --force "$WT" >/dev/null 2>&1
rm -rf "$WT" "$CACHE"
git -C /repo worktree add -q --detach "$WT" HEAD || exit 2
# seed the scratch cache with the already-built dependencies (only gram's own crate is rebuilt)
mkdir -p "$CACHE"
cp -a "$VERIF/.cache/gram-target" "$CACHE/gram-target" 2>/dev/null
cp -a "$VERIF/.cache/harness-target" "$CACHE/harness-target" 2>/dev/null
if ! git -C "$WT" apply "$PATCH" 2>/dev/null && ! ( cd "$WT" && patch -p1 --fuzz=3 -s < "$PATCH" ); then echo "AUDIT $NAME: patch does not apply"; git -C /repo worktree remove --force "$WT"; exit 2; fi
if [ "${AUDIT_SKIP_TESTS:-0}" != 1 ]; then
  T=$( cd "$WT" && CARGO_TARGET_DIR="$CACHE/test-target" cargo test --workspace --no-fail-fast --offline 2>&1 | grep "test result" | head -1 )
  echo "AUDIT $NAME: tests: $T"
fi
# demonstration shipped with the seeded change: must fail with the change and pass without it
DEMO_DIR=$(dirname "$PATCH")
if [ -f "$DEMO_DIR/demo.sh" ]; then
  ( cd "$WT" && CARGO_TARGET_DIR="$CACHE/gram-target" cargo build --release --offline >/dev/null 2>&1 )
  ( cd "$DEMO_DIR" && sh ./demo.sh "$CACHE/gram-target/release/gram" >/dev/null 2>&1 ); WITH=$?
  ( cd "$DEMO_DIR" && sh ./demo.sh "$VERIF/.cache/gram-target/release/gram" >/dev/null 2>&1 ); WITHOUT=$?
  echo "AUDIT $NAME: demo: exit with change=$WITH, without=$WITHOUT"
fi
for ID in "$@"; do
  OUT=$( cd "$VERIF" && GRAM_REPO="$WT" GV_CACHE="$CACHE" GV_EVIDENCE_DIR="$CACHE/ev" ./check "$ID" quick 2>&1 )
  RC=$?
  SUMMARY=$(echo "$OUT" | grep -E "^(VIOLATION|INCONCLUSIVE)" | head -2 | cut -c1-160 | tr '\n' ' ')
  echo "AUDIT $NAME: $ID exit=$RC $SUMMARY"
done
git -C /repo worktree remove --force "$WT" >/dev/null 2>&1
rm -rf "$WT" "$CACHE"
