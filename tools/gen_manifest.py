#!/usr/bin/env python3
"""Regenerates /verif/MANIFEST.json from the table below (checks that exist in the harness)."""
import json, subprocess, os
HERE = os.path.dirname(os.path.dirname(os.path.abspath(__file__)))
CHECKS = {
 # id: (technique, level text, level note, design_ref)
 "C09": ("runtime monitor: tokenizer invariants + specification-tokenizer differential over exhaustive short strings and random texts",
         "Held on every execution observed: tokenize() is run on all strings of <=4 (quick) / <=5 (thorough) symbols over a 32-symbol alphabet covering every character class, on keyword edits, random Unicode texts and long literals; each result is checked against model-free partition invariants and against an independent specification tokenizer. Exhaustive within the enumerated space, sampled beyond it.",
         "Trusts Rust's char classification, unicode-segmentation grapheme boundaries and num-bigint comparison; the reference tokenizer (harness/src/rtok.rs) is the specification of DESIGN.md A.1/A.2.",
         "DESIGN.md section 4, C09"),
 "C10": ("runtime monitor: metamorphic re-layout under the layout rule + exhaustive bigram/filler table + specification-tokenizer differential",
         "Held on every execution observed: 20 rule-conforming re-layouts of each corpus/generated program and token soup must leave the token stream and the parse result unchanged; every token-kind bigram x 14 gap fillers is judged by the rule; all strings of <=6 (quick) / <=7 (thorough) symbols over a layout alphabet are compared with the specification tokenizer.",
         "The layout rule of DESIGN.md A.2 is the specification (a terminator directly after `}` is a don't-care). Trusts Rust's char classification.",
         "DESIGN.md section 4, C10"),
 "C13": ("runtime monitor: byte comparison of repeated process launches and of repeated in-process parses (fresh hash keys each time)",
         "Held on every execution observed: files built to yield several order-sensitive diagnostics are launched repeatedly through `gram check` and `gram run` and must be byte-identical (stdout, stderr, status); every file is also pushed 20 times through tokenize+parse(+type_check) in-process. Probabilistic reach: a k-way order dependence survives N launches with probability (1/k!)^(N-1).",
         "Assumes std RandomState draws a fresh key per process and per HashSet/HashMap instance (true for the pinned toolchain). Process launches are capped by the sandbox's launch rate (about 100/s).",
         "DESIGN.md section 4, C13"),
 "C14": ("runtime monitor: panic capture and Err-nonempty checks around each library stage in isolated workers + process-boundary contract monitor of `gram check`",
         "Held on every execution observed: all byte strings <=2 bytes, all token sequences <=4 (quick) / <=5 (thorough) tokens, random bytes incl. invalid UTF-8, token soups, every single-token mutant and truncation of the corpus, nesting families to depth 200; no stage panicked, no Err was empty, parse stayed under its logical work cap, and `gram check` kept its exit-status/stdout/stderr contract on the subset sent through the real binary.",
         "Library stages are observed in the harness build of gram's sources (checked arithmetic); wall-clock timeouts and stack exhaustion at the process boundary are inconclusive, never violations.",
         "DESIGN.md section 4, C14"),
 "C17": ("runtime monitor: logical work counter (parse-function invocations, hook) with abort cap, plus thread CPU time, over parameterised input families",
         "Held on every execution observed: for 30 families x 3 forms x sizes 16..2048 (quick) / 4096 (thorough) the number of parse-function invocations stayed linear (local exponent <= 2.5, never above the quadratic cap) and CPU time showed no super-quadratic growth.",
         "Observational bound over families, not all inputs. W sees only the memoised parse functions; the rest is covered by CPU time, judged only above 300 ms.",
         "DESIGN.md section 4, C17"),
}
REASON_PENDING = "check not built yet in this revision of the framework (planned; see DESIGN.md section 8)"
def main():
    props = [json.loads(l) for l in open(os.path.join(HERE, "properties.jsonl"))]
    hooks_commits = []
    try:
        out = subprocess.run(["git", "-C", "/repo", "log", "--format=%h %s"], capture_output=True, text=True).stdout
        for line in out.splitlines():
            h, s = line.split(" ", 1)
            if "'verif'" in s:
                hooks_commits.append(h)
    except Exception:
        pass
    checks = []
    na = []
    for p in props:
        i = p["id"]
        if i in CHECKS:
            tech, text, note, ref = CHECKS[i]
            checks.append({
                "property_id": i,
                "quick_cmd": f"./check {i} quick",
                "thorough_cmd": f"./check {i} thorough",
                "evidence_file": f"/verif/evidence/{i}.json",
                "replay_cmd_template": f"./check {i} --replay {{path}}",
                "engine": "gv",
                "level_claimed": {"category": "exploration", "text": text, "design_ref": ref},
                "level_note": note,
                "technique": tech,
            })
        else:
            na.append({"property_id": i, "reason": REASON_PENDING})
    m = {
        "version": 1,
        "setup_cmd": "./setup.sh",
        "hooks": {
            "guard": "cargo feature `verif` (declared in /repo/Cargo.toml, off by default)",
            "enable": "the harness crate /verif/harness compiles /repo/src/*.rs through #[path] modules with its own feature `verif` on (default); CLI-level checks use the plain release binary built from /repo",
            "baseline_off_cmd": "cd /repo && cargo test --workspace --no-fail-fast --offline",
            "source_commits": hooks_commits,
            "add_only": True,
        },
        "engines": [{"name": "gv", "path": "/verif/harness", "serves_properties": [c["property_id"] for c in checks],
                     "kind_free_text": "Rust harness: workload generators, reference models and monitors; driver with isolated worker processes, watchdog, replay files"}],
        "checks": checks,
        "notes": "Runtime monitoring only. Every verdict means: held on the executions observed (see evidence files for what was observed). Known findings: /verif/known_findings.json.",
        "not_applicable": na,
    }
    json.dump(m, open(os.path.join(HERE, "MANIFEST.json"), "w"), indent=1)
    print("wrote MANIFEST.json with", len(checks), "checks and", len(na), "not_applicable")
main()
