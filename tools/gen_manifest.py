#!/usr/bin/env python3
"""Regenerates /verif/MANIFEST.json from the table below (checks that exist in the harness)."""
import json, subprocess, os
HERE = os.path.dirname(os.path.dirname(os.path.abspath(__file__)))
CHECKS = {
 # id: (technique, level text, level note, design_ref)
 "C09": ("runtime monitor: tokenizer invariants + specification-tokenizer differential over exhaustive short strings and random texts",
         "Held on every execution observed: tokenize() is run on all strings of <=4 (quick) / <=5 (thorough) symbols over a 32-symbol alphabet covering every character class, on keyword edits, random Unicode texts and long literals; each result is checked against model-free partition invariants and against an independent specification tokenizer. Exhaustive within the enumerated space, sampled beyond it.",
         "Trusts Rust's char classification, unicode-segmentation grapheme boundaries and num-bigint comparison; the reference tokenizer (harness/src/rtok.rs) is the specification of DESIGN.md A.1/A.2.",
         "DESIGN.md section 4, C09"),
}
REASON_PENDING = "check not built yet in this revision of the framework (planned; see DESIGN.md section 8)"
def main():
    props = [json.loads(l) for l in open(os.path.join(HERE, "properties.jsonl"))]
    hooks_commits = []
    try:
        out = subprocess.run(["git", "-C", "/repo", "log", "--format=%h %s"], capture_output=True, text=True).stdout
        for line in out.splitlines():
            h, s = line.split(" ", 1)
            if "'verif'" in s:
                hooks_commits.append(h)
    except Exception:
        pass
    checks = []
    na = []
    for p in props:
        i = p["id"]
        if i in CHECKS:
            tech, text, note, ref = CHECKS[i]
            checks.append({
                "property_id": i,
                "quick_cmd": f"./check {i} quick",
                "thorough_cmd": f"./check {i} thorough",
                "evidence_file": f"/verif/evidence/{i}.json",
                "replay_cmd_template": f"./check {i} --replay {{path}}",
                "engine": "gv",
                "level_claimed": {"category": "exploration", "text": text, "design_ref": ref},
                "level_note": note,
                "technique": tech,
            })
        else:
            na.append({"property_id": i, "reason": REASON_PENDING})
    m = {
        "version": 1,
        "setup_cmd": "./setup.sh",
        "hooks": {
            "guard": "cargo feature `verif` (declared in /repo/Cargo.toml, off by default)",
            "enable": "the harness crate /verif/harness compiles /repo/src/*.rs through #[path] modules with its own feature `verif` on (default); CLI-level checks use the plain release binary built from /repo",
            "baseline_off_cmd": "cd /repo && cargo test --workspace --no-fail-fast --offline",
            "source_commits": hooks_commits,
            "add_only": True,
        },
        "engines": [{"name": "gv", "path": "/verif/harness", "serves_properties": [c["property_id"] for c in checks],
                     "kind_free_text": "Rust harness: workload generators, reference models and monitors; driver with isolated worker processes, watchdog, replay files"}],
        "checks": checks,
        "notes": "Runtime monitoring only. Every verdict means: held on the executions observed (see evidence files for what was observed). Known findings: /verif/known_findings.json.",
        "not_applicable": na,
    }
    json.dump(m, open(os.path.join(HERE, "MANIFEST.json"), "w"), indent=1)
    print("wrote MANIFEST.json with", len(checks), "checks and", len(na), "not_applicable")
main()
