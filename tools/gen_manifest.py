#!/usr/bin/env python3
"""Regenerates /verif/MANIFEST.json from the table below (checks that exist in the harness)."""
import json, subprocess, os
HERE = os.path.dirname(os.path.dirname(os.path.abspath(__file__)))
CHECKS = {
 # id: (technique, level text, level note, design_ref)
 "C09": ("runtime monitor: tokenizer invariants + specification-tokenizer differential over exhaustive short strings and random texts",
         "Held on every execution observed: tokenize() is run on all strings of <=4 (quick) / <=5 (thorough) symbols over a 34-symbol alphabet covering every character class (incl. a byte order mark and a regional indicator), on all sequences of <=3 / <=4 symbols whose grapheme-cluster boundaries depend on their predecessors, on keyword edits, random Unicode texts and long literals; each result is checked against model-free partition invariants and against an independent specification tokenizer. Exhaustive within the enumerated space, sampled beyond it.",
         "Trusts Rust's char classification, unicode-segmentation grapheme boundaries and num-bigint comparison; the reference tokenizer (harness/src/rtok.rs) is the specification of DESIGN.md A.1/A.2.",
         "DESIGN.md section 4, C09"),
 "C10": ("runtime monitor: metamorphic re-layout under the layout rule + exhaustive bigram/filler table + specification-tokenizer differential",
         "Held on every execution observed: 20 rule-conforming re-layouts of each corpus/generated program and token soup must leave the token stream and the parse result unchanged; every token-kind bigram x 19 gap fillers (non-ASCII white space, vertical tab, comments containing a bare CR included) is judged by the rule; all strings of <=6 (quick) / <=7 (thorough) symbols over a layout alphabet are compared with the specification tokenizer.",
         "The layout rule of DESIGN.md A.2 is the specification (a terminator directly after `}` is a don't-care). Trusts Rust's char classification.",
         "DESIGN.md section 4, C10"),
 "C13": ("runtime monitor: byte comparison of repeated process launches and of repeated in-process parses (fresh hash keys each time)",
         "Held on every execution observed: files built to yield several order-sensitive diagnostics (definition-order, scoping with look-alike names, type and parse errors, generated programs with a planted fault) and programs that evaluate for seconds are launched repeatedly through `gram check` and `gram run` and must be byte-identical (stdout, stderr, status); every file is also pushed 20 times through tokenize+parse(+type_check) in-process. Probabilistic reach: a k-way order dependence survives N launches with probability (1/k!)^(N-1).",
         "Assumes std RandomState draws a fresh key per process and per HashSet/HashMap instance (true for the pinned toolchain). Process launches are capped by the sandbox's launch rate (about 100/s).",
         "DESIGN.md section 4, C13"),
 "C14": ("runtime monitor: panic capture and Err-nonempty checks around each library stage in isolated workers + process-boundary contract monitor of `gram check`",
         "Held on every execution observed: all byte strings <=2 bytes, all token sequences <=4 (quick) / <=5 (thorough) tokens, random bytes incl. invalid UTF-8, token soups, every single-token mutant and truncation of the corpus, nesting families to depth 200, generated programs and their perturbations with rendered diagnostics, every operator on every pair of 27 operands (machine-integer edges, 200-bit values) deciding a type; no stage panicked, no Err was empty, parse stayed under its logical work cap, and `gram check` kept its exit-status/stdout/stderr contract on the subset sent through the real binary.",
         "Library stages are observed in the harness build of gram's sources (checked arithmetic); wall-clock timeouts and stack exhaustion at the process boundary are inconclusive, never violations; an in-process worker death while tokenizing or parsing, or during type checking of a program the reference accepts, is a violation.",
         "DESIGN.md section 4, C14"),
 "C17": ("runtime monitor: logical work counters (parse-function, definition-order-check and post-parse-pass invocations, hooks, with abort cap) and guest instruction counts under valgrind cachegrind, over parameterised input families",
         "Held on every execution observed: for 34 families x 3 forms x sizes 16..2048 (quick) / 4096 (thorough) the number of parse-function invocations and of definition-order checks stayed linear (local exponent <= 2.5, never above the quadratic cap), the same held for the invocations of the post-parse passes (error collection, re-association, resolution, definition traversal) and on 436 (quick) / 1332 (thorough) nested templates built from 36 one-hole contexts, and the instruction count of tokenize+parse measured under valgrind for sizes 64..512 (quick) / 2048 (thorough) grew with a local exponent of at most 1.4.",
         "Observational bound over families, not all inputs. CPU time is recorded but only triggers a re-measurement by instruction count; it never decides (it is load-dependent on this machine). valgrind unavailable = inconclusive.",
         "DESIGN.md section 4, C17"),
 "C01": ("runtime monitor: the harness drives evaluator::step under a step budget on every accepted program and classifies the stuck redex by walking the evaluation context",
         "Held on every execution observed: every program accepted by the front end among generated explicit/inferred programs, their single-point perturbations and the corpus was stepped up to 4000 (quick) / 20000 (thorough) steps; no run ended in a stuck term other than a division by literal zero, except the two recorded findings (unfilled source hole; hole identity lost in substitution), which are attributed narrowly (pointer identity with parse-created cells; hook counters at the unresolved arms of open/signed_shift, inferred programs only).",
         "No reference model is involved. evaluate() and `gram run` are cross-checked against the driven loop on short runs.",
         "DESIGN.md section 4, C01"),
 "C02": ("runtime monitor: differential against an environment-based call-by-value reference interpreter on the source AST, plus an exhaustive operator x operand table and planted effects",
         "Held on every execution observed: gram's value equals the reference interpreter's on generated programs (ground values exactly, functions by reference conversion between program and value), on all 9 operators x 27 x 27 operands up to +-(2^200+12345), on programs after 1-3 scope-aware edits that the checker still accepts, and division by zero appears exactly where call-by-value evaluation reaches it (8 placements).",
         "R-eval (harness/src/reval.rs) is the semantics of DESIGN.md A.7; gram's step budget is 20 x reference reductions + 200 (logical, not wall clock).",
         "DESIGN.md section 4, C02"),
 "C03": ("runtime monitor: an independent NbE type checker (R-core) judges every elaborated (term, type) pair; ill-typed perturbations must be rejected",
         "Held on every execution observed: each pair returned by type_check on explicit, inferred, perturbed and edited (explicit and inferred, incl. planted wrong-type traps behind decoy definitions and scope-aware edits that put another variable in scope where one stood) and corpus programs, on all programs of <=5/6 nodes and on a 6360-cell matrix of higher-order polymorphic calls with written or omitted binder annotations was re-checked by R-core (scoping, typing, reported type); every explicit program R-core judges ill-typed - perturbed, edited, or a near-miss coercion (closed, under an integer parameter, polymorphic with alias groups between binders, variables of a context with kind aliases in type positions) - was rejected with a diagnostic. Violations on programs with holes whose check passed an unresolved hole through open/signed_shift (hook counters) are the recorded finding.",
         "R-core implements DESIGN.md A.5/A.6 with named closures (no de Bruijn arithmetic); reference fuel exhaustion is inconclusive.",
         "DESIGN.md section 4, C03"),
 "C04": ("runtime monitor: head-shape table and full reference re-check of the evaluated value against the reported type",
         "Held on every execution observed: for accepted programs (generated, corpus, and whatever the checker still accepts among single-point perturbations, scope-aware edits and planted traps) that produced a value, the value's head matches the weak-head form of the reported type and R-core infers for the value a type convertible to the reported one.",
         "R-core is the typing reference; programs that do not produce a value within the step budget are not judged.",
         "DESIGN.md section 4, C04"),
 "C05": ("runtime monitor: reference verdict and intended type on type-directed explicit programs versus gram's; exact structural diff of parse output and elaborated term",
         "Held on every execution observed: every generated fully annotated program that R-core accepts was accepted by gram (a definition-order diagnostic on such a program, which the reference interpreter runs without needing an unavailable definition, counts as a false rejection) with a type convertible both to R-core's and to the generator's intended type; every explicit program that R-core still accepts after 1-3 scope-aware edits (other variables in scope, neighbouring literals, operators of the same class, definitions and applied binders put around a node, annotations and domains named by an alias of their own group) was accepted with a type convertible to R-core's; for every accepted program the elaborated term equals the parsed term except where the source had a hole or omitted annotation. A worker death on an explicit program counts as a violation.",
         "Two independent expectations (R-core, generator). Syntactic rejections of a printed program are not this property's subject and are counted as inconclusive (0 observed).",
         "DESIGN.md section 4, C05"),
 "C06": ("runtime monitor: evaluator trace from the harness's step loop versus normalize_weak_head/unify; symmetry; agreement with reference normal forms",
         "Held on every execution observed: unify(t,t); unify(t, t') in both directions where t' is t with subterms behind already solved holes (shift 0-3), and whnf(t') = the evaluated literal; unify(t, reduct) in both directions for the first 30 reducts; whnf of ground programs equals the evaluated literal, evaluation is never stuck where whnf computes a literal, and no worker dies (stack exhaustion) while normalising or unifying a program whose evaluation has ended (generated programs and every operator on every pair of 27 operands incl. the machine-integer edges); unify(a,b)=unify(b,a)=equality of R-core normal forms on pairs of same-typed hole-free terms.",
         "Hole-free terms only; non-normalising pairs are skipped by construction or inconclusive on the watchdog.",
         "DESIGN.md section 4, C06"),
 "C07": ("runtime monitor: differential against an independent chart parser that reads grammar.y at run time (accept/reject, derivation count, left-associated tree)",
         "Held on every execution observed: all token sequences of <=4 (quick) / <=5 (thorough) tokens over the 28 terminals, the systematic chain x parenthesisation matrix (24k sentences), random sentences up to 80 tokens and their single-token mutants: parse accepts exactly the sentences, no sentence has two derivations, and the AST equals the left-associated derivation.",
         "AST-of-derivation table is DESIGN.md A.3; a parenthesised group in body position is compared modulo gram's merge. Exhaustive within the enumerated lengths only.",
         "DESIGN.md section 4, C07"),
 "C08": ("runtime monitor: differential against a named-scope resolver on the source AST; unbind/rebind perturbations must yield the right diagnostic",
         "Held on every execution observed: parse() output indices equal the reference resolver's on random well-scoped programs (nesting, sibling reuse, groups with forward references, `_`, non-empty context); every perturbation that unbinds or re-binds a name is rejected with a diagnostic of the right category naming the identifier.",
         "Scoping rules are DESIGN.md A.4; for rejected programs the expected diagnostics must be among those reported.",
         "DESIGN.md section 4, C08"),
 "C11": ("runtime monitor: differential against capture-avoiding operations on named terms plus algebraic laws, exhaustive over small terms",
         "Held on every execution observed: signed_shift, unsigned_shift, open and free_variables agree with the named reference and satisfy the laws on every hole-free term of <=4 (quick) / <=5 (thorough) nodes over all formers, on all groups of 2 and 3 definitions with atomic parts, on sampled groups of 4-8 definitions under 0-2 binders, for cutoffs/indices 0-3, amounts -3..3 and 20 inserted terms, and on random terms up to 200 nodes.",
         "Hole-free terms only, as the property states.",
         "DESIGN.md section 4, C11"),
 "C12": ("runtime monitor: inspection of hole cells after unify() on constructed (pattern, instance) pairs: cycles, scope of solutions, reference conversion of the filled-in terms",
         "Held on every execution observed: after every successful unification no cell is reachable from its own content, every solution is closed with respect to the scope its hole was written in, and the two terms with solutions filled in are convertible for R-core (pairs: punched terms against the original / beta-expanded / definition-wrapped term, parts of either side optionally behind already solved holes; unrelated terms; a term against a structurally edited well-typed copy; 39 hand-made configurations); failures of the last kind on pairs whose unification passed an unresolved hole through open/signed_shift are the recorded finding.",
         "Only successes are judged. Base terms are generated without recursive definitions (unify legitimately diverges on them once a hole defeats the syntactic shortcut).",
         "DESIGN.md section 4, C12"),
 "C15": ("runtime monitor: specification listing (R-listing) differential, fault injection with spans known from the printer, range => re-parse round trip of every node",
         "Held on every execution observed: listing() equals the specified excerpt on random (text, range) pairs; injected unbound names, re-bound binders and stray symbols are marked exactly; every node range of parsed programs re-parses in its scope to the same subterm; for explicit programs with one planted fault every type diagnostic marks a subexpression whose evident type (literals, operators, type formers, lambdas, variables with ground annotations) agrees with what the message says about it, and every definition-order diagnostic shows the definition it names; all except the recorded finding about ranges that start or end inside the parentheses of a re-associated chain.",
         "Characters are Unicode scalar values; which subexpression a type diagnostic should mark is judged through the message's own claim about its type, not through a table of expected sites.",
         "DESIGN.md section 4, C15"),
 "C16": ("runtime monitor: round trip parse -> Display -> parse with exact structural equality, exhaustive (parent, position, child) former matrix",
         "Held on every execution observed: every (parent former, operand position) x child former combination (41 x 38 x 3 fillers) and random well-scoped programs print to text that reads back to the same term, except the recorded finding (non-dependent implicit function type printed `{A} -> B`).",
         "Holes compared by position only; names of unused function-type parameters ignored.",
         "DESIGN.md section 4, C16"),
 "C18": ("runtime monitor: differential between type_check/normalize/unify under a peeled context and the closed program, with deep context snapshots before and after every call",
         "Held on every execution observed: verdicts agree, types are convertible for R-core once the peeled parameters are instantiated, normalisation under the context preserves meaning (also for the term with subterms behind already solved holes written up to 3 binders further out, context entries included), unify agrees with the closed wrappers, and both contexts are identical (length, offsets, Rc identity, structure) after accepted and rejected calls.",
         "Contexts are built from explicit (hole-free) programs.",
         "DESIGN.md section 4, C18"),
 "C19": ("runtime monitor: metamorphic relation between two runs of the full pipeline under meaning-preserving rewrites (no reference model)",
         "Held on every execution observed: 10 sequences of 1-5 rewrites per program (renaming, parentheses, unused definitions in front / at a site / after any definition of any group, naming a subexpression, naming a function type in its enclosing group, identity wrap, if-true wrap, swapping function definitions, hoisting literal arithmetic) left acceptance and printed value unchanged; changes on inferred programs whose check passed an unresolved hole through open/signed_shift are the recorded finding.",
         "Rewrites that turn a syntactic value into a computation are not applied directly at a definition of a group (that changes which definitions are available: not meaning-preserving). Programs are generated without recursively defined type families: gram's conversion check does not terminate once a neutral index of such a family is rewritten (DESIGN.md 9.3, D17), and a run that does not end is inconclusive here.",
         "DESIGN.md section 4, C19"),
}
REASON_PENDING = "check not built yet in this revision of the framework (planned; see DESIGN.md section 8)"
def main():
    props = [json.loads(l) for l in open(os.path.join(HERE, "properties.jsonl"))]
    hooks_commits = []
    try:
        out = subprocess.run(["git", "-C", "/repo", "log", "--format=%h %s"], capture_output=True, text=True).stdout
        for line in out.splitlines():
            h, s = line.split(" ", 1)
            if "'verif'" in s:
                hooks_commits.append(h)
    except Exception:
        pass
    checks = []
    na = []
    for p in props:
        i = p["id"]
        if i in CHECKS:
            tech, text, note, ref = CHECKS[i]
            checks.append({
                "property_id": i,
                "quick_cmd": f"./check {i} quick",
                "thorough_cmd": f"./check {i} thorough",
                "evidence_file": f"/verif/evidence/{i}.json",
                "replay_cmd_template": f"./check {i} --replay {{path}}",
                "engine": "gv",
                "level_claimed": {"category": "exploration", "text": text, "design_ref": ref},
                "level_note": note,
                "technique": tech,
            })
        else:
            na.append({"property_id": i, "reason": REASON_PENDING})
    m = {
        "version": 1,
        "setup_cmd": "./setup.sh",
        "hooks": {
            "guard": "cargo feature `verif` (declared in /repo/Cargo.toml, off by default)",
            "enable": "the harness crate /verif/harness compiles /repo/src/*.rs through #[path] modules with its own feature `verif` on (default); CLI-level checks use the plain release binary built from /repo",
            "baseline_off_cmd": "cd /repo && cargo test --workspace --no-fail-fast --offline",
            "source_commits": hooks_commits,
            "add_only": True,
        },
        "engines": [{"name": "gv", "path": "/verif/harness", "serves_properties": [c["property_id"] for c in checks],
                     "kind_free_text": "Rust harness: workload generators, reference models and monitors; driver with isolated worker processes, watchdog, replay files"}],
        "checks": checks,
        "notes": "Runtime monitoring only. Every verdict means: held on the executions observed (see evidence files for what was observed). Known findings: /verif/known_findings.json.",
        "not_applicable": na,
    }
    json.dump(m, open(os.path.join(HERE, "MANIFEST.json"), "w"), indent=1)
    print("wrote MANIFEST.json with", len(checks), "checks and", len(na), "not_applicable")
main()
