#!/usr/bin/env python3
"""Copies the seeded changes written by the independent agents (/tmp/seed/Cxx/OUT/{A,B}) into
/verif/seeded/<id>/ and writes meta.json from their meta.txt and from the audit logs
(/tmp/matrix_*.log, /tmp/audit*.log: lines 'AUDIT <name>: <ID> exit=<rc> ...')."""
import glob, json, os, re, shutil, sys
OUT = "/verif/seeded"
results = {}   # name -> {check: rc}
tests = {}
demo = {}
for f in sorted(glob.glob("/tmp/matrix_*.log") + glob.glob("/tmp/audit*.log"), key=os.path.getmtime):
    for line in open(f, errors="replace"):
        m = re.match(r"AUDIT (\w+): (C\d+) exit=(\d+)", line)
        if m:
            name = m.group(1).lstrip("xy")
            results.setdefault(name, {})[m.group(2)] = int(m.group(3))   # later files override earlier ones
        m = re.match(r"AUDIT (\w+): tests: (.*)", line)
        if m:
            tests[m.group(1).lstrip("xy")] = m.group(2).strip()
        m = re.match(r"AUDIT (\w+): demo: exit with change=(\d+), without=(\d+)", line)
        if m:
            demo[m.group(1).lstrip("xy")] = (int(m.group(2)), int(m.group(3)))
props = {json.loads(l)["id"]: json.loads(l) for l in open("/verif/properties.jsonl")}
index = []
for d in sorted(glob.glob("/tmp/seed/C*/OUT/[AB]")):
    pid = d.split("/")[3]
    var = d.split("/")[-1]
    name = f"{pid}{var}"
    if not os.path.exists(f"{d}/patch.diff"):
        continue
    dst = f"{OUT}/{pid}-{var}"
    os.makedirs(dst, exist_ok=True)
    for fn in os.listdir(d):
        p = f"{d}/{fn}"
        if os.path.isfile(p) and os.path.getsize(p) < 200_000 and not fn.startswith("gram"):
            shutil.copy(p, f"{dst}/{fn}")
    meta_txt = open(f"{d}/meta.txt", errors="replace").read() if os.path.exists(f"{d}/meta.txt") else ""
    r = results.get(name, {})
    caught = sorted(k for k, v in r.items() if v == 1)
    silent = sorted(k for k, v in r.items() if v == 0)
    other = sorted(k for k, v in r.items() if v not in (0, 1))
    t = tests.get(name, "")
    dm = demo.get(name)
    meta = {
        "id": f"{pid}-{var}",
        "breaks_property": pid,
        "property_title": props[pid]["title"],
        "origin": "written by an independent sub-agent that was given only the property text and a scratch worktree of gramlang/gram",
        "what_it_changes_and_what_it_needs_to_manifest": meta_txt.strip(),
        "confirmed": {
            "existing_test_suite_with_change": t or "confirmed by the agent (450 passed); not re-run here",
            "demonstration": (f"demo.sh exits {dm[0]} with the change and {dm[1]} without it" if dm else "unit-test demonstration (demo_test.rs), confirmed by the agent"),
            "how": "tools/audit.sh <patch> <name> <checks...>: scratch worktree of /repo under /tmp, patch applied, `cargo test --workspace --no-fail-fast --offline`, demo.sh against the patched and the unpatched release binary, then `./check <ID> quick` with GRAM_REPO pointing at the scratch tree; worktree and build output removed afterwards",
        },
        "quick_checks_that_report_a_violation": caught,
        "quick_checks_that_stay_silent": silent,
        "quick_checks_inconclusive": other,
        "caught_by_own_property_check": pid in caught,
    }
    json.dump(meta, open(f"{dst}/meta.json", "w"), indent=1, ensure_ascii=False)
    index.append((f"{pid}-{var}", caught, pid in caught))
print("seeds:", len(index), " caught by some check:", sum(1 for i in index if i[1]), " by own check:", sum(1 for i in index if i[2]))
for i in index:
    print(i[0], "caught by", ",".join(i[1]) or "-")
