#!/usr/bin/env python3
"""Collects the seeded changes written by the independent agents into /verif/seeded/<id>/ with a
meta.json each, and prints the table of DESIGN.md section 9.5.

Sources: round 1 is already under /verif/seeded/Cxx-V; rounds 2-5 live in the scratch worktrees
/tmp/seedN/Cxx/OUT/{A,B} while the build session lasts and are copied to /verif/seeded/rN-Cxx-V.
Audit logs: lines 'AUDIT <name>: <ID> exit=<rc> ...' written by tools/audit.sh. The final audits
(/tmp/m8_*.log, /tmp/m9_*.log, /tmp/m9b_*.log; for rounds 6-7 /tmp/m10_*.log = first audit, /tmp/m11_*.log = re-audit after strengthening; run from snapshots of the harness) are authoritative; logs of earlier
harness revisions are kept as 'earlier_audits'. If no scratch data is present (fresh restore) the
script only re-reads what is already in /verif/seeded and prints the table from the meta files."""
import glob, json, os, re, shutil, sys

OUT = "/verif/seeded"
LINE = re.compile(r"AUDIT (\w+): (C\d+) exit=(\d+)")


def parse_logs(files):
    res, tests, demo = {}, {}, {}
    for f in sorted(files, key=os.path.getmtime):
        for line in open(f, errors="replace"):
            m = LINE.match(line)
            if m:
                res.setdefault(m.group(1), {})[m.group(2)] = int(m.group(3))
            m = re.match(r"AUDIT (\w+): tests: (.*)", line)
            if m:
                tests[m.group(1)] = m.group(2).strip()
            m = re.match(r"AUDIT (\w+): demo: exit with change=(\d+), without=(\d+)", line)
            if m:
                demo[m.group(1)] = (int(m.group(2)), int(m.group(3)))
    return res, tests, demo


def norm(name):
    # x3C09A / y2C05B / r2C01A / C01A (round 1) -> canonical r<N>C<xx><V>
    name = re.sub(r"^[xy](\d)", r"r\1", name)
    if re.match(r"^C\d\d[AB]$", name):
        name = "r1" + name
    return name


final_raw, final_tests, final_demo = parse_logs(glob.glob("/tmp/m8_*.log") + glob.glob("/tmp/m9_*.log") + glob.glob("/tmp/m9b_*.log") + glob.glob("/tmp/m10_*.log") + glob.glob("/tmp/m11_*.log"))
early_raw, early_tests, early_demo = parse_logs(
    glob.glob("/tmp/m10_*.log") + glob.glob("/tmp/matrix_*.log") + glob.glob("/tmp/audit*.log") + glob.glob("/tmp/m2_*.log") + glob.glob("/tmp/m3_*.log") + glob.glob("/tmp/m4_*.log") + glob.glob("/tmp/m5_*.log") + glob.glob("/tmp/m6_*.log") + glob.glob("/tmp/x*.log")
)
final = {norm(k): v for k, v in final_raw.items()}
early = {}
for k, v in early_raw.items():
    early.setdefault(norm(k), {}).update({c: max(rc == 1, early.get(norm(k), {}).get(c, False)) for c, rc in v.items()})
tests = {norm(k): v for k, v in {**early_tests, **final_tests}.items()}
demo = {norm(k): v for k, v in {**early_demo, **final_demo}.items()}
props = {json.loads(l)["id"]: json.loads(l) for l in open("/verif/properties.jsonl")}

# copy rounds 2-4 from the scratch worktrees
for rnd in (2, 3, 4, 5, 6, 7):
    for d in sorted(glob.glob(f"/tmp/seed{rnd}/C*/OUT/[AB]")):
        pid, var = d.split("/")[3], d.split("/")[-1]
        if not os.path.exists(f"{d}/patch.diff"):
            continue
        dst = f"{OUT}/r{rnd}-{pid}-{var}"
        os.makedirs(dst, exist_ok=True)
        for fn in os.listdir(d):
            p = f"{d}/{fn}"
            if os.path.isfile(p) and os.path.getsize(p) < 200_000 and not fn.startswith("gram"):
                shutil.copy(p, f"{dst}/{fn}")

rows = []
for dst in sorted(glob.glob(f"{OUT}/*")):
    base = os.path.basename(dst)
    if not os.path.exists(f"{dst}/patch.diff"):
        continue
    m = re.match(r"^(?:r(\d)-)?(C\d\d)-([AB])$", base)
    if not m:
        continue
    rnd, pid, var = int(m.group(1) or 1), m.group(2), m.group(3)
    name = f"r{rnd}{pid}{var}"
    old = json.load(open(f"{dst}/meta.json")) if os.path.exists(f"{dst}/meta.json") else {}
    meta_txt = open(f"{dst}/meta.txt", errors="replace").read().strip() if os.path.exists(f"{dst}/meta.txt") else old.get("what_it_changes_and_what_it_needs_to_manifest", "")
    # the audits recorded in an existing meta.json, overlaid with what the logs of this session say
    fin = {}
    if "final_audit" in old:
        fin = {c: (1 if c in old["final_audit"]["report_a_violation"] else 0) for c in old["final_audit"]["report_a_violation"] + old["final_audit"]["stay_silent"]}
        for c in old["final_audit"].get("inconclusive", []):
            fin[c] = 2
    fin.update(final.get(name) or {})
    ear = early.get(name, {})
    if not ear and rnd < 4 and "earlier_audits_caught_by" in old:
        ear = {c: True for c in old["earlier_audits_caught_by"]}
    if not ear and "quick_checks_that_report_a_violation" in old:
        ear = {c: True for c in old["quick_checks_that_report_a_violation"]}
    caught = sorted(k for k, v in fin.items() if v == 1)
    silent = sorted(k for k, v in fin.items() if v == 0)
    other = sorted(k for k, v in fin.items() if v not in (0, 1))
    earlier_caught = sorted(k for k, v in ear.items() if v and k not in caught)
    t = tests.get(name) or old.get("confirmed", {}).get("existing_test_suite_with_change", "")
    dm = demo.get(name)
    demo_txt = f"demo.sh exits {dm[0]} with the change and {dm[1]} without it" if dm else old.get("confirmed", {}).get("demonstration", "unit-test demonstration (demo_test.rs), confirmed by the agent")
    meta = {
        "id": base,
        "round": rnd,
        "breaks_property": pid,
        "property_title": props[pid]["title"],
        "origin": "written by an independent sub-agent that was given only the property text (from round 3 on also one-line descriptions of the changes already tried for that property) and a scratch worktree of gramlang/gram",
        "what_it_changes_and_what_it_needs_to_manifest": meta_txt,
        "confirmed": {
            "existing_test_suite_with_change": t or "confirmed by the agent (450 passed); not re-run here",
            "demonstration": demo_txt,
            "how": "tools/audit.sh <patch> <name> <checks...>: scratch worktree of /repo under /tmp, patch applied, `cargo test --workspace --no-fail-fast --offline`, demo.sh against the patched and the unpatched release binary, then `./check <ID> quick` with GRAM_REPO pointing at the scratch tree; worktree and build output removed afterwards",
        },
        "final_audit": {"report_a_violation": caught, "stay_silent": silent, "inconclusive": other, "note": "quick tier, harness as committed at the end of the build session (run from a snapshot of /verif); only the own check and a few related ones were run"},
        "earlier_audits_caught_by": earlier_caught,
        "caught_by_own_property_check": pid in caught,
    }
    json.dump(meta, open(f"{dst}/meta.json", "w"), indent=1, ensure_ascii=False)
    first = re.sub(r"\s+", " ", meta_txt)[:150]
    rows.append((base, pid, caught, silent, other, earlier_caught, first))

print(f"seeds: {len(rows)}; caught by own check in the final audit: {sum(1 for r in rows if r[1] in r[2])}; caught by some check (final or earlier): {sum(1 for r in rows if r[2] or r[5])}")
print()
print("| seeded change | own check (final) | other checks reporting it (final audit) | silent (final audit) | reported in earlier audits only |")
print("|---|---|---|---|---|")
for base, pid, caught, silent, other, earlier, first in rows:
    own = "**caught**" if pid in caught else ("inconclusive" if pid in other else ("missed" if pid in silent else "not run"))
    print(f"| {base} | {own} | {', '.join(c for c in caught if c != pid) or '-'} | {', '.join(silent) or '-'} | {', '.join(earlier) or '-'} |")
