#!/bin/sh
# Runs every quick (or, with "thorough" as $1, thorough) check in sequence and prints one line per
# check: exit status, wall time and the driver's summary. Evidence goes to $GV_EVIDENCE_DIR if set.
cd "$(dirname "$0")/.."
TIER=${1:-quick}
FAIL=0
for ID in C01 C02 C03 C04 C05 C06 C07 C08 C09 C10 C11 C12 C13 C14 C15 C16 C17 C18 C19; do
  s=$(date +%s)
  OUT=$(./check $ID $TIER 2>&1); rc=$?
  e=$(( $(date +%s) - s ))
  echo "$ID rc=$rc ${e}s $(echo "$OUT" | grep -E "^$ID $TIER:" | cut -c1-200)"
  echo "$OUT" | grep -E "^(VIOLATION|INCONCLUSIVE)" | head -3 | cut -c1-220
  [ $rc -ne 0 ] && FAIL=1
done
exit $FAIL
